/-
  Helper lemmas for C17 part D (`LemoModel.MptDecode`: the node decoder of node.go as a function of bytes):
    * the slice reader of raw.go (`rawSplit`, `rawCount`) reads back what C14's encoder writes;
    * `Storable`: the nodes `hasher.store` can write; `decodeNode (nodeRlp c) = c` on them, by induction
      over the node (embedded children included), with any tail and any sufficient nesting depth;
    * the depth counter of the model is never exhausted, and whatever `decodeNode` returns is a normal
      node (`NormM false`), with hex keys, bytes and 32-byte hash references.
-/
import LemoModel.MptDecode
import LemoProofs.Lemmas.RlpSplit
import LemoProofs.Lemmas.MptCodec
namespace LemoProofs.MptDecodeLemmas
open LemoModel LemoModel.Rlp LemoProofs.RlpBytes LemoProofs.RlpSplit

/-! ### the slice reader of raw.go against the encoder -/

theorem rawReadSize_toBE (n : Nat) (rest : List UInt8) (h56 : 56 ≤ n) :
    rawReadSize (toBE n ++ rest) (toBE n).length = .ok n := by
  unfold rawReadSize
  have h1 : ¬ (toBE n ++ rest).length < (toBE n).length := by simp
  rw [if_neg h1, List.take_left, fromBE_toBE]
  rw [if_neg]
  intro h
  rcases h with h | h
  · omega
  · exact toBE_head n (by omega) h

theorem rawReadKind_str (n : Nat) (rest : List UInt8) (hn : n < 2 ^ 64) (hlen : n ≤ rest.length)
    (hc : ¬ (n = 1 ∧ lowHead rest = true)) :
    rawReadKind (encLen 128 n ++ rest) = .ok (1, (encLen 128 n).length, n) := by
  unfold encLen
  by_cases h : n < 56
  · rw [if_pos h]
    have hb : (UInt8.ofNat (128 + n)).toNat = 128 + n := u8_ofNat_toNat (by omega)
    simp only [List.cons_append, List.nil_append, rawReadKind, hb]
    rw [if_neg (by omega), if_pos (by omega)]
    have e : 128 + n - 128 = n := by omega
    rw [e, if_neg hc]
    simp only [List.length_cons, List.length_nil]
    rw [if_neg (by omega)]
  · rw [if_neg h]
    have h8 := toBE_len_8 hn
    have h1 := toBE_length_pos (n := n) (by omega)
    have hb : (UInt8.ofNat (128 + 55 + (toBE n).length)).toNat = 183 + (toBE n).length := by
      rw [u8_ofNat_toNat (by omega)]
    simp only [List.cons_append, rawReadKind, hb]
    rw [if_neg (by omega), if_neg (by omega), if_pos (by omega)]
    have e : 183 + (toBE n).length - 183 = (toBE n).length := by omega
    rw [e, rawReadSize_toBE n rest (by omega)]
    simp only [List.length_cons, List.length_append]
    rw [if_neg (by omega)]

theorem rawReadKind_lst (n : Nat) (rest : List UInt8) (hn : n < 2 ^ 64) (hlen : n ≤ rest.length) :
    rawReadKind (encLen 192 n ++ rest) = .ok (2, (encLen 192 n).length, n) := by
  unfold encLen
  by_cases h : n < 56
  · rw [if_pos h]
    have hb : (UInt8.ofNat (192 + n)).toNat = 192 + n := u8_ofNat_toNat (by omega)
    simp only [List.cons_append, List.nil_append, rawReadKind, hb]
    rw [if_neg (by omega), if_neg (by omega), if_neg (by omega), if_pos (by omega)]
    have e : 192 + n - 192 = n := by omega
    rw [e]
    simp only [List.length_cons, List.length_nil]
    rw [if_neg (by omega)]
  · rw [if_neg h]
    have h8 := toBE_len_8 hn
    have h1 := toBE_length_pos (n := n) (by omega)
    have hb : (UInt8.ofNat (192 + 55 + (toBE n).length)).toNat = 247 + (toBE n).length := by
      rw [u8_ofNat_toNat (by omega)]
    simp only [List.cons_append, rawReadKind, hb]
    rw [if_neg (by omega), if_neg (by omega), if_neg (by omega), if_neg (by omega)]
    have e : 247 + (toBE n).length - 247 = (toBE n).length := by omega
    rw [e, rawReadSize_toBE n rest (by omega)]
    simp only [List.length_cons, List.length_append]
    rw [if_neg (by omega)]


/-- `rlp.Split` kind of an item: 0 Byte, 1 String, 2 List -/
def kindOf : Item → Nat
  | .bytes b => if singleLow b then 0 else 1
  | .list _ => 2

def payload : Item → List UInt8
  | .bytes b => b
  | .list xs => encodeList xs

theorem rawSplit_encodeBytes (b tail : List UInt8) (h : b.length < 2 ^ 64) :
    rawSplit (encodeBytes b ++ tail) = .ok (if singleLow b then 0 else 1, b, tail) := by
  by_cases hs : singleLow b = true
  · match b, hs with
    | [x], hs =>
      have hx : x.toNat < 128 := by simpa [singleLow] using hs
      rw [encodeBytes_single_low hx, if_pos hs]
      simp only [List.cons_append, List.nil_append, rawSplit, rawReadKind]
      rw [if_pos hx]
      simp
  · have hs' : singleLow b = false := by simpa using hs
    rw [encodeBytes_of_not_singleLow hs', List.append_assoc, if_neg hs]
    have hc : ¬ (b.length = 1 ∧ lowHead (b ++ tail) = true) := by
      intro ⟨h1, h2⟩
      match b, h1 with
      | [x], _ =>
        simp only [List.cons_append, List.nil_append, lowHead, decide_eq_true_eq] at h2
        simp [singleLow, h2] at hs'
    unfold rawSplit
    rw [rawReadKind_str b.length (b ++ tail) h (by simp) hc]
    simp only [List.drop_left, List.take_left]
    simp [← List.append_assoc]

theorem rawSplit_encLst (p tail : List UInt8) (h : p.length < 2 ^ 64) :
    rawSplit (encLen 192 p.length ++ p ++ tail) = .ok (2, p, tail) := by
  rw [List.append_assoc]
  unfold rawSplit
  rw [rawReadKind_lst p.length (p ++ tail) h (by simp)]
  simp only [List.drop_left, List.take_left]
  simp [← List.append_assoc]

theorem encode_length_payload (x : Item) : (payload x).length ≤ (encode x).length := by
  cases x with
  | bytes b =>
    simp only [payload, encode]
    unfold encodeBytes
    split
    · split <;> simp
    · simp
  | list xs => simp only [payload, encode, List.length_append]; omega

/-- **`rlp.Split` on an encoded item followed by anything**: kind, payload, and exactly what follows -/
theorem rawSplit_encode (x : Item) (tail : List UInt8) (h : (encode x).length < 2 ^ 64) :
    rawSplit (encode x ++ tail) = .ok (kindOf x, payload x, tail) := by
  have hp := encode_length_payload x
  cases x with
  | bytes b => exact rawSplit_encodeBytes b tail (by simp only [payload] at hp; omega)
  | list xs =>
    simp only [encode, kindOf, payload] at *
    exact rawSplit_encLst (encodeList xs) tail (by omega)

theorem encode_ne_nil (x : Item) : encode x ≠ [] := by
  cases x with
  | bytes b =>
    simp only [encode]
    unfold encodeBytes
    split
    · split
      · simp
      · have := encLen_ne_nil 128 1; simp [this]
    · have := encLen_ne_nil 128 b.length; simp [this]
  | list xs =>
    simp only [encode]
    have := encLen_ne_nil 192 (encodeList xs).length
    simp [this]

theorem rawReadKind_of_split {b : List UInt8} {k : Nat} {c r : List UInt8} (h : rawSplit b = .ok (k, c, r)) :
    ∃ ts cs, rawReadKind b = .ok (k, ts, cs) ∧ r = b.drop (ts + cs) := by
  unfold rawSplit at h
  cases hk : rawReadKind b with
  | error e => rw [hk] at h; cases h
  | ok v =>
    obtain ⟨k', ts, cs⟩ := v
    rw [hk] at h
    simp only [Except.ok.injEq, Prod.mk.injEq] at h
    exact ⟨ts, cs, by rw [h.1], h.2.2.symm⟩

theorem rawCountAux_encodeList : ∀ (xs : List Item) (fuel acc : Nat), (encodeList xs).length ≤ fuel →
    (encodeList xs).length < 2 ^ 64 → rawCountAux fuel (encodeList xs) acc = .ok (acc + xs.length)
  | [], fuel, acc, _, _ => by
    cases fuel <;> simp [encodeList, rawCountAux]
  | x :: xs, fuel, acc, hf, hl => by
    have hne := encode_ne_nil x
    have hpos : 0 < (encode x).length := List.length_pos_iff.mpr hne
    simp only [encodeList, List.length_append] at hf hl
    cases fuel with
    | zero => omega
    | succ f =>
      have hsp := rawSplit_encode x (encodeList xs) (by omega)
      obtain ⟨ts, cs, hk, hr⟩ := rawReadKind_of_split hsp
      have hne' : (encode x ++ encodeList xs).isEmpty = false := by simp [hne]
      show rawCountAux (f + 1) (encode x ++ encodeList xs) acc = _
      rw [rawCountAux]
      simp only [hne', Bool.false_eq_true, if_false, hk]
      rw [← hr, rawCountAux_encodeList xs f (acc + 1) (by omega) (by omega)]
      simp only [List.length_cons]
      congr 1; omega

/-- **`rlp.CountValues` on a list payload** -/
theorem rawCount_encodeList (xs : List Item) (h : (encodeList xs).length < 2 ^ 64) :
    rawCount (encodeList xs) = .ok xs.length := by
  unfold rawCount
  rw [rawCountAux_encodeList xs _ 0 (Nat.le_refl _) h]
  simp


/-! ### the nodes the hasher stores, and `decodeNode ∘ encode` on them -/

open LemoModel.Mpt LemoModel.MptStore LemoModel.MptDecode
open LemoProofs.MptLemmas LemoProofs.MptStoreLemmas LemoProofs.MptCodecLemmas

/-- an embedded (list) child encodes to at most 32 bytes: `decodeRef` tests `size > hashLen`; the hasher
    embeds only encodings SHORTER than 32 bytes (`rlpSmall`) -/
def EmbOk : CNode → Prop
  | .short _ c => (c.isBranch = true → (nodeRlp c).length ≤ 32) ∧ EmbOk c
  | .full ch => ∀ i, (i ≠ 16 → (ch i).isBranch = true → (nodeRlp (ch i)).length ≤ 32) ∧ EmbOk (ch i)
  | _ => True

/-- **a node `hasher.store` can write**: a normal node body (`NormM false`: what the hasher emits for
    canonical tries), bytes are bytes and keys hex keys, hash references are 32 bytes long, embedded
    children encode to at most 32 bytes, the blob is shorter than 2^64 bytes -/
structure Storable (c : CNode) : Prop where
  norm : NormM false c
  bytes : BytesOk c
  hash32 : Hash32 c
  emb : EmbOk c
  size : (nodeRlp c).length < 2 ^ 64

@[simp] theorem bind_ok {α β : Type} (a : α) (f : α → DRes β) : (DRes.ok a).bind f = f a := rfl
@[simp] theorem bind_err {α β : Type} (e : DecErr) (f : α → DRes β) : (DRes.err e : DRes α).bind f = .err e := rfl
@[simp] theorem bind_panic {α β : Type} (f : α → DRes β) : (DRes.panic : DRes α).bind f = .panic := rfl
@[simp] theorem bind_depth {α β : Type} (f : α → DRes β) : (DRes.depth : DRes α).bind f = .depth := rfl
@[simp] theorem wrap_ok {α : Type} (ctx : String) (a : α) : (DRes.ok a).wrap ctx = .ok a := rfl
@[simp] theorem wrap_err {α : Type} (ctx : String) (e : DecErr) :
    (DRes.err e : DRes α).wrap ctx = .err ⟨e.what, e.path ++ [ctx]⟩ := rfl
@[simp] theorem wrap_panic {α : Type} (ctx : String) : (DRes.panic : DRes α).wrap ctx = .panic := rfl
@[simp] theorem wrap_depth {α : Type} (ctx : String) : (DRes.depth : DRes α).wrap ctx = .depth := rfl

theorem map_toNat_ofNat : ∀ (l : List Nat), (∀ x, x ∈ l → x < 256) → bytesToVal (l.map UInt8.ofNat) = l
  | [], _ => rfl
  | a :: l, h => by
    have ha := h a List.mem_cons_self
    have := map_toNat_ofNat l (fun x hx => h x (List.mem_cons_of_mem _ hx))
    simp only [bytesToVal, List.map_cons, List.map_map] at this ⊢
    rw [this, u8_ofNat_toNat ha]

theorem normM_branch {c : CNode} (hb : c.isBranch = true) (h : NormM true c) : NormM false c := by
  cases c <;> first | exact h | simp [CNode.isBranch] at hb

theorem splitString_encodeBytes (b tail : List UInt8) (h : (encode (.bytes b)).length < 2 ^ 64) :
    splitString (encode (.bytes b) ++ tail) = .ok (b, tail) := by
  unfold splitString
  rw [rawSplit_encode (.bytes b) tail h]
  simp only [kindOf, payload]
  split <;> simp

theorem nodeRlp_ne_nil (c : CNode) : nodeRlp c ≠ [] := encode_ne_nil _

/-- a reference (nil, 32-byte hash, embedded node of at most 32 bytes) read back by `decodeRef` -/
theorem decodeRef_enc (rec : List UInt8 → DRes CNode) (c : CNode) (tail : List UInt8)
    (hn : NormM true c) (hb : BytesOk c) (h32 : Hash32 c) (hsz : (nodeRlp c).length < 2 ^ 64)
    (hemb : c.isBranch = true → (nodeRlp c).length ≤ 32)
    (hrec : c.isBranch = true → rec (nodeRlp c ++ tail) = .ok c) :
    decodeRefW rec (nodeRlp c ++ tail) = .ok (c, tail) := by
  unfold decodeRefW
  have hs := rawSplit_encode (toItem c) tail hsz
  unfold nodeRlp at *
  rw [hs]
  by_cases hbr : c.isBranch = true
  · have hk : kindOf (toItem c) = 2 := by
      cases c <;> first | rfl | simp [CNode.isBranch] at hbr
    have hlen : (encode (toItem c) ++ tail).length - tail.length = (encode (toItem c)).length := by simp
    have hle := hemb hbr
    simp only [hk, hlen]
    rw [if_pos trivial, if_neg (by omega), hrec hbr]
    rfl
  · cases c with
    | empty => simp [toItem, kindOf, payload, singleLow]
    | value v => exact absurd hn id
    | hash h =>
      have hl : (h.map UInt8.ofNat).length = 32 := by simpa using (show h.length = 32 from h32)
      have hsl : singleLow (h.map UInt8.ofNat) = false := by
        unfold singleLow
        split
        · rename_i x hx; rw [hx] at hl; simp at hl
        · rfl
      simp only [toItem, kindOf, payload, hsl, hl]
      simp only [Bool.false_eq_true, if_false]
      rw [map_toNat_ofNat h hb]
      simp
    | short K c' => exact absurd rfl hbr
    | full ch => exact absurd rfl hbr


theorem encodeList_append : ∀ (a b : List Item), encodeList (a ++ b) = encodeList a ++ encodeList b
  | [], b => by simp [encodeList]
  | x :: a, b => by simp [encodeList, encodeList_append a b]

theorem encode_le_list {x : Item} {xs : List Item} (h : x ∈ xs) :
    (encode x).length ≤ (encode (.list xs)).length :=
  Nat.le_trans (encodeList_ge_mem xs x h) (encode_list_ge xs)

theorem encode_lt_list {x : Item} {xs : List Item} (h : x ∈ xs) :
    (encode x).length < (encode (.list xs)).length := by
  have h1 := encodeList_ge_mem xs x h
  have h2 := encLen_length_pos 192 (encodeList xs).length
  rw [encode, List.length_append]; omega

theorem splitList_encode_list (xs : List Item) (tail : List UInt8) (h : (encode (.list xs)).length < 2 ^ 64) :
    splitList (encode (.list xs) ++ tail) = .ok (encodeList xs, tail) := by
  unfold splitList
  rw [rawSplit_encode (.list xs) tail h]
  simp [kindOf, payload]

/-- `decodeShort` on the two encoded elements of a normal short node -/
theorem hexToCompact_not_empty {K : List Nib} (hK : KeyOk K) : (hexToCompact K).isEmpty = false := by
  have h := compact_roundtrip K hK
  cases hc : hexToCompact K with
  | nil => rw [hc] at h; simp [compactToHex, unpackNibbles] at h
  | cons b r => rfl

theorem decodeShort_enc (pk : Bool) (rec : List UInt8 → DRes CNode) (K : List Nib) (c : CNode)
    (hn : NormM false (.short K c)) (hb : BytesOk (.short K c)) (h32 : Hash32 (.short K c))
    (hemb : EmbOk (.short K c)) (hsz : (nodeRlp (.short K c)).length < 2 ^ 64)
    (hrec : c.isBranch = true → rec (nodeRlp c ++ []) = .ok c) :
    decodeShortW pk rec (encodeList [.bytes (hexToCompact K), toItem c]) = .ok (.short K c) := by
  have hmem1 : Item.bytes (hexToCompact K) ∈ [Item.bytes (hexToCompact K), toItem c] := by simp
  have hmem2 : toItem c ∈ [Item.bytes (hexToCompact K), toItem c] := by simp
  have hs1 : (encode (.bytes (hexToCompact K))).length < 2 ^ 64 :=
    Nat.lt_of_le_of_lt (encode_le_list hmem1) hsz
  have hs2 : (encode (toItem c)).length < 2 ^ 64 := Nat.lt_of_le_of_lt (encode_le_list hmem2) hsz
  unfold decodeShortW
  simp only [encodeList]
  rw [splitString_encodeBytes _ _ hs1]
  simp only
  rw [if_neg (by rw [hexToCompact_not_empty hb.1]; simp), compact_roundtrip K hb.1]
  simp only
  simp only [NormM] at hn
  by_cases ht : hasTerm K = true
  · rw [if_pos ht] at hn ⊢
    obtain ⟨v, hv⟩ := hn
    subst hv
    simp only [toItem] at hs2 ⊢
    rw [splitString_encodeBytes _ _ hs2]
    simp only
    rw [map_toNat_ofNat v hb.2]
  · rw [if_neg ht] at hn ⊢
    have := decodeRef_enc rec c [] hn hb.2 h32 hs2 hemb.1 hrec
    unfold nodeRlp at this
    rw [this]
    simp

theorem foldl_setC (ch : Nib → CNode) : ∀ (l : List Nib) (acc : Nib → CNode) (j : Nib),
    (l.foldl (fun a i => setC a i (ch i)) acc) j = if j ∈ l then ch j else acc j
  | [], acc, j => by simp
  | i :: l, acc, j => by
    simp only [List.foldl_cons]
    rw [foldl_setC ch l (setC acc i (ch i)) j]
    by_cases hj : j ∈ l
    · simp [hj]
    · by_cases hji : j = i
      · subst hji; simp [hj, setC]
      · simp [hj, hji, setC]

/-- the 16 `decodeRef` calls of `decodeFull` over encoded references -/
theorem decodeKids_enc (rec : List UInt8 → DRes CNode) (ch : Nib → CNode) :
    ∀ (l : List Nib) (acc : Nib → CNode) (tail : List UInt8),
    (∀ i, i ∈ l → ∀ t, decodeRefW rec (nodeRlp (ch i) ++ t) = .ok (ch i, t)) →
    decodeKids rec l acc (encodeList (l.map (fun i => toItem (ch i))) ++ tail) =
      .ok (l.foldl (fun a i => setC a i (ch i)) acc, tail)
  | [], acc, tail, _ => by simp [decodeKids, encodeList]
  | i :: l, acc, tail, h => by
    simp only [List.map_cons, encodeList, List.append_assoc, decodeKids, List.foldl_cons]
    have := h i List.mem_cons_self (encodeList (l.map (fun i => toItem (ch i))) ++ tail)
    unfold nodeRlp at this
    rw [this]
    simp only
    exact decodeKids_enc rec ch l (setC acc i (ch i)) tail (fun j hj => h j (List.mem_cons_of_mem _ hj))

theorem finRange17 : List.finRange 17 = slots16 ++ [16] := by decide

theorem mem_slots16 : ∀ j : Nib, j ≠ 16 → j ∈ slots16 := by decide

theorem not_mem_slots16 : (16 : Nib) ∉ slots16 := by decide

/-- `decodeFull` on the 17 encoded elements of a normal full node -/
theorem decodeFull_enc (rec : List UInt8 → DRes CNode) (ch : Nib → CNode)
    (hn : NormM false (.full ch)) (hb : BytesOk (.full ch)) (h32 : Hash32 (.full ch))
    (hemb : EmbOk (.full ch)) (hsz : (nodeRlp (.full ch)).length < 2 ^ 64)
    (hrec : ∀ i, i ≠ 16 → (ch i).isBranch = true → ∀ t, rec (nodeRlp (ch i) ++ t) = .ok (ch i)) :
    decodeFullW rec (encodeList ((List.finRange 17).map (fun i => toItem (ch i)))) = .ok (.full ch) := by
  have hszi : ∀ i, (nodeRlp (ch i)).length < 2 ^ 64 := fun i =>
    Nat.lt_of_le_of_lt (encode_le_list (List.mem_map.mpr ⟨i, List.mem_finRange i, rfl⟩)) hsz
  simp only [NormM] at hn
  have hrefs : ∀ i, i ∈ slots16 → ∀ t, decodeRefW rec (nodeRlp (ch i) ++ t) = .ok (ch i, t) := by
    intro i hi t
    have hi16 : i ≠ 16 := fun e => not_mem_slots16 (e ▸ hi)
    exact decodeRef_enc rec (ch i) t (hn.1 i hi16) (hb i) (h32 i) (hszi i) ((hemb i).1 hi16)
      (fun hbr => hrec i hi16 hbr t)
  unfold decodeFullW
  rw [finRange17, List.map_append, encodeList_append,
    decodeKids_enc rec ch slots16 (fun _ => .empty) _ hrefs]
  simp only [bind_ok, List.map_cons, List.map_nil, encodeList]
  have h16 : (nodeRlp (ch 16)).length < 2 ^ 64 := hszi 16
  unfold nodeRlp at h16
  rcases hn.2 with he | ⟨v, hv, he⟩
  · rw [he] at h16 ⊢
    simp only [toItem] at h16 ⊢
    rw [splitString_encodeBytes _ _ h16]
    simp only [List.length_nil, gt_iff_lt, Nat.lt_irrefl, if_false]
    refine congrArg DRes.ok (congrArg CNode.full (funext fun j => ?_))
    rw [foldl_setC]
    by_cases hj : j = 16
    · subst hj; rw [if_neg not_mem_slots16, he]
    · rw [if_pos (mem_slots16 j hj)]
  · have hb16 := hb 16
    rw [he] at h16 hb16 ⊢
    simp only [toItem] at h16 ⊢
    rw [splitString_encodeBytes _ _ h16]
    have hl : (v.map UInt8.ofNat).length > 0 := by
      cases v with
      | nil => exact absurd rfl hv
      | cons a r => simp
    simp only
    rw [if_pos hl, map_toNat_ofNat v hb16]
    refine congrArg DRes.ok (congrArg CNode.full (funext fun j => ?_))
    by_cases hj : j = 16
    · subst hj; simp [setC, he]
    · simp only [setC, hj, if_false]
      rw [foldl_setC, if_pos (mem_slots16 j hj)]


theorem decodeNodeF_succ (pk : Bool) (d : Nat) (buf : List UInt8) :
    decodeNodeF pk (d + 1) buf = decodeNodeW pk (decodeNodeF pk d) buf := rfl

/-- **decode ∘ encode, with a tail and any sufficient depth** (the form the recursion needs: `decodeRef`
    hands the WHOLE remaining buffer to the nested `decodeNode`) -/
theorem decodeNodeF_enc (pk : Bool) (c : CNode) : NormM false c → BytesOk c → Hash32 c → EmbOk c →
    (nodeRlp c).length < 2 ^ 64 → ∀ d, (nodeRlp c).length ≤ d → ∀ tail,
    decodeNodeF pk d (nodeRlp c ++ tail) = .ok c := by
  induction c with
  | empty => intro hn; exact absurd hn id
  | value v => intro hn; exact absurd hn id
  | hash h => intro hn; exact absurd hn id
  | short K c ih =>
    intro hn hb h32 hemb hsz d hd tail
    have hpos : 0 < (nodeRlp (.short K c)).length := List.length_pos_iff.mpr (nodeRlp_ne_nil _)
    cases d with
    | zero => omega
    | succ d =>
      rw [decodeNodeF_succ]
      unfold decodeNodeW
      have hne : (nodeRlp (.short K c) ++ tail).isEmpty = false := by
        simp [nodeRlp_ne_nil]
      rw [hne]
      simp only [Bool.false_eq_true, if_false]
      have hdef : nodeRlp (.short K c) = encode (.list [.bytes (hexToCompact K), toItem c]) := rfl
      have hsz' := hsz
      rw [hdef] at hsz'
      have hpl : (encodeList [Item.bytes (hexToCompact K), toItem c]).length < 2 ^ 64 :=
        Nat.lt_of_le_of_lt (encode_list_ge _) hsz'
      rw [hdef, splitList_encode_list _ _ hsz']
      have hcnt : countOf (encodeList [Item.bytes (hexToCompact K), toItem c]) = 2 := by
        unfold countOf; rw [rawCount_encodeList _ hpl]; rfl
      simp only [hcnt, if_true]
      have hrec : c.isBranch = true → decodeNodeF pk d (nodeRlp c ++ []) = .ok c := by
        intro hbr
        have hnc : NormM false c := by
          have hn' := hn
          simp only [NormM] at hn'
          by_cases ht : hasTerm K = true
          · rw [if_pos ht] at hn'
            obtain ⟨v, hv⟩ := hn'
            rw [hv] at hbr; simp [CNode.isBranch] at hbr
          · rw [if_neg ht] at hn'
            exact normM_branch hbr hn'
        have hlt : (nodeRlp c).length < (nodeRlp (.short K c)).length := by
          rw [hdef]; exact encode_lt_list (by simp)
        exact ih hnc hb.2 h32 hemb.2 (by omega) d (by omega) []
      rw [decodeShort_enc pk (decodeNodeF pk d) K c hn hb h32 hemb hsz hrec]
      rfl
  | full ch ih =>
    intro hn hb h32 hemb hsz d hd tail
    have hpos : 0 < (nodeRlp (.full ch)).length := List.length_pos_iff.mpr (nodeRlp_ne_nil _)
    cases d with
    | zero => omega
    | succ d =>
      rw [decodeNodeF_succ]
      unfold decodeNodeW
      have hne : (nodeRlp (.full ch) ++ tail).isEmpty = false := by
        simp [nodeRlp_ne_nil]
      rw [hne]
      simp only [Bool.false_eq_true, if_false]
      have hdef : nodeRlp (.full ch) = encode (.list ((List.finRange 17).map (fun i => toItem (ch i)))) := rfl
      have hsz' := hsz
      rw [hdef] at hsz'
      have hpl : (encodeList ((List.finRange 17).map (fun i => toItem (ch i)))).length < 2 ^ 64 :=
        Nat.lt_of_le_of_lt (encode_list_ge _) hsz'
      rw [hdef, splitList_encode_list _ _ hsz']
      have hcnt : countOf (encodeList ((List.finRange 17).map (fun i => toItem (ch i)))) = 17 := by
        unfold countOf; rw [rawCount_encodeList _ hpl]; simp
      simp only [hcnt, if_true]
      rw [if_neg (by decide)]
      have hrec : ∀ i, i ≠ 16 → (ch i).isBranch = true → ∀ t, decodeNodeF pk d (nodeRlp (ch i) ++ t) = .ok (ch i) := by
        intro i hi hbr t
        have hn' := hn
        simp only [NormM] at hn'
        have hlt : (nodeRlp (ch i)).length < (nodeRlp (.full ch)).length := by
          rw [hdef]; exact encode_lt_list (List.mem_map.mpr ⟨i, List.mem_finRange i, rfl⟩)
        exact ih i (normM_branch hbr (hn'.1 i hi)) (hb i) (h32 i) (hemb i).2 (by omega) d (by omega) t
      rw [decodeFull_enc (decodeNodeF pk d) ch hn hb h32 hemb hsz hrec]
      rfl

/-- **`decodeNode(rlp(c)) = c`** for every node the hasher can store -/
theorem decodeNode_enc (c : CNode) (h : Storable c) : decodeNode (nodeRlp c) = .ok c := by
  have := decodeNodeF_enc false c h.norm h.bytes h.hash32 h.emb h.size ((nodeRlp c).length + 1) (by omega) []
  simpa [decodeNode] using this

/-- trailing bytes after the blob do not matter -/
theorem decodeNode_enc_tail (c : CNode) (h : Storable c) (tail : List UInt8) :
    decodeNode (nodeRlp c ++ tail) = .ok c :=
  decodeNodeF_enc false c h.norm h.bytes h.hash32 h.emb h.size _ (by simp; omega) tail


/-! ### the depth counter is never exhausted; what the decoder returns is always a normal node -/

theorem rawReadKind_list_ts {b : List UInt8} {ts cs : Nat} (h : rawReadKind b = .ok (2, ts, cs)) : 1 ≤ ts := by
  unfold rawReadKind at h
  cases b with
  | nil => cases h
  | cons x rest =>
    simp only at h
    have fin : ∀ k' ts' cs', (if cs' > (x :: rest).length - ts' then (Except.error Err.valueTooLarge : Except Err (Nat × Nat × Nat))
        else Except.ok (k', ts', cs')) = Except.ok (2, ts, cs) → k' = 2 ∧ ts' = ts := by
      intro k' ts' cs' hh
      split at hh
      · cases hh
      · cases hh; exact ⟨rfl, rfl⟩
    split at h
    · have := (fin _ _ _ h).1; omega
    · split at h
      · split at h
        · cases h
        · have := (fin _ _ _ h).1; omega
      · split at h
        · split at h
          · cases h
          · have := (fin _ _ _ h).1; omega
        · split at h
          · have := (fin _ _ _ h).2; omega
          · split at h
            · cases h
            · have := (fin _ _ _ h).2; omega

theorem rawSplit_lengths {b : List UInt8} {k : Nat} {c r : List UInt8} (h : rawSplit b = .ok (k, c, r)) :
    r.length ≤ b.length ∧ (k = 2 → c.length < b.length) := by
  unfold rawSplit at h
  cases hk : rawReadKind b with
  | error e => rw [hk] at h; cases h
  | ok v =>
    obtain ⟨k', ts, cs⟩ := v
    rw [hk] at h
    simp only [Except.ok.injEq, Prod.mk.injEq] at h
    obtain ⟨e1, e2, e3⟩ := h
    subst e1 e2 e3
    refine ⟨by simp, fun h2 => ?_⟩
    subst h2
    have h1 := rawReadKind_list_ts hk
    have hb := LemoProofs.C14.rawReadKind_bounds hk
    simp only [List.length_take, List.length_drop]
    omega

theorem splitString_lengths {b c r : List UInt8} (h : splitString b = .ok (c, r)) : r.length ≤ b.length := by
  unfold splitString at h
  cases hs : rawSplit b with
  | error e => rw [hs] at h; cases h
  | ok v =>
    obtain ⟨k, c', r'⟩ := v
    rw [hs] at h
    simp only at h
    split at h
    · cases h
    · cases h; exact (rawSplit_lengths hs).1

theorem splitList_lengths {b c r : List UInt8} (h : splitList b = .ok (c, r)) : c.length < b.length := by
  unfold splitList at h
  cases hs : rawSplit b with
  | error e => rw [hs] at h; cases h
  | ok v =>
    obtain ⟨k, c', r'⟩ := v
    rw [hs] at h
    simp only at h
    split at h
    · rename_i hk; cases h; exact (rawSplit_lengths hs).2 hk
    · cases h

theorem decodeRefW_cases (rec : List UInt8 → DRes CNode) (buf : List UInt8) :
    (∃ e, decodeRefW rec buf = .err e) ∨
    (∃ rest, rest.length ≤ buf.length ∧ decodeRefW rec buf = (rec buf).bind (fun n => .ok (n, rest))) ∨
    (∃ rest, rest.length ≤ buf.length ∧ decodeRefW rec buf = .ok (.empty, rest)) ∨
    (∃ h rest, rest.length ≤ buf.length ∧ h.length = 32 ∧ (∀ x, x ∈ h → x < 256) ∧
      decodeRefW rec buf = .ok (.hash h, rest)) := by
  unfold decodeRefW
  cases hs : rawSplit buf with
  | error e => exact Or.inl ⟨_, rfl⟩
  | ok v =>
    obtain ⟨k, val, rest⟩ := v
    have hl := (rawSplit_lengths hs).1
    simp only
    split
    · split
      · exact Or.inl ⟨_, rfl⟩
      · exact Or.inr (Or.inl ⟨rest, hl, rfl⟩)
    · split
      · exact Or.inr (Or.inr (Or.inl ⟨rest, hl, rfl⟩))
      · split
        · rename_i h32
          refine Or.inr (Or.inr (Or.inr ⟨bytesToVal val, rest, hl, by simp [bytesToVal, h32.2], ?_, rfl⟩))
          intro x hx
          simp only [bytesToVal, List.mem_map] at hx
          obtain ⟨y, _, hy⟩ := hx
          rw [← hy]; exact UInt8.toNat_lt y
        · exact Or.inl ⟨_, rfl⟩


/-- what every decoded node body satisfies -/
def DecOut (c : CNode) : Prop := NormM false c ∧ BytesOk c ∧ Hash32 c
/-- what every decoded reference satisfies -/
def RefOut (c : CNode) : Prop := NormM true c ∧ BytesOk c ∧ Hash32 c

/-- never `.depth`, and a normal node if a node at all -/
def Good (r : DRes CNode) : Prop := r ≠ .depth ∧ ∀ c, r = .ok c → DecOut c

theorem refOut_of_decOut {c : CNode} (h : DecOut c) : RefOut c := ⟨normM_true_of_false h.1, h.2.1, h.2.2⟩

theorem refOut_empty : RefOut .empty := ⟨trivial, trivial, trivial⟩

theorem noTerm_unpack : ∀ (c : List UInt8), NoTerm (unpackNibbles c)
  | [] => noTerm_nil
  | b :: r => by
    have hb := UInt8.toNat_lt b
    simp only [unpackNibbles]
    refine noTerm_cons.mpr ⟨?_, noTerm_cons.mpr ⟨?_, noTerm_unpack r⟩⟩
    · intro h
      have := congrArg Fin.val h
      simp only [Fin.val_ofNat] at this
      have e : ((16 : Nib) : Nat) = 16 := rfl
      omega
    · intro h
      have := congrArg Fin.val h
      simp only [Fin.val_ofNat] at this
      have e : ((16 : Nib) : Nat) = 16 := rfl
      omega

/-- `compactToHex` returns hex keys only -/
theorem compactToHex_keyOk {c : List UInt8} {key : List Nib} (h : compactToHex c = some key) : KeyOk key := by
  unfold compactToHex at h
  have hnt := noTerm_unpack c
  cases hu : unpackNibbles c with
  | nil => rw [hu] at h; cases h
  | cons f rest =>
    rw [hu] at h hnt
    have hr : NoTerm rest := (noTerm_cons.mp hnt).2
    simp only [Option.some.injEq] at h
    have hbody : NoTerm (if f.val % 2 = 1 then rest else rest.drop 1) := by
      split
      · exact hr
      · exact fun n hn => hr n (List.mem_of_mem_drop hn)
    refine ⟨_, hbody, ?_⟩
    rw [← h]
    split
    · exact Or.inr rfl
    · exact Or.inl rfl

theorem decodeRefW_good (rec : List UInt8 → DRes CNode) (buf : List UInt8) (h : Good (rec buf)) :
    decodeRefW rec buf ≠ .depth ∧
    ∀ c rest, decodeRefW rec buf = .ok (c, rest) → RefOut c ∧ rest.length ≤ buf.length := by
  rcases decodeRefW_cases rec buf with ⟨e, he⟩ | ⟨rest, hl, he⟩ | ⟨rest, hl, he⟩ | ⟨x, rest, hl, h1, h2, he⟩
  · rw [he]; exact ⟨by simp, fun c r hc => by cases hc⟩
  · rw [he]
    cases hr : rec buf with
    | ok n =>
      refine ⟨by simp, fun c r hc => ?_⟩
      simp only [bind_ok, DRes.ok.injEq, Prod.mk.injEq] at hc
      rw [← hc.1, ← hc.2]
      exact ⟨refOut_of_decOut (h.2 n hr), hl⟩
    | err e => exact ⟨by simp, fun c r hc => by simp at hc⟩
    | panic => exact ⟨by simp, fun c r hc => by simp at hc⟩
    | depth => exact absurd hr h.1
  · rw [he]
    refine ⟨by simp, fun c r hc => ?_⟩
    simp only [DRes.ok.injEq, Prod.mk.injEq] at hc
    rw [← hc.1, ← hc.2]; exact ⟨refOut_empty, hl⟩
  · rw [he]
    refine ⟨by simp, fun c r hc => ?_⟩
    simp only [DRes.ok.injEq, Prod.mk.injEq] at hc
    rw [← hc.1, ← hc.2]
    refine ⟨⟨?_, h2, h1⟩, hl⟩
    show x ≠ []
    intro e; rw [e] at h1; simp at h1

theorem bytesToVal_lt (val : List UInt8) : ∀ x, x ∈ bytesToVal val → x < 256 := by
  intro x hx
  simp only [bytesToVal, List.mem_map] at hx
  obtain ⟨y, _, hy⟩ := hx
  rw [← hy]; exact UInt8.toNat_lt y

theorem decodeShortW_good (pk : Bool) (rec : List UInt8 → DRes CNode) (elems : List UInt8)
    (h : ∀ b, b.length ≤ elems.length → Good (rec b)) : Good (decodeShortW pk rec elems) := by
  unfold decodeShortW
  cases hs : splitString elems with
  | error e => exact ⟨by simp, fun c hc => by cases hc⟩
  | ok v =>
    obtain ⟨kbuf, rest⟩ := v
    have hl := splitString_lengths hs
    simp only
    split
    · exact ⟨by simp, fun c hc => by cases hc⟩
    cases hk : compactToHex kbuf with
    | none => exact ⟨by simp, fun c hc => by cases hc⟩
    | some key =>
      have hko := compactToHex_keyOk hk
      simp only
      by_cases ht : hasTerm key = true
      · rw [if_pos ht]
        cases hv : splitString rest with
        | error e => exact ⟨by simp, fun c hc => by cases hc⟩
        | ok w =>
          obtain ⟨val, r2⟩ := w
          refine ⟨by simp, fun c hc => ?_⟩
          simp only [DRes.ok.injEq] at hc
          rw [← hc]
          refine ⟨?_, ⟨hko, bytesToVal_lt val⟩, trivial⟩
          simp only [NormM, ht, if_true]
          exact ⟨_, rfl⟩
      · rw [if_neg ht]
        obtain ⟨g1, g2⟩ := decodeRefW_good rec rest (h rest hl)
        cases hr : decodeRefW rec rest with
        | ok w =>
          obtain ⟨r, r2⟩ := w
          obtain ⟨⟨a1, a2, a3⟩, _⟩ := g2 r r2 hr
          refine ⟨by simp, fun c hc => ?_⟩
          simp only [wrap_ok, bind_ok, DRes.ok.injEq] at hc
          rw [← hc]
          refine ⟨?_, ⟨hko, a2⟩, a3⟩
          simp only [NormM, ht]
          exact a1
        | err e => exact ⟨by simp, fun c hc => by simp at hc⟩
        | panic => exact ⟨by simp, fun c hc => by simp at hc⟩
        | depth => exact absurd hr g1

theorem decodeKids_good (rec : List UInt8 → DRes CNode) : ∀ (l : List Nib) (acc : Nib → CNode) (elems : List UInt8),
    (∀ b, b.length ≤ elems.length → Good (rec b)) → (∀ j, RefOut (acc j)) →
    decodeKids rec l acc elems ≠ .depth ∧
    ∀ ch rest, decodeKids rec l acc elems = .ok (ch, rest) →
      (∀ j, RefOut (ch j)) ∧ (∀ j, j ∉ l → ch j = acc j) ∧ rest.length ≤ elems.length
  | [], acc, elems, _, ha => by
    refine ⟨by simp [decodeKids], fun ch rest hc => ?_⟩
    simp only [decodeKids, DRes.ok.injEq, Prod.mk.injEq] at hc
    rw [← hc.1, ← hc.2]
    exact ⟨ha, fun _ _ => rfl, Nat.le_refl _⟩
  | i :: l, acc, elems, h, ha => by
    obtain ⟨g1, g2⟩ := decodeRefW_good rec elems (h elems (Nat.le_refl _))
    simp only [decodeKids]
    cases hr : decodeRefW rec elems with
    | ok w =>
      obtain ⟨c, rest⟩ := w
      obtain ⟨hc, hl⟩ := g2 c rest hr
      simp only
      have ha' : ∀ j, RefOut (setC acc i c j) := by
        intro j
        unfold setC
        split
        · exact hc
        · exact ha j
      obtain ⟨k1, k2⟩ := decodeKids_good rec l (setC acc i c) rest
        (fun b hb => h b (Nat.le_trans hb hl)) ha'
      refine ⟨k1, fun ch r2 hk => ?_⟩
      obtain ⟨m1, m2, m3⟩ := k2 ch r2 hk
      refine ⟨m1, fun j hj => ?_, Nat.le_trans m3 hl⟩
      rw [m2 j (fun hm => hj (List.mem_cons_of_mem _ hm))]
      have : j ≠ i := fun e => hj (e ▸ List.mem_cons_self)
      simp [setC, this]
    | err e => exact ⟨by simp, fun ch r hc => by cases hc⟩
    | panic => exact ⟨by simp, fun ch r hc => by cases hc⟩
    | depth => exact absurd hr g1

theorem decodeFullW_good (rec : List UInt8 → DRes CNode) (elems : List UInt8)
    (h : ∀ b, b.length ≤ elems.length → Good (rec b)) : Good (decodeFullW rec elems) := by
  unfold decodeFullW
  obtain ⟨g1, g2⟩ := decodeKids_good rec slots16 (fun _ => .empty) elems h (fun _ => refOut_empty)
  cases hk : decodeKids rec slots16 (fun _ => .empty) elems with
  | ok w =>
    obtain ⟨ch, rest⟩ := w
    obtain ⟨m1, m2, _⟩ := g2 ch rest hk
    have h16 : ch 16 = .empty := m2 16 not_mem_slots16
    simp only [bind_ok]
    cases hv : splitString rest with
    | error e => exact ⟨by simp, fun c hc => by cases hc⟩
    | ok x =>
      obtain ⟨val, r2⟩ := x
      refine ⟨by simp, fun c hc => ?_⟩
      simp only [DRes.ok.injEq] at hc
      rw [← hc]
      by_cases hl : val.length > 0
      · rw [if_pos hl]
        have hne : bytesToVal val ≠ [] := by
          intro e
          have hlen : (bytesToVal val).length = val.length := by simp [bytesToVal]
          rw [e] at hlen
          simp at hlen
          omega
        refine ⟨?_, ?_, ?_⟩
        · simp only [NormM]
          refine ⟨fun i hi => ?_, Or.inr ⟨bytesToVal val, hne, by simp [setC]⟩⟩
          simp only [setC, hi, if_false]; exact (m1 i).1
        · intro i
          unfold setC
          split
          · exact bytesToVal_lt val
          · exact (m1 i).2.1
        · intro i
          unfold setC
          split
          · trivial
          · exact (m1 i).2.2
      · rw [if_neg hl]
        refine ⟨?_, fun i => (m1 i).2.1, fun i => (m1 i).2.2⟩
        simp only [NormM]
        exact ⟨fun i _ => (m1 i).1, Or.inl h16⟩
  | err e => exact ⟨by simp, fun c hc => by simp at hc⟩
  | panic => exact ⟨by simp, fun c hc => by simp at hc⟩
  | depth => exact absurd hk g1

theorem good_wrap {r : DRes CNode} (ctx : String) (h : Good r) : Good (r.wrap ctx) := by
  cases r with
  | ok a => exact h
  | err e => exact ⟨by simp, fun c hc => by simp at hc⟩
  | panic => exact h
  | depth => exact absurd rfl h.1

theorem decodeNodeW_good (pk : Bool) (rec : List UInt8 → DRes CNode) (buf : List UInt8)
    (h : ∀ b, b.length < buf.length → Good (rec b)) : Good (decodeNodeW pk rec buf) := by
  unfold decodeNodeW
  split
  · exact ⟨by simp, fun c hc => by cases hc⟩
  · cases hs : splitList buf with
    | error e => exact ⟨by simp, fun c hc => by cases hc⟩
    | ok v =>
      obtain ⟨elems, r⟩ := v
      have hl := splitList_lengths hs
      have h' : ∀ b, b.length ≤ elems.length → Good (rec b) := fun b hb => h b (by omega)
      simp only
      split
      · exact good_wrap _ (decodeShortW_good pk rec elems h')
      · split
        · exact good_wrap _ (decodeFullW_good rec elems h')
        · exact ⟨by simp, fun c hc => by cases hc⟩

theorem decodeNodeF_good (pk : Bool) : ∀ (d : Nat) (buf : List UInt8), buf.length < d → Good (decodeNodeF pk d buf)
  | 0, _, h => by omega
  | d + 1, buf, h => by
    rw [decodeNodeF_succ]
    exact decodeNodeW_good pk _ buf (fun b hb => decodeNodeF_good pk d b (by omega))

/-! ### where the run-time panic comes from -/

/-- this very buffer is a list of two elements whose first element is the empty string -/
def EmptyKeyAt (buf : List UInt8) : Prop :=
  ∃ elems r rest, splitList buf = .ok (elems, r) ∧ countOf elems = 2 ∧ splitString elems = .ok ([], rest)

theorem compactToHex_none {c : List UInt8} (h : compactToHex c = none) : c = [] := by
  cases c with
  | nil => rfl
  | cons b r => simp [compactToHex, unpackNibbles] at h

theorem decodeRefW_panic {rec : List UInt8 → DRes CNode} {buf : List UInt8}
    (h : decodeRefW rec buf = .panic) : rec buf = .panic := by
  rcases decodeRefW_cases rec buf with ⟨e, he⟩ | ⟨rest, _, he⟩ | ⟨rest, _, he⟩ | ⟨x, rest, _, _, _, he⟩
  · rw [he] at h; cases h
  · rw [he] at h
    cases hr : rec buf with
    | ok n => rw [hr] at h; cases h
    | err e => rw [hr] at h; cases h
    | panic => rfl
    | depth => rw [hr] at h; cases h
  · rw [he] at h; cases h
  · rw [he] at h; cases h

theorem decodeRefW_rest {rec : List UInt8 → DRes CNode} {buf : List UInt8} {c : CNode} {rest : List UInt8}
    (h : decodeRefW rec buf = .ok (c, rest)) : rest.length ≤ buf.length := by
  rcases decodeRefW_cases rec buf with ⟨e, he⟩ | ⟨r, hl, he⟩ | ⟨r, hl, he⟩ | ⟨x, r, hl, _, _, he⟩
  · rw [he] at h; cases h
  · rw [he] at h
    cases hr : rec buf with
    | ok n => rw [hr] at h; simp only [bind_ok, DRes.ok.injEq, Prod.mk.injEq] at h; rw [← h.2]; exact hl
    | err e => rw [hr] at h; cases h
    | panic => rw [hr] at h; cases h
    | depth => rw [hr] at h; cases h
  · rw [he] at h; simp only [DRes.ok.injEq, Prod.mk.injEq] at h; rw [← h.2]; exact hl
  · rw [he] at h; simp only [DRes.ok.injEq, Prod.mk.injEq] at h; rw [← h.2]; exact hl

theorem decodeKids_panic (rec : List UInt8 → DRes CNode) : ∀ (l : List Nib) (acc : Nib → CNode) (elems : List UInt8),
    decodeKids rec l acc elems = .panic → ∃ b, b.length ≤ elems.length ∧ rec b = .panic
  | [], _, _, h => by simp [decodeKids] at h
  | i :: l, acc, elems, h => by
    simp only [decodeKids] at h
    cases hr : decodeRefW rec elems with
    | ok w =>
      obtain ⟨c, rest⟩ := w
      rw [hr] at h
      obtain ⟨b, hb, hp⟩ := decodeKids_panic rec l _ rest h
      exact ⟨b, Nat.le_trans hb (decodeRefW_rest hr), hp⟩
    | err e => rw [hr] at h; cases h
    | panic => exact ⟨elems, Nat.le_refl _, decodeRefW_panic hr⟩
    | depth => rw [hr] at h; cases h

theorem wrap_panic_iff {α : Type} {r : DRes α} {ctx : String} (h : r.wrap ctx = .panic) : r = .panic := by
  cases r <;> first | rfl | cases h

/-- one level: a panic of `decodeNode` is the empty key string of THIS list, or the panic of a nested
    `decodeNode` on a strictly shorter buffer -/
theorem decodeNodeW_panic (pk : Bool) (rec : List UInt8 → DRes CNode) (buf : List UInt8)
    (h : decodeNodeW pk rec buf = .panic) :
    (pk = true ∧ EmptyKeyAt buf) ∨ ∃ b, b.length < buf.length ∧ rec b = .panic := by
  unfold decodeNodeW at h
  split at h
  · cases h
  · cases hs : splitList buf with
    | error e => rw [hs] at h; cases h
    | ok v =>
      obtain ⟨elems, r⟩ := v
      have hl := splitList_lengths hs
      rw [hs] at h
      simp only at h
      split at h
      · rename_i hc2
        have hp := wrap_panic_iff h
        unfold decodeShortW at hp
        cases hk : splitString elems with
        | error e => rw [hk] at hp; cases hp
        | ok w =>
          obtain ⟨kbuf, rest⟩ := w
          have hl2 := splitString_lengths hk
          rw [hk] at hp
          simp only at hp
          split at hp
          · cases hp
          rename_i hguard
          cases hc : compactToHex kbuf with
          | none =>
            have := compactToHex_none hc
            subst this
            have hpk : pk = true := by
              cases pk with
              | true => rfl
              | false => exact absurd ⟨rfl, rfl⟩ hguard
            exact Or.inl ⟨hpk, elems, r, rest, hs, hc2, hk⟩
          | some key =>
            rw [hc] at hp
            simp only at hp
            split at hp
            · cases hv : splitString rest with
              | error e => rw [hv] at hp; cases hp
              | ok x => rw [hv] at hp; cases hp
            · cases hr : decodeRefW rec rest with
              | ok x => rw [hr] at hp; cases hp
              | err e => rw [hr] at hp; cases hp
              | panic => exact Or.inr ⟨rest, by omega, decodeRefW_panic hr⟩
              | depth => rw [hr] at hp; cases hp
      · split at h
        · have hp := wrap_panic_iff h
          unfold decodeFullW at hp
          cases hk : decodeKids rec slots16 (fun _ => .empty) elems with
          | ok w =>
            rw [hk] at hp
            simp only [bind_ok] at hp
            split at hp <;> cases hp
          | err e => rw [hk] at hp; cases hp
          | panic =>
            obtain ⟨b, hb, hpb⟩ := decodeKids_panic rec _ _ _ hk
            exact Or.inr ⟨b, by omega, hpb⟩
          | depth => rw [hk] at hp; cases hp
        · cases h

/-- LEGACY code (before /repo 93439c0): a panic at any depth originates at some buffer (the blob or a nested
    embedded node, never longer than the blob) that is a two-element list with an EMPTY first element -/
theorem decodeNodeF_panic : ∀ (d : Nat) (buf : List UInt8), decodeNodeF true d buf = .panic →
    ∃ b, b.length ≤ buf.length ∧ EmptyKeyAt b
  | 0, _, h => by cases h
  | d + 1, buf, h => by
    rw [decodeNodeF_succ] at h
    rcases decodeNodeW_panic true _ buf h with ⟨_, he⟩ | ⟨b, hb, hp⟩
    · exact ⟨buf, Nat.le_refl _, he⟩
    · obtain ⟨b', hb', he⟩ := decodeNodeF_panic d b hp
      exact ⟨b', by omega, he⟩

/-- CURRENT code (empty-key guard in decodeShort): no byte string at any depth makes the decoder panic -/
theorem decodeNodeF_no_panic : ∀ (d : Nat) (buf : List UInt8), decodeNodeF false d buf ≠ .panic
  | 0, _ => by intro h; cases h
  | d + 1, buf => by
    intro h
    rw [decodeNodeF_succ] at h
    rcases decodeNodeW_panic false _ buf h with ⟨hpk, _⟩ | ⟨b, _, hp⟩
    · cases hpk
    · exact decodeNodeF_no_panic d b hp

end LemoProofs.MptDecodeLemmas

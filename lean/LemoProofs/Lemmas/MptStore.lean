/-
  Helper lemmas for C17 part C (partially resolved trie, hasher, node store; model
  `LemoModel.MptStore`): the reference collapse of a resolved trie, the simulation invariant `Inv`
  between a partially resolved trie and the resolved trie of `LemoModel.Mpt`, and its preservation
  by `resolveHash`, `tryGet`, `insert`, `delete`, the hasher (`Commit`, `Hash`, unloading) and
  re-opening by root.
-/
import LemoModel.Mpt
import LemoModel.MptStore
import LemoProofs.Lemmas.Mpt
namespace LemoProofs.MptStoreLemmas
open LemoModel LemoModel.Mpt LemoModel.MptStore LemoProofs.MptLemmas

/-! ### the reference collapse of a RESOLVED trie (what the hasher computes on a fresh, all-dirty copy) -/

def rawN : Node → CNode
  | .empty => .empty
  | .value v => .value v
  | .short k c => .short k (rawN c)
  | .full ch => .full (fun i => rawN (ch i))

/-- reference to the node `n` from its parent: embedded collapsed node if `small`, else its hash -/
def refC (hs : Hasher) : Node → Bool → CNode
  | .empty, _ => .empty
  | .value v, force => storeRef hs (.value v) none force
  | .short K c, force =>
    storeRef hs (.short K (match c with
      | .value v => CNode.value v
      | _ => refC hs c false)) none force
  | .full ch, force =>
    storeRef hs (.full (fun i => if i = 16 then rawN (ch 16) else refC hs (ch i) false)) none force

/-- the collapsed node that is encoded and stored for `n` -/
def refKids (hs : Hasher) : Node → CNode
  | .empty => .empty
  | .value v => .value v
  | .short K c => .short K (match c with
      | .value v => CNode.value v
      | _ => refC hs c false)
  | .full ch => .full (fun i => if i = 16 then rawN (ch 16) else refC hs (ch i) false)

/-- the reference a short node holds to its child: a value is never hashed -/
def childRef (hs : Hasher) (c : Node) : CNode :=
  match c with
  | .value v => .value v
  | _ => refC hs c false

theorem refKids_short (hs : Hasher) (K : List Nib) (c : Node) :
    refKids hs (.short K c) = .short K (childRef hs c) := by
  cases c <;> rfl

theorem refKids_full (hs : Hasher) (ch : Nib → Node) :
    refKids hs (.full ch) = .full (fun i => if i = 16 then rawN (ch 16) else refC hs (ch i) false) := rfl

def Node.isBranch : Node → Bool
  | .short _ _ => true
  | .full _ => true
  | _ => false

theorem refC_short (hs : Hasher) (K : List Nib) (c : Node) (force : Bool) :
    refC hs (.short K c) force = storeRef hs (refKids hs (.short K c)) none force := rfl

theorem refC_full (hs : Hasher) (ch : Nib → Node) (force : Bool) :
    refC hs (.full ch) force = storeRef hs (refKids hs (.full ch)) none force := rfl

theorem refC_branch (hs : Hasher) (n : Node) (hb : Node.isBranch n = true) (force : Bool) :
    refC hs n force = storeRef hs (refKids hs n) none force := by
  cases n <;> simp [Node.isBranch] at hb <;> rfl

theorem refKids_isBranch (hs : Hasher) (n : Node) (hb : Node.isBranch n = true) :
    (refKids hs n).isBranch = true := by
  cases n <;> simp [Node.isBranch] at hb <;> rfl

/-- `storeRef` on a short/full collapsed node -/
theorem storeRef_branch (hs : Hasher) (c : CNode) (hb : c.isBranch = true) (o : Option Hash) (force : Bool) :
    storeRef hs c o force = if hs.small c && !force then c else .hash (o.getD (hs.hashOf c)) := by
  cases c <;> simp [CNode.isBranch] at hb <;> rfl

/-- the hasher only reads `small` and `hashOf` in `storeRef` -/
theorem storeRef_congr (hs hs' : Hasher) (h1 : hs.small = hs'.small) (h2 : hs.hashOf = hs'.hashOf)
    (c : CNode) (o : Option Hash) (force : Bool) : storeRef hs c o force = storeRef hs' c o force := by
  cases c <;> simp [storeRef, h1, h2]

theorem refC_congr (hs hs' : Hasher) (h1 : hs.small = hs'.small) (h2 : hs.hashOf = hs'.hashOf)
    (n : Node) : ∀ force, refC hs n force = refC hs' n force := by
  induction n with
  | empty => intro _; rfl
  | value v => intro f; exact storeRef_congr hs hs' h1 h2 _ _ _
  | short K c ih =>
    intro f
    simp only [refC]
    rw [ih false]
    exact storeRef_congr hs hs' h1 h2 _ _ _
  | full ch ih =>
    intro f
    simp only [refC]
    have : (fun i : Nib => if i = 16 then rawN (ch 16) else refC hs (ch i) false) =
        (fun i : Nib => if i = 16 then rawN (ch 16) else refC hs' (ch i) false) := by
      funext i; rw [ih i false]
    rw [this]
    exact storeRef_congr hs hs' h1 h2 _ _ _

/-- a reference that is a hash, for a short/full node: the node is not embedded and the hash is `hashOf` of
    the stored collapsed node -/
theorem refC_hash_inv {hs : Hasher} {n : Node} (hb : Node.isBranch n = true) {force : Bool} {h : Hash}
    (hr : refC hs n force = .hash h) :
    (hs.small (refKids hs n) && !force) = false ∧ h = hs.hashOf (refKids hs n) := by
  rw [refC_branch hs n hb, storeRef_branch hs _ (refKids_isBranch hs n hb)] at hr
  by_cases hc : (hs.small (refKids hs n) && !force) = true
  · rw [if_pos hc] at hr
    have := refKids_isBranch hs n hb
    rw [hr] at this; simp [CNode.isBranch] at this
  · rw [if_neg hc] at hr
    simp only [Option.getD_none, CNode.hash.injEq] at hr
    exact ⟨by simpa using hc, hr.symm⟩

/-! ### well-placed values; no empty short keys -/

/-- values sit only below a short node or in slot 16 of a full node, a short node has a child
    (everything `insert`/`delete` build over terminated keys: `Canon` implies it) -/
def Placed : Node → Prop
  | .empty => True
  | .value _ => True
  | .short _ c => c ≠ .empty ∧ Placed c
  | .full ch => (∀ i, i ≠ 16 → ∀ v, ch i ≠ .value v) ∧ (ch 16 = .empty ∨ ∃ v, ch 16 = .value v) ∧
      ∀ i, Placed (ch i)

/-- no short node has an empty key (each level consumes a nibble: bounds the recursion depth) -/
def NES : Node → Prop
  | .empty => True
  | .value _ => True
  | .short K c => K ≠ [] ∧ NES c
  | .full ch => ∀ i, NES (ch i)

theorem canon_placed_nes (n : Node) (h : Canon n) : Placed n ∧ NES n ∧ ∀ v, n ≠ .value v := by
  induction h with
  | empty => exact ⟨trivial, trivial, by intro v h; cases h⟩
  | leaf K v hK hv =>
    exact ⟨⟨by simp, trivial⟩, ⟨term_ne_nil hK, trivial⟩, by intro v h; cases h⟩
  | ext K ch hK _ _ ih =>
    exact ⟨⟨by simp, ih.1⟩, ⟨hK, ih.2.1⟩, by intro v h; cases h⟩
  | full ch _ h16 _ ih =>
    refine ⟨⟨fun i hi v => (ih i hi).2.2 v, h16.imp id (fun ⟨v, _, h⟩ => ⟨v, h⟩), fun i => ?_⟩,
      fun i => ?_, by intro v h; cases h⟩
    · by_cases hi : i = 16
      · subst hi
        rcases h16 with h | ⟨v, _, h⟩ <;> rw [h] <;> trivial
      · exact (ih i hi).1
    · by_cases hi : i = 16
      · subst hi
        rcases h16 with h | ⟨v, _, h⟩ <;> rw [h] <;> trivial
      · exact (ih i hi).2.1

theorem canon_branch_or_empty' {n : Node} (hC : Canon n) : n = .empty ∨ Node.isBranch n = true := by
  cases hC with
  | empty => exact Or.inl rfl
  | leaf => exact Or.inr rfl
  | ext => exact Or.inr rfl
  | full => exact Or.inr rfl

/-! ### closed store -/

section inv
variable (hs : Hasher)

/-- `m`, if referenced by hash from its parent, is in the store with the reference blob -/
def Stored (s : Store) (top : Bool) (m : Node) : Prop :=
  ∀ h, refC hs m top = .hash h → s h = some (refKids hs m)

/-- every hashed proper descendant of `n` is in the store -/
def Closed (s : Store) : Node → Prop
  | .empty => True
  | .value _ => True
  | .short _ c => (match c with
      | .value _ => True
      | _ => Stored hs s false c) ∧ Closed s c
  | .full ch => ∀ i, (i ≠ 16 → Stored hs s false (ch i)) ∧ Closed s (ch i)

def ChildStored (s : Store) (c : Node) : Prop :=
  match c with
  | .value _ => True
  | _ => Stored hs s false c

theorem closed_short (s : Store) (K : List Nib) (c : Node) :
    Closed hs s (.short K c) = (ChildStored hs s c ∧ Closed hs s c) := by
  cases c <;> rfl

def Store.le (s s' : Store) : Prop := ∀ h c, s h = some c → s' h = some c

theorem Store.le_refl (s : Store) : Store.le s s := fun _ _ h => h

theorem Store.le_trans {a b c : Store} (h1 : Store.le a b) (h2 : Store.le b c) : Store.le a c :=
  fun h x hx => h2 h x (h1 h x hx)

theorem stored_mono {s s' : Store} (hle : Store.le s s') {top : Bool} {m : Node}
    (h : Stored hs s top m) : Stored hs s' top m :=
  fun x hx => hle _ _ (h x hx)

theorem closed_mono {s s' : Store} (hle : Store.le s s') (n : Node) : Closed hs s n → Closed hs s' n := by
  induction n with
  | empty => intro _; trivial
  | value v => intro _; trivial
  | short K c ih =>
    intro ⟨h1, h2⟩
    refine ⟨?_, ih h2⟩
    cases c <;> first | trivial | exact stored_mono hs hle h1
  | full ch ih =>
    intro h i
    exact ⟨fun hi => stored_mono hs hle ((h i).1 hi), ih i (h i).2⟩

/-- cache flags of a resolved node that abstracts to `n`:
    a cached hash is the reference hash, and if the node is clean the store holds it (closed);
    a clean node without cached hash is an embedded (small) non-root node. -/
def FlagOk (s : Store) (top : Bool) (f : Flag) (n : Node) : Prop :=
  (∀ h, f.hash = some h → refC hs n top = .hash h ∧
    (f.dirty = false → s h = some (refKids hs n) ∧ Closed hs s n)) ∧
  (f.dirty = false → f.hash = none → top = false ∧ ∀ h, refC hs n false ≠ .hash h)

/-- the simulation invariant: the partially resolved trie `p` abstracts to the resolved trie `n`
    (`top`: `p` is the root, hashed with `force`) -/
inductive Inv (s : Store) : Bool → PNode → Node → Prop
  | empty (top : Bool) : Inv s top .empty .empty
  | value (top : Bool) (v : Val) : Inv s top (.value v) (.value v)
  | hash (top : Bool) (h : Hash) (n : Node) : Node.isBranch n = true → refC hs n top = .hash h →
      s h = some (refKids hs n) → Closed hs s n → Inv s top (.hash h) n
  | short (top : Bool) (K : List Nib) (c : PNode) (n : Node) (f : Flag) : Inv s false c n →
      FlagOk hs s top f (.short K n) → Inv s top (.short K c f) (.short K n)
  | full (top : Bool) (ch : Nib → PNode) (ch' : Nib → Node) (f : Flag) :
      (∀ i, Inv s false (ch i) (ch' i)) → FlagOk hs s top f (.full ch') → Inv s top (.full ch f) (.full ch')

theorem flagOk_mono {s s' : Store} (hle : Store.le s s') {top : Bool} {f : Flag} {n : Node}
    (h : FlagOk hs s top f n) : FlagOk hs s' top f n :=
  ⟨fun x hx => ⟨(h.1 x hx).1, fun hd => ⟨hle _ _ ((h.1 x hx).2 hd).1, closed_mono hs hle n ((h.1 x hx).2 hd).2⟩⟩,
    h.2⟩

theorem inv_mono {s s' : Store} (hle : Store.le s s') {top : Bool} {p : PNode} {n : Node}
    (h : Inv hs s top p n) : Inv hs s' top p n := by
  induction h with
  | empty top => exact .empty top
  | value top v => exact .value top v
  | hash top h n hb hr hst hcl => exact .hash top h n hb hr (hle _ _ hst) (closed_mono hs hle n hcl)
  | short top K c n f _ hf ih => exact .short top K c n f ih (flagOk_mono hs hle hf)
  | full top ch ch' f _ hf ih => exact .full top ch ch' f ih (flagOk_mono hs hle hf)

theorem flagOk_new (s : Store) (top : Bool) (gen : Nat) (n : Node) : FlagOk hs s top (newFlag gen) n :=
  ⟨fun h hh => by simp [newFlag] at hh, fun hd => by simp [newFlag] at hd⟩

theorem flagOk_gen {s : Store} {top : Bool} {f : Flag} {n : Node} (h : FlagOk hs s top f n) (g : Nat) :
    FlagOk hs s top { f with gen := g } n := h

/-- inversions -/
theorem inv_empty_right {s : Store} {top : Bool} {p : PNode} (h : Inv hs s top p .empty) : p = .empty := by
  cases h with
  | empty => rfl
  | hash _ _ _ hb => simp [Node.isBranch] at hb

theorem inv_value_right {s : Store} {top : Bool} {p : PNode} {v : Val} (h : Inv hs s top p (.value v)) :
    p = .value v := by
  cases h with
  | value => rfl
  | hash _ _ _ hb => simp [Node.isBranch] at hb

theorem inv_isEmpty {s : Store} {top : Bool} {p : PNode} {n : Node} (h : Inv hs s top p n) :
    p.isEmpty = n.isEmpty := by
  cases h with
  | empty => rfl
  | value => rfl
  | hash _ _ n hb => cases n <;> simp [Node.isBranch] at hb <;> rfl
  | short => rfl
  | full => rfl

theorem inv_top_of_false {s : Store} {p : PNode} {n : Node} (h : Inv hs s false p n)
    (hp : p = .empty ∨ ∃ v, p = .value v) : ∀ top, Inv hs s top p n := by
  intro top
  rcases hp with hp | ⟨v, hp⟩ <;> subst hp <;> cases h
  · exact .empty top
  · exact .value top v

end inv

/-! ### resolving a hash node -/

section resolve
variable (hs : Hasher)

/-- the embedded-or-hash reference to a child decodes to a node that abstracts to the child -/
theorem inv_decode_ref (s : Store) (gen : Nat) (m : Node) : Placed m → Closed hs s m →
    Stored hs s false m → (∀ v, m ≠ .value v) → Inv hs s false (decodeEmb gen (refC hs m false)) m := by
  induction m with
  | empty => intro _ _ _ _; exact .empty false
  | value v => intro _ _ _ hv; exact absurd rfl (hv v)
  | short K c ih =>
    intro hP hC hS _
    have hb : Node.isBranch (.short K c) = true := rfl
    rw [refC_branch hs _ hb, storeRef_branch hs _ (refKids_isBranch hs _ hb)]
    by_cases hsm : (hs.small (refKids hs (.short K c)) && !false) = true
    · rw [if_pos hsm]
      have hchild : Inv hs s false (decodeEmb gen (childRef hs c)) c := by
        cases c with
        | value v => exact .value false v
        | empty => exact absurd rfl hP.1
        | short K' c' => exact ih hP.2 hC.2 hC.1 (by intro v h; cases h)
        | full ch' => exact ih hP.2 hC.2 hC.1 (by intro v h; cases h)
      rw [refKids_short]
      simp only [decodeEmb]
      refine .short false K _ c _ hchild ⟨fun h hh => by simp at hh, fun _ _ => ⟨rfl, fun h hr => ?_⟩⟩
      rw [refC_branch hs _ hb, storeRef_branch hs _ (refKids_isBranch hs _ hb), if_pos hsm, refKids_short] at hr
      cases hr
    · rw [if_neg hsm]
      simp only [Option.getD_none, decodeEmb]
      have hr : refC hs (.short K c) false = .hash (hs.hashOf (refKids hs (.short K c))) := by
        rw [refC_branch hs _ hb, storeRef_branch hs _ (refKids_isBranch hs _ hb), if_neg hsm]; rfl
      exact .hash false _ _ hb hr (hS _ hr) hC
  | full ch ih =>
    intro hP hC hS _
    have hb : Node.isBranch (.full ch) = true := rfl
    rw [refC_branch hs _ hb, storeRef_branch hs _ (refKids_isBranch hs _ hb)]
    by_cases hsm : (hs.small (refKids hs (.full ch)) && !false) = true
    · rw [if_pos hsm]
      simp only [refKids, decodeEmb]
      refine .full false _ ch _ (fun i => ?_) ⟨fun h hh => by simp at hh, fun _ _ => ⟨rfl, fun h hr => ?_⟩⟩
      · by_cases hi : i = 16
        · subst hi
          simp only [if_true]
          rcases hP.2.1 with h | ⟨v, h⟩ <;> rw [h]
          · exact .empty false
          · exact .value false v
        · simp only [if_neg hi]
          exact ih i (hP.2.2 i) (hC i).2 ((hC i).1 hi) (hP.1 i hi)
      · rw [refC_branch hs _ hb, storeRef_branch hs _ (refKids_isBranch hs _ hb), if_pos hsm, refKids_full] at hr
        cases hr
    · rw [if_neg hsm]
      simp only [Option.getD_none, decodeEmb]
      have hr : refC hs (.full ch) false = .hash (hs.hashOf (refKids hs (.full ch))) := by
        rw [refC_branch hs _ hb, storeRef_branch hs _ (refKids_isBranch hs _ hb), if_neg hsm]; rfl
      exact .hash false _ _ hb hr (hS _ hr) hC

def PNode.notHash : PNode → Prop
  | .hash _ => False
  | _ => True

/-- `resolveHash` on a hash node of the invariant never fails and yields a resolved node that
    abstracts to the same trie -/
theorem inv_resolve {s : Store} {top : Bool} {h : Hash} {n : Node} (gen : Nat)
    (hI : Inv hs s top (.hash h) n) (hP : Placed n) :
    ∃ rn, resolveHash s gen h = .ok rn ∧ Inv hs s top rn n ∧ PNode.notHash rn := by
  cases hI with
  | hash _ _ _ hb hr hst hcl =>
    cases n with
    | empty => simp [Node.isBranch] at hb
    | value v => simp [Node.isBranch] at hb
    | short K c =>
      have hst0 := hst
      rw [refKids_short] at hst
      refine ⟨.short K (decodeEmb gen (childRef hs c)) ⟨some h, gen, false⟩, by simp only [resolveHash, hst],
        ?_, trivial⟩
      refine .short top K _ c _ ?_ ⟨fun h' hh => ?_, fun _ hh => by simp at hh⟩
      · cases c with
        | value v => exact .value false v
        | empty => exact absurd rfl hP.1
        | short K' c' => exact inv_decode_ref hs s gen _ hP.2 hcl.2 hcl.1 (by intro v h; cases h)
        | full ch' => exact inv_decode_ref hs s gen _ hP.2 hcl.2 hcl.1 (by intro v h; cases h)
      · simp only [Option.some.injEq] at hh
        subst hh
        exact ⟨hr, fun _ => ⟨hst0, hcl⟩⟩
    | full ch =>
      have hst0 := hst
      rw [refKids_full] at hst
      refine ⟨.full (fun i => decodeEmb gen (if i = 16 then rawN (ch 16) else refC hs (ch i) false))
        ⟨some h, gen, false⟩, by simp only [resolveHash, hst], ?_, trivial⟩
      refine .full top _ ch _ (fun i => ?_) ⟨fun h' hh => ?_, fun _ hh => by simp at hh⟩
      · by_cases hi : i = 16
        · subst hi
          simp only [if_true]
          rcases hP.2.1 with h | ⟨v, h⟩ <;> rw [h]
          · exact .empty false
          · exact .value false v
        · simp only [if_neg hi]
          exact inv_decode_ref hs s gen _ (hP.2.2 i) (hcl i).2 ((hcl i).1 hi) (hP.1 i hi)
      · simp only [Option.some.injEq] at hh
        subst hh
        exact ⟨hr, fun _ => ⟨hst0, hcl⟩⟩

/-- `Trie.resolve` -/
theorem inv_resolve' {s : Store} {p : PNode} {n : Node} (gen : Nat)
    (hI : Inv hs s false p n) (hP : Placed n) :
    ∃ rn, resolve s gen p = .ok rn ∧ Inv hs s false rn n ∧ PNode.notHash rn := by
  cases p with
  | hash h => exact inv_resolve hs gen hI hP
  | empty => exact ⟨_, rfl, hI, trivial⟩
  | value v => exact ⟨_, rfl, hI, trivial⟩
  | short K c f => exact ⟨_, rfl, hI, trivial⟩
  | full ch f => exact ⟨_, rfl, hI, trivial⟩

end resolve

/-! ### `tryGet` -/

def needFuel (p : PNode) (key : List Nib) : Nat :=
  2 * key.length + (match p with | .hash _ => 1 | _ => 0) + 1

theorem needFuel_notHash {p : PNode} (h : PNode.notHash p) (key : List Nib) :
    needFuel p key = 2 * key.length + 1 := by
  cases p <;> first | rfl | exact absurd h id

theorem needFuel_le (p : PNode) (key : List Nib) : needFuel p key ≤ 2 * key.length + 2 := by
  cases p <;> simp [needFuel]

def getOpt : GetRes → Option Val
  | .found v => some v
  | _ => none

section get
variable (hs : Hasher)

theorem tryGet_sim (s : Store) (gen : Nat) : ∀ (fuel : Nat) (p : PNode) (n : Node) (key : List Nib) (top : Bool),
    Inv hs s top p n → Placed n → NES n → needFuel p key ≤ fuel →
    (Mpt.get n key = .panic ∧ tryGet s gen fuel p key = .panic) ∨
    (Mpt.get n key ≠ .panic ∧ ∃ p' d, tryGet s gen fuel p key = .ok (getOpt (Mpt.get n key), p', d) ∧
      Inv hs s top p' n) := by
  intro fuel
  induction fuel with
  | zero => intro p n key top _ _ _ hf; simp [needFuel] at hf
  | succ fuel ih =>
    intro p n key top hI hP hN hf
    cases hI with
    | empty => exact Or.inr ⟨by simp [Mpt.get], .empty, false, by simp [tryGet, Mpt.get, getOpt], .empty top⟩
    | value _ v => exact Or.inr ⟨by simp [Mpt.get], .value v, false, by simp [tryGet, Mpt.get, getOpt], .value top v⟩
    | hash _ h _ hb hr hst hcl =>
      obtain ⟨rn, hres, hIr, hnh⟩ := inv_resolve hs gen (.hash top h n hb hr hst hcl) hP
      have hf' : needFuel rn key ≤ fuel := by
        rw [needFuel_notHash hnh]; simp [needFuel] at hf; omega
      rcases ih rn n key top hIr hP hN hf' with ⟨h1, h2⟩ | ⟨h1, p', d, h2, h3⟩
      · exact Or.inl ⟨h1, by simp only [tryGet, hres, h2]⟩
      · exact Or.inr ⟨h1, p', true, by simp only [tryGet, hres, h2], h3⟩
    | short _ K c n' f hIc hF =>
      simp only [Mpt.get, tryGet]
      cases hsp : stripPrefix K key with
      | none =>
        exact Or.inr ⟨by simp, _, false, rfl, .short top K c n' f hIc hF⟩
      | some rest =>
        simp only
        have hk := stripPrefix_some hsp
        have hKne : K ≠ [] := hN.1
        have hlen : rest.length + 1 ≤ key.length := by
          rw [hk, List.length_append]
          have : 0 < K.length := List.length_pos_iff.mpr hKne
          omega
        have hf' : needFuel c rest ≤ fuel := by
          have := needFuel_le c rest
          simp [needFuel] at hf; omega
        rcases ih c n' rest false hIc hP.2 hN.2 hf' with ⟨h1, h2⟩ | ⟨h1, p', d, h2, h3⟩
        · exact Or.inl ⟨h1, by rw [h2]⟩
        · refine Or.inr ⟨h1, ?_⟩
          rw [h2]
          cases d with
          | true => exact ⟨_, true, rfl, .short top K p' n' _ h3 hF⟩
          | false => exact ⟨_, false, rfl, .short top K c n' f hIc hF⟩
    | full _ ch ch' f hIc hF =>
      cases key with
      | nil => exact Or.inl ⟨by simp [Mpt.get], by simp [tryGet]⟩
      | cons k rest =>
        simp only [Mpt.get, tryGet]
        have hf' : needFuel (ch k) rest ≤ fuel := by
          have := needFuel_le (ch k) rest
          simp [needFuel] at hf; omega
        rcases ih (ch k) (ch' k) rest false (hIc k) (hP.2.2 k) (hN k) hf' with ⟨h1, h2⟩ | ⟨h1, p', d, h2, h3⟩
        · exact Or.inl ⟨h1, by rw [h2]⟩
        · refine Or.inr ⟨h1, ?_⟩
          rw [h2]
          cases d with
          | true =>
            refine ⟨_, true, rfl, .full top _ ch' _ (fun i => ?_) hF⟩
            by_cases hi : i = k
            · subst hi; simpa [setP] using h3
            · simpa [setP, hi] using hIc i
          | false => exact ⟨_, false, rfl, .full top ch ch' f hIc hF⟩

end get

/-! ### `insert` -/

theorem insert_false_same (n : Node) : ∀ (k : List Nib) (v : Val) (n' : Node),
    Mpt.insert n k v = some (false, n') → n' = n := by
  induction n with
  | empty => intro k v n' h; cases k <;> simp [Mpt.insert] at h
  | value old =>
    intro k v n' h
    cases k with
    | nil =>
      simp only [Mpt.insert, Option.some.injEq, Prod.mk.injEq, decide_eq_false_iff_not, ne_eq] at h
      have : old = v := Decidable.not_not.mp h.1
      rw [← h.2, this]
    | cons x r => simp [Mpt.insert] at h
  | short K c ih =>
    intro k v n' h
    unfold Mpt.insert at h
    repeat' split at h
    all_goals first
      | (simp only [Option.some.injEq, Prod.mk.injEq] at h; exact h.2.symm)
      | simp at h
  | full ch ih =>
    intro k v n' h
    unfold Mpt.insert at h
    repeat' split at h
    all_goals first
      | (simp only [Option.some.injEq, Prod.mk.injEq] at h; exact h.2.symm)
      | simp at h

section ins
variable (hs : Hasher)

theorem inv_insertNil {s : Store} {c : PNode} {n : Node} (gen : Nat) (k : List Nib)
    (h : Inv hs s false c n) : Inv hs s false (insertNilP gen k c) (insertNil k n) := by
  cases k with
  | nil => exact h
  | cons x r => exact .short false _ c n _ h (flagOk_new hs s false gen _)

theorem inv_setP {s : Store} {ch : Nib → PNode} {ch' : Nib → Node} {c : PNode} {n : Node} (k : Nib)
    (h : ∀ i, Inv hs s false (ch i) (ch' i)) (hc : Inv hs s false c n) :
    ∀ i, Inv hs s false (setP ch k c i) (setChild ch' k n i) := by
  intro i
  by_cases hi : i = k
  · subst hi; simpa [setP, setChild] using hc
  · simpa [setP, setChild, hi] using h i

theorem insert_sim (s : Store) (gen : Nat) : ∀ (fuel : Nat) (p : PNode) (n : Node) (key : List Nib) (v : Val)
    (top : Bool), Inv hs s top p n → Placed n → NES n → needFuel p key ≤ fuel →
    (Mpt.insert n key v = none ∧ MptStore.insert s gen fuel p key v = .panic) ∨
    (∃ d n' p', Mpt.insert n key v = some (d, n') ∧ MptStore.insert s gen fuel p key v = .ok (d, p') ∧
      Inv hs s top p' n') := by
  intro fuel
  induction fuel with
  | zero => intro p n key v top _ _ _ hf; simp [needFuel] at hf
  | succ fuel ih =>
    intro p n key v top hI hP hN hf
    cases hI with
    | empty =>
      cases key with
      | nil => exact Or.inr ⟨true, _, _, rfl, rfl, .value top v⟩
      | cons x r =>
        exact Or.inr ⟨true, _, _, rfl, rfl, .short top _ _ _ _ (.value false v) (flagOk_new hs s top gen _)⟩
    | value _ old =>
      cases key with
      | nil => exact Or.inr ⟨_, _, _, rfl, rfl, .value top v⟩
      | cons x r => exact Or.inl ⟨rfl, rfl⟩
    | hash _ h _ hb hr hst hcl =>
      cases key with
      | nil =>
        refine Or.inr ⟨true, .value v, .value v, ?_, rfl, .value top v⟩
        cases n <;> simp [Node.isBranch] at hb <;> rfl
      | cons x r =>
        obtain ⟨rn, hres, hIr, hnh⟩ := inv_resolve hs gen (.hash top h n hb hr hst hcl) hP
        have hf' : needFuel rn (x :: r) ≤ fuel := by
          rw [needFuel_notHash hnh]; simp [needFuel] at hf ⊢; omega
        rcases ih rn n (x :: r) v top hIr hP hN hf' with ⟨h1, h2⟩ | ⟨d, n', p', h1, h2, h3⟩
        · exact Or.inl ⟨h1, by simp only [MptStore.insert, hres, h2]⟩
        · cases d with
          | false =>
            have := insert_false_same n _ _ _ h1
            subst this
            exact Or.inr ⟨false, n', rn, h1, by simp only [MptStore.insert, hres, h2], hIr⟩
          | true => exact Or.inr ⟨true, n', p', h1, by simp only [MptStore.insert, hres, h2], h3⟩
    | short _ K c n' f hIc hF =>
      cases key with
      | nil => exact Or.inr ⟨true, _, _, rfl, rfl, .value top v⟩
      | cons x r =>
        obtain ⟨e1, e2, e3⟩ := splitPrefix_spec (x :: r) K
        simp only [Mpt.insert, MptStore.insert]
        rcases hsp : splitPrefix (x :: r) K with ⟨cm, rk, rK⟩
        rw [hsp] at e1 e2 e3
        simp only at e1 e2 e3
        cases rK with
        | nil =>
          simp only
          have hKne : K ≠ [] := hN.1
          have hlen : rk.length + 1 ≤ (x :: r).length := by
            rw [e1, List.length_append]
            rw [List.append_nil] at e2
            have : 0 < cm.length := List.length_pos_iff.mpr (by rw [← e2]; exact hKne)
            omega
          have hf' : needFuel c rk ≤ fuel := by
            have := needFuel_le c rk
            simp [needFuel] at hf; simp at hlen; omega
          rcases ih c n' rk v false hIc hP.2 hN.2 hf' with ⟨h1, h2⟩ | ⟨d, n'', p', h1, h2, h3⟩
          · exact Or.inl ⟨by rw [h1], by rw [h2]⟩
          · rw [h1, h2]
            cases d with
            | false => exact Or.inr ⟨false, _, _, rfl, rfl, .short top K c n' f hIc hF⟩
            | true => exact Or.inr ⟨true, _, _, rfl, rfl, .short top K p' n'' _ h3 (flagOk_new hs s top gen _)⟩
        | cons kn rK' =>
          simp only
          cases rk with
          | nil => exact Or.inl ⟨rfl, rfl⟩
          | cons kk rk' =>
            simp only
            have hbr : ∀ i, Inv hs s false
                (setP (setP (fun _ => PNode.empty) kn (insertNilP gen rK' c)) kk (insertNilP gen rk' (.value v)) i)
                (setChild (setChild (fun _ => Node.empty) kn (insertNil rK' n')) kk (insertNil rk' (.value v)) i) :=
              inv_setP hs kk (inv_setP hs kn (fun _ => .empty false) (inv_insertNil hs gen rK' hIc))
                (inv_insertNil hs gen rk' (.value false v))
            cases cm with
            | nil => exact Or.inr ⟨true, _, _, rfl, rfl, .full top _ _ _ hbr (flagOk_new hs s top gen _)⟩
            | cons y cm' =>
              exact Or.inr ⟨true, _, _, rfl, rfl, .short top _ _ _ _ (.full false _ _ _ hbr (flagOk_new hs s false gen _))
                (flagOk_new hs s top gen _)⟩
    | full _ ch ch' f hIc hF =>
      cases key with
      | nil => exact Or.inr ⟨true, _, _, rfl, rfl, .value top v⟩
      | cons k0 krest =>
        simp only [Mpt.insert, MptStore.insert]
        have hf' : needFuel (ch k0) krest ≤ fuel := by
          have := needFuel_le (ch k0) krest
          simp [needFuel] at hf; omega
        rcases ih (ch k0) (ch' k0) krest v false (hIc k0) (hP.2.2 k0) (hN k0) hf' with
          ⟨h1, h2⟩ | ⟨d, n'', p', h1, h2, h3⟩
        · exact Or.inl ⟨by rw [h1], by rw [h2]⟩
        · rw [h1, h2]
          cases d with
          | false => exact Or.inr ⟨false, _, _, rfl, rfl, .full top ch ch' f hIc hF⟩
          | true =>
            exact Or.inr ⟨true, _, _, rfl, rfl, .full top _ _ _ (inv_setP hs k0 hIc h3) (flagOk_new hs s top gen _)⟩

end ins

/-! ### `delete` -/

theorem delete_false_same (n : Node) : ∀ (k : List Nib) (n' : Node),
    Mpt.delete n k = some (false, n') → n' = n := by
  induction n with
  | empty => intro k n' h; simp only [Mpt.delete, Option.some.injEq, Prod.mk.injEq] at h; exact h.2.symm
  | value old => intro k n' h; simp [Mpt.delete] at h
  | short K c ih =>
    intro k n' h
    unfold Mpt.delete at h
    repeat' split at h
    all_goals first
      | (simp only [Option.some.injEq, Prod.mk.injEq] at h; exact h.2.symm)
      | simp at h
  | full ch ih =>
    intro k n' h
    cases k with
    | nil => simp [Mpt.delete] at h
    | cons k0 kr =>
      cases hd : Mpt.delete (ch k0) kr with
      | none => simp [Mpt.delete, hd] at h
      | some r =>
        obtain ⟨d, nn⟩ := r
        cases d with
        | false =>
          simp only [Mpt.delete, hd, Option.some.injEq, Prod.mk.injEq, true_and] at h
          exact h.symm
        | true =>
          rw [delete_full_eq ch k0 kr nn hd] at h
          simp at h

section del
variable (hs : Hasher)

theorem nonEmptyIdx_eq {s : Store} {chP : Nib → PNode} {chN : Nib → Node}
    (h : ∀ i, Inv hs s false (chP i) (chN i)) : nonEmptyIdxP chP = nonEmptyIdx chN := by
  unfold nonEmptyIdxP nonEmptyIdx
  congr 1
  funext i
  rw [inv_isEmpty hs (h i)]

theorem delete_sim (s : Store) (gen : Nat) : ∀ (fuel : Nat) (p : PNode) (n : Node) (key : List Nib)
    (top : Bool), Inv hs s top p n → Placed n → NES n → needFuel p key ≤ fuel →
    (Mpt.delete n key = none ∧ MptStore.delete s gen fuel p key = .panic) ∨
    (∃ d n' p', Mpt.delete n key = some (d, n') ∧ MptStore.delete s gen fuel p key = .ok (d, p') ∧
      Inv hs s top p' n' ∧ (d = true → PNode.notHash p')) := by
  intro fuel
  induction fuel with
  | zero => intro p n key top _ _ _ hf; simp [needFuel] at hf
  | succ fuel ih =>
    intro p n key top hI hP hN hf
    cases hI with
    | empty => exact Or.inr ⟨false, _, _, rfl, rfl, .empty top, by simp⟩
    | value _ old => exact Or.inr ⟨true, _, _, rfl, rfl, .empty top, fun _ => trivial⟩
    | hash _ h _ hb hr hst hcl =>
      obtain ⟨rn, hres, hIr, hnh⟩ := inv_resolve hs gen (.hash top h n hb hr hst hcl) hP
      have hf' : needFuel rn key ≤ fuel := by
        rw [needFuel_notHash hnh]; simp [needFuel] at hf ⊢; omega
      rcases ih rn n key top hIr hP hN hf' with ⟨h1, h2⟩ | ⟨d, n', p', h1, h2, h3, h4⟩
      · exact Or.inl ⟨h1, by simp only [MptStore.delete, hres, h2]⟩
      · cases d with
        | false =>
          have := delete_false_same n _ _ h1
          subst this
          exact Or.inr ⟨false, n', rn, h1, by simp only [MptStore.delete, hres, h2], hIr, by simp⟩
        | true => exact Or.inr ⟨true, n', p', h1, by simp only [MptStore.delete, hres, h2], h3, h4⟩
    | short _ K c n' f hIc hF =>
      obtain ⟨e1, e2, e3⟩ := splitPrefix_spec key K
      simp only [Mpt.delete, MptStore.delete]
      rcases hsp : splitPrefix key K with ⟨cm, rk, rK⟩
      rw [hsp] at e1 e2 e3
      simp only at e1 e2 e3
      cases rK with
      | cons kn rK' => exact Or.inr ⟨false, _, _, rfl, rfl, .short top K c n' f hIc hF, by simp⟩
      | nil =>
        cases rk with
        | nil => exact Or.inr ⟨true, _, _, rfl, rfl, .empty top, fun _ => trivial⟩
        | cons y rk' =>
          simp only
          have hKne : K ≠ [] := hN.1
          have hlen : (y :: rk').length + 1 ≤ key.length := by
            rw [e1, List.length_append]
            rw [List.append_nil] at e2
            have : 0 < cm.length := List.length_pos_iff.mpr (by rw [← e2]; exact hKne)
            omega
          have hf' : needFuel c (y :: rk') ≤ fuel := by
            have := needFuel_le c (y :: rk')
            simp [needFuel] at hf; simp at hlen this; omega
          rcases ih c n' (y :: rk') false hIc hP.2 hN.2 hf' with ⟨h1, h2⟩ | ⟨d, n'', p', h1, h2, h3, h4⟩
          · exact Or.inl ⟨by rw [h1], by rw [h2]⟩
          · rw [h1, h2]
            cases d with
            | false => exact Or.inr ⟨false, _, _, rfl, rfl, .short top K c n' f hIc hF, by simp⟩
            | true =>
              have hnh := h4 rfl
              cases h3 with
              | empty =>
                exact Or.inr ⟨true, _, _, rfl, rfl, .short top K _ _ _ (.empty false) (flagOk_new hs s top gen _),
                  fun _ => trivial⟩
              | value _ v' =>
                exact Or.inr ⟨true, _, _, rfl, rfl, .short top K _ _ _ (.value false v') (flagOk_new hs s top gen _),
                  fun _ => trivial⟩
              | hash => exact absurd hnh id
              | short _ ck cv cv' f' hcv hF' =>
                exact Or.inr ⟨true, _, _, rfl, rfl, .short top _ _ _ _ hcv (flagOk_new hs s top gen _),
                  fun _ => trivial⟩
              | full _ ch0 ch0' f' hch hF' =>
                exact Or.inr ⟨true, _, _, rfl, rfl,
                  .short top K _ _ _ (.full false ch0 ch0' f' hch hF') (flagOk_new hs s top gen _), fun _ => trivial⟩
    | full _ ch ch' f hIc hF =>
      cases key with
      | nil => exact Or.inl ⟨rfl, rfl⟩
      | cons k0 krest =>
        have hf' : needFuel (ch k0) krest ≤ fuel := by
          have := needFuel_le (ch k0) krest
          simp [needFuel] at hf; omega
        rcases ih (ch k0) (ch' k0) krest false (hIc k0) (hP.2.2 k0) (hN k0) hf' with
          ⟨h1, h2⟩ | ⟨d, n'', p', h1, h2, h3, h4⟩
        · exact Or.inl ⟨by simp only [Mpt.delete, h1], by simp only [MptStore.delete, h2]⟩
        · cases d with
          | false =>
            exact Or.inr ⟨false, _, _, by simp only [Mpt.delete, h1], by simp only [MptStore.delete, h2],
              .full top ch ch' f hIc hF, by simp⟩
          | true =>
            have hnh := h4 rfl
            have hch := inv_setP hs k0 hIc h3
            suffices hsuf : ∃ p'', MptStore.delete s gen (fuel + 1) (.full ch f) (k0 :: krest) = .ok (true, p'') ∧
                Inv hs s top p'' (reduceFull (setChild ch' k0 n'')) ∧ PNode.notHash p'' by
              obtain ⟨p'', g1, g2, g3⟩ := hsuf
              exact Or.inr ⟨true, _, p'', delete_full_eq ch' k0 krest n'' h1, g1, g2, fun _ => g3⟩
            simp only [MptStore.delete, h2, nonEmptyIdx_eq hs hch, reduceFull]
            cases hl : nonEmptyIdx (setChild ch' k0 n'') with
            | nil => exact ⟨_, rfl, .full top _ _ _ hch (flagOk_new hs s top gen _), trivial⟩
            | cons pos rest =>
              cases rest with
              | cons b r => exact ⟨_, rfl, .full top _ _ _ hch (flagOk_new hs s top gen _), trivial⟩
              | nil =>
                simp only
                by_cases h16 : pos = 16
                · simp only [h16, ne_eq, not_true_eq_false, if_false]
                  exact ⟨_, rfl, .short top _ _ _ _ (hch 16) (flagOk_new hs s top gen _), trivial⟩
                · simp only [ne_eq, h16, not_false_eq_true, if_true]
                  -- the remaining child is resolved just for the check
                  have hres : ∃ rn, resolve s gen (setP ch k0 p' pos) = .ok rn ∧
                      Inv hs s false rn (setChild ch' k0 n'' pos) ∧ PNode.notHash rn := by
                    by_cases hpk : pos = k0
                    · subst hpk
                      have e : setP ch pos p' pos = p' := by simp [setP]
                      rw [e]
                      refine ⟨p', ?_, by simpa [setChild] using h3, hnh⟩
                      cases p' <;> first | rfl | exact absurd hnh id
                    · have e : setChild ch' k0 n'' pos = ch' pos := by simp [setChild, hpk]
                      rw [e]
                      have e2 : setP ch k0 p' pos = ch pos := by simp [setP, hpk]
                      rw [e2]
                      exact inv_resolve' hs gen (hIc pos) (hP.2.2 pos)
                  obtain ⟨rn, hr1, hr2, hr3⟩ := hres
                  rw [hr1]
                  have hpos := hch pos
                  generalize setChild ch' k0 n'' pos = m at hr2 hpos
                  cases hr2 with
                  | empty =>
                    exact ⟨_, rfl, .short top _ _ _ _ hpos (flagOk_new hs s top gen _), trivial⟩
                  | value _ v' =>
                    exact ⟨_, rfl, .short top _ _ _ _ hpos (flagOk_new hs s top gen _), trivial⟩
                  | hash => exact absurd hr3 id
                  | short _ ck cv cv' f' hcv hF' =>
                    exact ⟨_, rfl, .short top _ _ _ _ hcv (flagOk_new hs s top gen _), trivial⟩
                  | full _ ch0 ch0' f' hch0 hF' =>
                    exact ⟨_, rfl, .short top _ _ _ _ hpos (flagOk_new hs s top gen _), trivial⟩

end del

/-! ### the hasher: normal forms -/

section hasherNF
variable (hx : Hasher)

theorem cd_some {f : Flag} {h : Hash} {u : Bool} (hcd : cacheDecision hx f = some (h, u)) :
    f.hash = some h ∧ (u = true → hx.commit = true) ∧ (hx.commit = true → f.dirty = false) := by
  unfold cacheDecision at hcd
  cases hh : f.hash with
  | none => rw [hh] at hcd; cases hcd
  | some h0 =>
    rw [hh] at hcd
    simp only at hcd
    by_cases hc : hx.commit = true
    · simp only [hc, Bool.not_true, Bool.false_eq_true, if_false] at hcd
      by_cases hu : f.canUnload hx.cachegen hx.cachelimit = true
      · simp only [hu, if_true, Option.some.injEq, Prod.mk.injEq] at hcd
        refine ⟨by rw [hcd.1], fun _ => hc, fun _ => ?_⟩
        simp only [Flag.canUnload, Bool.and_eq_true, Bool.not_eq_true'] at hu
        exact hu.1
      · simp only [hu, Bool.false_eq_true, if_false] at hcd
        by_cases hd : f.dirty = true
        · simp [hd] at hcd
        · simp only [hd, Bool.not_false, if_true, Option.some.injEq, Prod.mk.injEq] at hcd
          exact ⟨by rw [hcd.1], fun _ => hc, fun _ => by simpa using hd⟩
    · simp only [hc, Bool.not_false, if_true, Option.some.injEq, Prod.mk.injEq] at hcd
      refine ⟨by rw [hcd.1], fun hu => ?_, fun h => absurd h hc⟩
      rw [← hcd.2] at hu; cases hu

theorem cd_none {f : Flag} (hcd : cacheDecision hx f = none) :
    (hx.commit = false → f.hash = none) ∧ (f.hash = none ∨ f.dirty = true) := by
  unfold cacheDecision at hcd
  cases hh : f.hash with
  | none => exact ⟨fun _ => rfl, Or.inl rfl⟩
  | some h0 =>
    rw [hh] at hcd
    simp only at hcd
    by_cases hc : hx.commit = true
    · simp only [hc, Bool.not_true, Bool.false_eq_true, if_false] at hcd
      by_cases hu : f.canUnload hx.cachegen hx.cachelimit = true
      · simp [hu] at hcd
      · simp only [hu, Bool.false_eq_true, if_false] at hcd
        by_cases hd : f.dirty = true
        · exact ⟨fun h => (by rw [hc] at h; cases h), Or.inr hd⟩
        · simp [hd] at hcd
    · simp [hc] at hcd

/-- child reference / cached child / child writes of a short node, as the hasher computes them -/
def pRef (c : PNode) : CNode :=
  match c with
  | .value v => .value v
  | _ => hashed hx c false

def pCached (c : PNode) : PNode :=
  match c with
  | .value v => .value v
  | _ => cachedOf hx c false

def pWrites (c : PNode) : List (Hash × CNode) :=
  match c with
  | .value _ => []
  | _ => writes hx c false

theorem kids_short (K : List Nib) (c : PNode) (f : Flag) : kids hx (.short K c f) = .short K (pRef hx c) := by
  cases c <;> rfl

theorem kids_full (ch : Nib → PNode) (f : Flag) :
    kids hx (.full ch f) = .full (fun i => if i = 16 then rawC (ch 16) else hashed hx (ch i) false) := rfl

theorem hashed_short_some {K : List Nib} {c : PNode} {f : Flag} {h : Hash} {u : Bool} (force : Bool)
    (hcd : cacheDecision hx f = some (h, u)) : hashed hx (.short K c f) force = .hash h := by
  simp only [hashed, hcd]

theorem hashed_short_none {K : List Nib} {c : PNode} {f : Flag} (force : Bool)
    (hcd : cacheDecision hx f = none) :
    hashed hx (.short K c f) force = storeRef hx (kids hx (.short K c f)) f.hash force := by
  simp only [hashed, hcd, kids]

theorem hashed_full_some {ch : Nib → PNode} {f : Flag} {h : Hash} {u : Bool} (force : Bool)
    (hcd : cacheDecision hx f = some (h, u)) : hashed hx (.full ch f) force = .hash h := by
  simp only [hashed, hcd]

theorem hashed_full_none {ch : Nib → PNode} {f : Flag} (force : Bool)
    (hcd : cacheDecision hx f = none) :
    hashed hx (.full ch f) force = storeRef hx (kids hx (.full ch f)) f.hash force := by
  simp only [hashed, hcd, kids]

theorem cachedOf_short_none {K : List Nib} {c : PNode} {f : Flag} (force : Bool)
    (hcd : cacheDecision hx f = none) :
    cachedOf hx (.short K c f) force = .short K (pCached hx c)
      { hash := refHash? (hashed hx (.short K c f) force), gen := f.gen,
        dirty := if hx.commit then false else f.dirty } := by
  simp only [cachedOf, hcd]
  cases c <;> rfl

theorem cachedOf_full_none {ch : Nib → PNode} {f : Flag} (force : Bool)
    (hcd : cacheDecision hx f = none) :
    cachedOf hx (.full ch f) force = .full (fun i => if i = 16 then ch 16 else cachedOf hx (ch i) false)
      { hash := refHash? (hashed hx (.full ch f) force), gen := f.gen,
        dirty := if hx.commit then false else f.dirty } := by
  simp only [cachedOf, hcd]

theorem writes_short_none {K : List Nib} {c : PNode} {f : Flag} (force : Bool)
    (hcd : cacheDecision hx f = none) :
    writes hx (.short K c f) force = pWrites hx c ++ storeWrite hx (kids hx (.short K c f)) f.hash force := by
  simp only [writes, hcd]
  cases c <;> rfl

theorem writes_full_none {ch : Nib → PNode} {f : Flag} (force : Bool)
    (hcd : cacheDecision hx f = none) :
    writes hx (.full ch f) force =
      (List.finRange 17).flatMap (fun i => if i = 16 then [] else writes hx (ch i) false)
        ++ storeWrite hx (kids hx (.full ch f)) f.hash force := by
  simp only [writes, hcd]

def pBad (c : PNode) : Bool :=
  match c with
  | .empty => true
  | .value _ => false
  | _ => hashBad hx c

theorem hashBad_short_none {K : List Nib} {c : PNode} {f : Flag} (hcd : cacheDecision hx f = none) :
    hashBad hx (.short K c f) = pBad hx c := by
  simp only [hashBad, hcd]
  cases c <;> rfl

theorem hashBad_full_none {ch : Nib → PNode} {f : Flag} (hcd : cacheDecision hx f = none) :
    hashBad hx (.full ch f) = (List.finRange 17).any (fun i => i ≠ 16 && hashBad hx (ch i)) := by
  simp only [hashBad, hcd]

theorem storeRef_cached (hs : Hasher) (X : CNode) (hb : X.isBranch = true) (o : Option Hash) (force : Bool)
    (H : ∀ h, o = some h → storeRef hs X none force = .hash h) :
    storeRef hs X o force = storeRef hs X none force := by
  cases o with
  | none => rfl
  | some h0 =>
    have h1 := H h0 rfl
    rw [storeRef_branch hs X hb] at h1
    rw [storeRef_branch hs X hb, storeRef_branch hs X hb]
    by_cases hc : (hs.small X && !force) = true
    · rw [if_pos hc, if_pos hc]
    · rw [if_neg hc] at h1
      rw [if_neg hc, if_neg hc]
      simp only [Option.getD_none, CNode.hash.injEq] at h1
      simp only [Option.getD_some, Option.getD_none, h1]

theorem storeWrite_of_hash (X : CNode) (hb : X.isBranch = true) (o : Option Hash) (force : Bool)
    (hc : hx.commit = true) {h : Hash} (hr : storeRef hx X o force = .hash h) :
    storeWrite hx X o force = [(h, X)] := by
  rw [storeRef_branch hx X hb] at hr
  by_cases hsm : (hx.small X && !force) = true
  · rw [if_pos hsm] at hr
    rw [hr] at hb; simp [CNode.isBranch] at hb
  · rw [if_neg hsm] at hr
    simp only [CNode.hash.injEq] at hr
    cases X <;> simp [CNode.isBranch] at hb <;> simp [storeWrite, hc, hsm, hr]

theorem storeWrite_mem (X : CNode) (o : Option Hash) (force : Bool) {w : Hash × CNode}
    (hw : w ∈ storeWrite hx X o force) : w = (o.getD (hx.hashOf X), X) := by
  unfold storeWrite at hw
  split at hw
  · cases hw
  · split at hw
    · cases hw
    · cases hw
    · split at hw
      · cases hw
      · simpa using hw

end hasherNF

/-! ### the hasher computes the reference collapse, and `Commit` keeps the invariant -/

theorem childRef_of_not_value (hs : Hasher) (n : Node) (h : ∀ v, n ≠ .value v) :
    childRef hs n = refC hs n false := by
  cases n with
  | value v => exact absurd rfl (h v)
  | empty => rfl
  | short K c => rfl
  | full ch => rfl

section hasher
variable (hs hx : Hasher) (heq1 : hx.small = hs.small) (heq2 : hx.hashOf = hs.hashOf)
include heq1 heq2

/-- **the hash computed for a partially resolved trie is the reference hash of the trie it abstracts
    to** — whatever is resolved, cached, dirty, whatever the cache generation and limit -/
theorem hashed_eq_ref {s : Store} {top : Bool} {p : PNode} {n : Node} (hI : Inv hs s top p n) :
    Placed n → hashed hx p top = refC hs n top := by
  induction hI with
  | empty top => intro _; rfl
  | value top v => intro _; exact storeRef_congr hx hs heq1 heq2 _ _ _
  | hash top h n hb hr hst hcl => intro _; exact hr.symm
  | short top K c n f hIc hF ih =>
    intro hP
    cases hcd : cacheDecision hx f with
    | some hu =>
      obtain ⟨h, u⟩ := hu
      rw [hashed_short_some hx top hcd]
      exact ((hF.1 h (cd_some hx hcd).1).1).symm
    | none =>
      have hk : kids hx (.short K c f) = refKids hs (.short K n) := by
        rw [kids_short, refKids_short]
        congr 1
        cases hIc with
        | empty => rfl
        | value _ v => rfl
        | hash _ h' _ hb' hr' _ _ =>
          show hashed hx (.hash h') false = _
          rw [ih hP.2, childRef_of_not_value hs]
          intro v hv; rw [hv] at hb'; simp [Node.isBranch] at hb'
        | short _ K' c' n' f' _ _ =>
          show hashed hx (.short K' c' f') false = _
          rw [ih hP.2]; rfl
        | full _ ch0 ch0' f' _ _ =>
          show hashed hx (.full ch0 f') false = _
          rw [ih hP.2]; rfl
      rw [hashed_short_none hx top hcd, hk, storeRef_congr hx hs heq1 heq2, refC_short]
      exact storeRef_cached hs _ (refKids_isBranch hs _ rfl) _ _ (fun h hh => by
        rw [← refC_short]; exact (hF.1 h hh).1)
  | full top ch ch' f hIc hF ih =>
    intro hP
    cases hcd : cacheDecision hx f with
    | some hu =>
      obtain ⟨h, u⟩ := hu
      rw [hashed_full_some hx top hcd]
      exact ((hF.1 h (cd_some hx hcd).1).1).symm
    | none =>
      have hk : kids hx (.full ch f) = refKids hs (.full ch') := by
        rw [kids_full, refKids_full]
        congr 1
        funext i
        by_cases hi : i = 16
        · simp only [hi, if_true]
          rcases hP.2.1 with h | ⟨v, h⟩
          · have := inv_empty_right hs (h ▸ hIc 16)
            rw [this, h]; rfl
          · have := inv_value_right hs (h ▸ hIc 16)
            rw [this, h]; rfl
        · simp only [hi, if_false]
          exact ih i (hP.2.2 i)
      rw [hashed_full_none hx top hcd, hk, storeRef_congr hx hs heq1 heq2, refC_full]
      exact storeRef_cached hs _ (refKids_isBranch hs _ rfl) _ _ (fun h hh => by
        rw [← refC_full]; exact (hF.1 h hh).1)

theorem kids_short_eq {s : Store} {c : PNode} {n : Node} (K : List Nib) (f : Flag)
    (hIc : Inv hs s false c n) (hP : Placed n) :
    kids hx (.short K c f) = refKids hs (.short K n) := by
  rw [kids_short, refKids_short]
  congr 1
  have ih := hashed_eq_ref hs hx heq1 heq2 hIc hP
  cases hIc with
  | empty => rfl
  | value _ v => rfl
  | hash _ h' _ hb' hr' _ _ =>
    show hashed hx (.hash h') false = _
    rw [ih, childRef_of_not_value hs]
    intro v hv; rw [hv] at hb'; simp [Node.isBranch] at hb'
  | short _ K' c' n' f' _ _ =>
    show hashed hx (.short K' c' f') false = _
    rw [ih]; rfl
  | full _ ch0 ch0' f' _ _ =>
    show hashed hx (.full ch0 f') false = _
    rw [ih]; rfl

theorem kids_full_eq {s : Store} {ch : Nib → PNode} {ch' : Nib → Node} (f : Flag)
    (hIc : ∀ i, Inv hs s false (ch i) (ch' i)) (hP : Placed (.full ch')) :
    kids hx (.full ch f) = refKids hs (.full ch') := by
  rw [kids_full, refKids_full]
  congr 1
  funext i
  by_cases hi : i = 16
  · simp only [hi, if_true]
    rcases hP.2.1 with h | ⟨v, h⟩
    · have := inv_empty_right hs (h ▸ hIc 16)
      rw [this, h]; rfl
    · have := inv_value_right hs (h ▸ hIc 16)
      rw [this, h]; rfl
  · simp only [hi, if_false]
    exact hashed_eq_ref hs hx heq1 heq2 (hIc i) (hP.2.2 i)

/-- every database write of the hasher is keyed by `hashOf` of the blob -/
theorem writes_sound {s : Store} {top : Bool} {p : PNode} {n : Node} (hI : Inv hs s top p n) :
    Placed n → (∀ v, n ≠ .value v) → ∀ w, w ∈ writes hx p top → w.1 = hs.hashOf w.2 := by
  induction hI with
  | empty top => intro _ _ w hw; simp [writes] at hw
  | value top v => intro _ hv; exact absurd rfl (hv v)
  | hash top h n hb hr hst hcl => intro _ _ w hw; simp [writes] at hw
  | short top K c n f hIc hF ih =>
    intro hP _ w hw
    cases hcd : cacheDecision hx f with
    | some hu => simp [writes, hcd] at hw
    | none =>
      rw [writes_short_none hx top hcd, List.mem_append] at hw
      rcases hw with hw | hw
      · cases hIc with
        | empty => simp [pWrites, writes] at hw
        | value _ v => simp [pWrites] at hw
        | hash _ h' _ hb' hr' _ _ => simp [pWrites, writes] at hw
        | short _ K' c' n' f' h1 h2 =>
          exact ih hP.2 (by intro v h; cases h) w hw
        | full _ ch0 ch0' f' h1 h2 =>
          exact ih hP.2 (by intro v h; cases h) w hw
      · have hw' := storeWrite_mem hx _ _ _ hw
        rw [kids_short_eq hs hx heq1 heq2 K f hIc hP.2] at hw'
        rw [hw']
        cases hh : f.hash with
        | none => simp only [Option.getD_none]; rw [heq2]
        | some h0 =>
          simp only [Option.getD_some]
          exact (refC_hash_inv (hs := hs) (n := .short K n) rfl (hF.1 h0 hh).1).2
  | full top ch ch' f hIc hF ih =>
    intro hP _ w hw
    cases hcd : cacheDecision hx f with
    | some hu => simp [writes, hcd] at hw
    | none =>
      rw [writes_full_none hx top hcd, List.mem_append] at hw
      rcases hw with hw | hw
      · rw [List.mem_flatMap] at hw
        obtain ⟨i, _, hwi⟩ := hw
        by_cases hi : i = 16
        · simp [hi] at hwi
        · simp only [hi, if_false] at hwi
          exact ih i (hP.2.2 i) (hP.1 i hi) w hwi
      · have hw' := storeWrite_mem hx _ _ _ hw
        rw [kids_full_eq hs hx heq1 heq2 f hIc hP] at hw'
        rw [hw']
        cases hh : f.hash with
        | none => simp only [Option.getD_none]; rw [heq2]
        | some h0 =>
          simp only [Option.getD_some]
          exact (refC_hash_inv (hs := hs) (n := .full ch') rfl (hF.1 h0 hh).1).2

omit heq1 heq2 in
theorem refC_force_hash (n : Node) (hb : Node.isBranch n = true) : ∃ h, refC hs n true = .hash h := by
  rw [refC_branch hs n hb, storeRef_branch hs _ (refKids_isBranch hs n hb)]
  refine ⟨hs.hashOf (refKids hs n), ?_⟩
  simp

omit heq1 heq2 in
/-- flags of a node the hasher has processed -/
theorem flagOk_processed {s s' : Store} {top : Bool} {f : Flag} {n : Node} (hb : Node.isBranch n = true)
    (hF : FlagOk hs s top f n) (hcd : cacheDecision hx f = none)
    (hcl : hx.commit = true → Stored hs s' top n ∧ Closed hs s' n) :
    FlagOk hs s' top ⟨refHash? (refC hs n top), f.gen, (if hx.commit then false else f.dirty)⟩ n := by
  refine ⟨fun h hh => ?_, fun hd hh => ?_⟩
  · have hR : refC hs n top = .hash h := by
      cases hr : refC hs n top <;> rw [hr] at hh <;> simp [refHash?] at hh
      rw [hh]
    refine ⟨hR, fun hd => ?_⟩
    by_cases hc : hx.commit = true
    · exact ⟨(hcl hc).1 h hR, (hcl hc).2⟩
    · exfalso
      have hc' : hx.commit = false := by simpa using hc
      simp only [hc', Bool.false_eq_true, if_false] at hd
      have := hF.2 hd ((cd_none hx hcd).1 hc')
      rw [this.1] at hR
      exact this.2 h hR
  · have hnot : ∀ h, refC hs n top ≠ .hash h := by
      intro h hr; rw [hr] at hh; simp [refHash?] at hh
    have htop : top = false := by
      cases top with
      | false => rfl
      | true => obtain ⟨h, hr⟩ := refC_force_hash hs n hb; exact absurd hr (hnot h)
    subst htop
    exact ⟨rfl, hnot⟩

/-- **`Commit` / `Hash` / unloading keep the invariant**: for every store `s'` that extends `s` and
    contains the hasher's writes, the trie returned by the hasher (hashes cached, dirty flags cleared,
    unloadable nodes replaced by hash nodes) abstracts to the same resolved trie, the hasher does not
    panic, and (commit mode) the store is closed for it. -/
theorem commit_core {s : Store} {top : Bool} {p : PNode} {n : Node} (hI : Inv hs s top p n) :
    Placed n → (∀ v, n ≠ .value v) → ∀ s', Store.le s s' →
    (hx.commit = true → ∀ w, w ∈ writes hx p top → s' w.1 = some w.2) →
    hashBad hx p = false ∧ Inv hs s' top (cachedOf hx p top) n ∧
    (hx.commit = true → Stored hs s' top n ∧ Closed hs s' n) := by
  induction hI with
  | empty top =>
    intro _ _ s' _ _
    exact ⟨rfl, .empty top, fun _ => ⟨fun h hh => by simp [refC] at hh, trivial⟩⟩
  | value top v => intro _ hv; exact absurd rfl (hv v)
  | hash top h n hb hr hst hcl =>
    intro _ _ s' hle _
    refine ⟨rfl, .hash top h n hb hr (hle _ _ hst) (closed_mono hs hle n hcl),
      fun _ => ⟨fun h' hh => ?_, closed_mono hs hle n hcl⟩⟩
    rw [hr] at hh
    simp only [CNode.hash.injEq] at hh
    rw [← hh]; exact hle _ _ hst
  | short top K c n f hIc hF ih =>
    intro hP _ s' hle hw
    cases hcd : cacheDecision hx f with
    | some hu =>
      obtain ⟨h, u⟩ := hu
      obtain ⟨hfh, hu1, hclean⟩ := cd_some hx hcd
      have htie := (hF.1 h hfh).1
      have hst : hx.commit = true → Stored hs s' top (.short K n) ∧ Closed hs s' (.short K n) := by
        intro hc
        obtain ⟨h1, h2⟩ := (hF.1 h hfh).2 (hclean hc)
        refine ⟨fun h' hh => ?_, closed_mono hs hle _ h2⟩
        rw [htie] at hh
        simp only [CNode.hash.injEq] at hh
        rw [← hh]; exact hle _ _ h1
      refine ⟨by simp [hashBad, hcd], ?_, hst⟩
      cases u with
      | true =>
        have hc := hu1 rfl
        obtain ⟨h1, h2⟩ := (hF.1 h hfh).2 (hclean hc)
        simp only [cachedOf, hcd]
        exact .hash top h _ rfl htie (hle _ _ h1) (closed_mono hs hle _ h2)
      | false =>
        simp only [cachedOf, hcd]
        exact inv_mono hs hle (.short top K c n f hIc hF)
    | none =>
      have hk := kids_short_eq hs hx heq1 heq2 K f hIc hP.2
      have hH := hashed_eq_ref hs hx heq1 heq2 (.short top K c n f hIc hF) hP
      rw [writes_short_none hx top hcd] at hw
      have hch : pBad hx c = false ∧ Inv hs s' false (pCached hx c) n ∧
          (hx.commit = true → ChildStored hs s' n ∧ Closed hs s' n) := by
        have hsub : hx.commit = true → ∀ w, w ∈ pWrites hx c → s' w.1 = some w.2 :=
          fun hc w hm => hw hc w (List.mem_append_left _ hm)
        cases hIc with
        | empty => exact absurd rfl hP.1
        | value _ v => exact ⟨rfl, .value false v, fun _ => ⟨trivial, trivial⟩⟩
        | hash _ h' _ hb' hr' hst' hcl' =>
          obtain ⟨g1, g2, g3⟩ := ih hP.2 (by intro v hv; rw [hv] at hb'; simp [Node.isBranch] at hb') s' hle hsub
          refine ⟨g1, g2, fun hc => ?_⟩
          cases n <;> simp [Node.isBranch] at hb' <;> exact g3 hc
        | short _ K' c' n' f' h1 h2 =>
          obtain ⟨g1, g2, g3⟩ := ih hP.2 (by intro v hv; cases hv) s' hle hsub
          exact ⟨g1, g2, g3⟩
        | full _ ch0 ch0' f' h1 h2 =>
          obtain ⟨g1, g2, g3⟩ := ih hP.2 (by intro v hv; cases hv) s' hle hsub
          exact ⟨g1, g2, g3⟩
      obtain ⟨hb1, hb2, hb3⟩ := hch
      have hcl : hx.commit = true → Stored hs s' top (.short K n) ∧ Closed hs s' (.short K n) := by
        intro hc
        refine ⟨fun h hh => ?_, by rw [closed_short]; exact hb3 hc⟩
        have hR : storeRef hx (kids hx (.short K c f)) f.hash top = .hash h := by
          rw [← hashed_short_none hx top hcd, hH, hh]
        have := storeWrite_of_hash hx _ (by rw [kids_short]; rfl) _ _ hc hR
        have hm : (h, kids hx (.short K c f)) ∈ pWrites hx c ++ storeWrite hx (kids hx (.short K c f)) f.hash top := by
          rw [this]; simp
        have := hw hc _ hm
        rw [hk] at this
        exact this
      refine ⟨by rw [hashBad_short_none hx hcd]; exact hb1, ?_, hcl⟩
      rw [cachedOf_short_none hx top hcd, hH]
      exact .short top K _ n _ hb2 (flagOk_processed hs hx rfl hF hcd hcl)
  | full top ch ch' f hIc hF ih =>
    intro hP _ s' hle hw
    cases hcd : cacheDecision hx f with
    | some hu =>
      obtain ⟨h, u⟩ := hu
      obtain ⟨hfh, hu1, hclean⟩ := cd_some hx hcd
      have htie := (hF.1 h hfh).1
      have hst : hx.commit = true → Stored hs s' top (.full ch') ∧ Closed hs s' (.full ch') := by
        intro hc
        obtain ⟨h1, h2⟩ := (hF.1 h hfh).2 (hclean hc)
        refine ⟨fun h' hh => ?_, closed_mono hs hle _ h2⟩
        rw [htie] at hh
        simp only [CNode.hash.injEq] at hh
        rw [← hh]; exact hle _ _ h1
      refine ⟨by simp [hashBad, hcd], ?_, hst⟩
      cases u with
      | true =>
        have hc := hu1 rfl
        obtain ⟨h1, h2⟩ := (hF.1 h hfh).2 (hclean hc)
        simp only [cachedOf, hcd]
        exact .hash top h _ rfl htie (hle _ _ h1) (closed_mono hs hle _ h2)
      | false =>
        simp only [cachedOf, hcd]
        exact inv_mono hs hle (.full top ch ch' f hIc hF)
    | none =>
      have hk := kids_full_eq hs hx heq1 heq2 f hIc hP
      have hH := hashed_eq_ref hs hx heq1 heq2 (.full top ch ch' f hIc hF) hP
      rw [writes_full_none hx top hcd] at hw
      have hch : ∀ i, i ≠ 16 → hashBad hx (ch i) = false ∧ Inv hs s' false (cachedOf hx (ch i) false) (ch' i) ∧
          (hx.commit = true → Stored hs s' false (ch' i) ∧ Closed hs s' (ch' i)) := by
        intro i hi
        refine ih i (hP.2.2 i) (hP.1 i hi) s' hle (fun hc w hm => hw hc w (List.mem_append_left _ ?_))
        rw [List.mem_flatMap]
        exact ⟨i, List.mem_finRange i, by simp only [hi, if_false]; exact hm⟩
      have hcl : hx.commit = true → Stored hs s' top (.full ch') ∧ Closed hs s' (.full ch') := by
        intro hc
        refine ⟨fun h hh => ?_, fun i => ?_⟩
        · have hR : storeRef hx (kids hx (.full ch f)) f.hash top = .hash h := by
            rw [← hashed_full_none hx top hcd, hH, hh]
          have := storeWrite_of_hash hx _ (by rw [kids_full]; rfl) _ _ hc hR
          have hm : (h, kids hx (.full ch f)) ∈
              (List.finRange 17).flatMap (fun i => if i = 16 then [] else writes hx (ch i) false)
                ++ storeWrite hx (kids hx (.full ch f)) f.hash top := by
            rw [this]; simp
          have := hw hc _ hm
          rw [hk] at this
          exact this
        · by_cases hi : i = 16
          · subst hi
            refine ⟨fun h => absurd rfl h, ?_⟩
            rcases hP.2.1 with h | ⟨v, h⟩ <;> rw [h] <;> trivial
          · exact ⟨fun _ => ((hch i hi).2.2 hc).1, ((hch i hi).2.2 hc).2⟩
      refine ⟨?_, ?_, hcl⟩
      · rw [hashBad_full_none hx hcd, List.any_eq_false]
        intro i _
        by_cases hi : i = 16
        · simp [hi]
        · simp [hi, (hch i hi).1]
      · rw [cachedOf_full_none hx top hcd, hH]
        refine .full top _ ch' _ (fun i => ?_) (flagOk_processed hs hx rfl hF hcd hcl)
        by_cases hi : i = 16
        · simp only [hi, if_true]; exact inv_mono hs hle (hIc 16)
        · simp only [hi, if_false]; exact (hch i hi).2.1


omit heq1 heq2 in
/-- the hasher's nil-interface panic needs a short node with a nil child: not on well-placed tries -/
theorem hashBad_false {s : Store} {top : Bool} {p : PNode} {n : Node} (hI : Inv hs s top p n) :
    Placed n → hashBad hx p = false := by
  induction hI with
  | empty top => intro _; rfl
  | value top v => intro _; rfl
  | hash top h n hb hr hst hcl => intro _; rfl
  | short top K c n f hIc hF ih =>
    intro hP
    cases hcd : cacheDecision hx f with
    | some hu => simp [hashBad, hcd]
    | none =>
      rw [hashBad_short_none hx hcd]
      cases hIc with
      | empty => exact absurd rfl hP.1
      | value _ v => rfl
      | hash _ h' _ _ _ _ _ => rfl
      | short _ K' c' n' f' h1 h2 => exact ih hP.2
      | full _ ch0 ch0' f' h1 h2 => exact ih hP.2
  | full top ch ch' f hIc hF ih =>
    intro hP
    cases hcd : cacheDecision hx f with
    | some hu => simp [hashBad, hcd]
    | none =>
      rw [hashBad_full_none hx hcd, List.any_eq_false]
      intro i _
      by_cases hi : i = 16
      · simp [hi]
      · simp [hi, ih i (hP.2.2 i)]


end hasher

/-! ### normal collapsed nodes: the class on which the node encoding is injective

  `rlp.Encode` of a collapsed node is NOT injective on the whole `CNode` algebra: `hashChildren` writes a
  nil child as `valueNode(nil)`, so `short K .empty` and `short K (.value [])` have the same blob, and a
  32-byte value in a reference position reads back as a hash node.  `Norm` is the class of nodes
  `decodeNode` can return (and the hasher emits for canonical tries): in a reference position (child of
  a non-terminated short node, slots 0–15) only nil, a hash, or an embedded normal node; a value exactly
  below a terminated key; in slot 16 nil or a non-empty value.  Injectivity of `hashOf` is only ever
  assumed ON THIS CLASS (`HashOk`), where it is pure collision freedom of Keccak
  (`LemoProofs.C17.toItem_injective`: the item encoding is injective on `Norm`). -/

/-- `ref = true`: reference position; `ref = false`: a node body (what a blob decodes to) -/
def NormM : Bool → CNode → Prop
  | true, .empty => True
  | true, .hash h => h ≠ []
  | true, .value _ => False
  | _, .short K c => if hasTerm K then (∃ v, c = .value v) else NormM true c
  | _, .full ch => (∀ i, i ≠ 16 → NormM true (ch i)) ∧ (ch 16 = .empty ∨ ∃ v, v ≠ [] ∧ ch 16 = .value v)
  | false, .empty => False
  | false, .hash _ => False
  | false, .value _ => False

/-- a blob, or the "blob" of the empty trie (`emptyRoot = Keccak(rlp(""))`) -/
def Norm (c : CNode) : Prop := c = .empty ∨ NormM false c

/-- what is assumed of the hash function: collision-free on normal nodes, never the empty string -/
structure HashOk (hashOf : CNode → Hash) : Prop where
  inj : ∀ a b, Norm a → Norm b → hashOf a = hashOf b → a = b
  ne : ∀ c, hashOf c ≠ []

theorem normM_true_of_false {c : CNode} (h : NormM false c) : NormM true c := by
  cases c <;> first | exact absurd h id | exact h

theorem hasTerm_of_term {K : List Nib} (h : TermKey K) : hasTerm K = true := by
  induction h with
  | last => rfl
  | cons n k _ hk ih =>
    cases k with
    | nil => cases hk
    | cons y k' => simpa [hasTerm, List.getLast?_cons_cons] using ih

theorem hasTerm_of_noTerm {K : List Nib} (h : NoTerm K) : hasTerm K = false := by
  unfold hasTerm
  cases hl : K.getLast? with
  | none => rfl
  | some x =>
    have hx : x ∈ K := List.mem_of_getLast? hl
    have := h x hx
    simp [this]

/-- the hasher's references and blobs of canonical tries are normal -/
theorem canon_norm (hs : Hasher) (hne : ∀ c, hs.hashOf c ≠ []) {n : Node} (hC : Canon n) :
    NormM true (refC hs n false) ∧ (Node.isBranch n = true → NormM false (refKids hs n)) := by
  have step : ∀ m : Node, Node.isBranch m = true → NormM false (refKids hs m) → NormM true (refC hs m false) := by
    intro m hb hk
    rw [refC_branch hs m hb, storeRef_branch hs _ (refKids_isBranch hs m hb)]
    by_cases hc : (hs.small (refKids hs m) && !false) = true
    · rw [if_pos hc]; exact normM_true_of_false hk
    · rw [if_neg hc]; exact hne _
  induction hC with
  | empty => exact ⟨trivial, fun h => by simp [Node.isBranch] at h⟩
  | leaf K v hK hv =>
    have hk : NormM false (refKids hs (.short K (.value v))) := by
      show NormM false (.short K (.value v))
      simp only [NormM, hasTerm_of_term hK, if_true]
      exact ⟨v, rfl⟩
    exact ⟨step _ rfl hk, fun _ => hk⟩
  | ext K ch hK hNT hCf ih =>
    have hk : NormM false (refKids hs (.short K (.full ch))) := by
      show NormM false (.short K (refC hs (.full ch) false))
      simp only [NormM, hasTerm_of_noTerm hNT]
      exact ih.1
    exact ⟨step _ rfl hk, fun _ => hk⟩
  | full ch h1 h16 h2 ih =>
    have hk : NormM false (refKids hs (.full ch)) := by
      rw [refKids_full]
      refine ⟨fun i hi => ?_, ?_⟩
      · simp only [hi, if_false]; exact (ih i hi).1
      · simp only [if_true]
        rcases h16 with h | ⟨v, hv, h⟩
        · rw [h]; exact Or.inl rfl
        · rw [h]; exact Or.inr ⟨v, hv, rfl⟩
    exact ⟨step _ rfl hk, fun _ => hk⟩

/-- every blob the hasher writes for a canonical trie is normal -/
theorem writes_norm (hs hx : Hasher) (heq1 : hx.small = hs.small) (heq2 : hx.hashOf = hs.hashOf)
    (hne : ∀ c, hs.hashOf c ≠ []) {s : Store} {top : Bool} {p : PNode} {n : Node}
    (hI : Inv hs s top p n) : Canon n → ∀ w, w ∈ writes hx p top → NormM false w.2 := by
  induction hI with
  | empty top => intro _ w hw; simp [writes] at hw
  | value top v => intro hC; exact absurd hC canon_value_false
  | hash top h n hb hr hst hcl => intro _ w hw; simp [writes] at hw
  | short top K c n f hIc hF ih =>
    intro hC w hw
    obtain ⟨hP, _, _⟩ := canon_placed_nes _ hC
    cases hcd : cacheDecision hx f with
    | some hu => simp [writes, hcd] at hw
    | none =>
      rw [writes_short_none hx top hcd, List.mem_append] at hw
      rcases hw with hw | hw
      · rcases canon_short_inv hC with ⟨v, hc, _, _⟩ | ⟨ch, hc, _, _, hCf⟩
        · subst hc
          have := inv_value_right hs hIc
          subst this
          simp [pWrites] at hw
        · subst hc
          cases hIc with
          | hash _ h' _ hb' hr' _ _ => simp [pWrites, writes] at hw
          | full _ ch0 _ f' h1 h2 => exact ih hCf w hw
      · have hw' := storeWrite_mem hx _ _ _ hw
        rw [kids_short_eq hs hx heq1 heq2 K f hIc hP.2] at hw'
        rw [hw']
        exact (canon_norm hs hne hC).2 rfl
  | full top ch ch' f hIc hF ih =>
    intro hC w hw
    obtain ⟨hP, _, _⟩ := canon_placed_nes _ hC
    obtain ⟨h1, _, _⟩ := canon_full_inv hC
    cases hcd : cacheDecision hx f with
    | some hu => simp [writes, hcd] at hw
    | none =>
      rw [writes_full_none hx top hcd, List.mem_append] at hw
      rcases hw with hw | hw
      · rw [List.mem_flatMap] at hw
        obtain ⟨i, _, hwi⟩ := hw
        by_cases hi : i = 16
        · simp [hi] at hwi
        · simp only [hi, if_false] at hwi
          exact ih i (h1 i hi) w hwi
      · have hw' := storeWrite_mem hx _ _ _ hw
        rw [kids_full_eq hs hx heq1 heq2 f hIc hP] at hw'
        rw [hw']
        exact (canon_norm hs hne hC).2 rfl

/-! ### the content-addressed store -/

/-- every entry is keyed by the hash of its blob, and blobs are normal (decoded) nodes -/
def Sound (hashOf : CNode → Hash) (s : Store) : Prop := ∀ h c, s h = some c → h = hashOf c ∧ NormM false c

theorem put_le (s : Store) (h : Hash) (c : CNode) : Store.le s (s.put h c) := by
  intro x c0 hx
  unfold Store.put
  by_cases hxh : x = h
  · subst hxh; simp [hx]
  · simp [hxh, hx]

theorem put_sound {hashOf : CNode → Hash} {s : Store} (hS : Sound hashOf s) {h : Hash} {c : CNode}
    (hh : h = hashOf c ∧ NormM false c) : Sound hashOf (s.put h c) := by
  intro x c0 hx
  unfold Store.put at hx
  by_cases hxh : x = h
  · subst hxh
    simp only [if_true] at hx
    cases hs : s x with
    | none => rw [hs] at hx; simp only [Option.some.injEq] at hx; rw [← hx]; exact hh
    | some c1 => rw [hs] at hx; simp only [Option.some.injEq] at hx; rw [← hx]; exact hS _ _ hs
  · simp only [hxh, if_false] at hx
    exact hS _ _ hx

theorem put_get {hashOf : CNode → Hash} (hH : HashOk hashOf) {s : Store}
    (hS : Sound hashOf s) {h : Hash} {c : CNode} (hh : h = hashOf c ∧ NormM false c) :
    (s.put h c) h = some c := by
  unfold Store.put
  simp only [if_true]
  cases hs : s h with
  | none => rfl
  | some c1 =>
    have := (hS _ _ hs).1
    rw [hh.1] at this
    rw [hH.inj _ _ (Or.inr hh.2) (Or.inr (hS _ _ hs).2) this]

theorem putAll_spec {hashOf : CNode → Hash} (hH : HashOk hashOf) :
    ∀ (ws : List (Hash × CNode)) (s : Store), Sound hashOf s →
    (∀ w, w ∈ ws → w.1 = hashOf w.2 ∧ NormM false w.2) →
    Store.le s (s.putAll ws) ∧ Sound hashOf (s.putAll ws) ∧ ∀ w, w ∈ ws → (s.putAll ws) w.1 = some w.2 := by
  intro ws
  induction ws with
  | nil => intro s hS _; exact ⟨Store.le_refl s, hS, fun w hw => by cases hw⟩
  | cons w ws ih =>
    intro s hS hw
    have h1 := hw w List.mem_cons_self
    obtain ⟨g1, g2, g3⟩ := ih (s.put w.1 w.2) (put_sound hS h1) (fun x hx => hw x (List.mem_cons_of_mem _ hx))
    refine ⟨Store.le_trans (put_le s w.1 w.2) g1, g2, fun x hx => ?_⟩
    rcases List.mem_cons.mp hx with hx | hx
    · subst hx
      exact g1 _ _ (put_get hH hS h1)
    · exact g3 x hx

/-! ### `proof.go`: `get` inside a blob, `VerifyProof` -/

theorem verifyProof_succ (check : Bool) (hashOf : CNode → Hash) (r : Store) (fuel : Nat) (want : Hash)
    (key : List Nib) (i : Nat) :
    verifyProof check hashOf r (fuel + 1) want key i =
      match r want with
      | none => .missing i
      | some c =>
        if check && decide (hashOf c ≠ want) then .mismatch i
        else if !c.isBranch then .bad i
        else
          match proofGet c key with
          | .nil => .absent i
          | .hash h rest => verifyProof check hashOf r fuel h rest (i + 1)
          | .value v => .value v (i + 1)
          | .panic => .panic := rfl

section proof
variable (hs : Hasher)

/-- what `get(decodeNode(blob of m), key)` says about `m` -/
def PGSpec (s : Store) (m : Node) (key : List Nib) : PGet → Prop
  | .value v => Mpt.get m key = .found v
  | .nil => Mpt.get m key = .absent
  | .panic => Mpt.get m key = .panic
  | .hash x rest => ∃ m', Canon m' ∧ Node.isBranch m' = true ∧ refC hs m' false = .hash x ∧
      Mpt.get m key = Mpt.get m' rest ∧ rest.length < key.length ∧
      (Closed hs s m → Stored hs s false m' ∧ Closed hs s m')

theorem pgspec_lift {s : Store} {m m' : Node} {key rest : List Nib} {r : PGet}
    (h : PGSpec hs s m' rest r) (hg : Mpt.get m key = Mpt.get m' rest) (hl : rest.length ≤ key.length)
    (hc : Closed hs s m → Closed hs s m') : PGSpec hs s m key r := by
  cases r with
  | value v => exact hg.trans h
  | nil => exact hg.trans h
  | panic => exact hg.trans h
  | hash x rest' =>
    obtain ⟨m2, a1, a2, a3, a4, a5, a6⟩ := h
    exact ⟨m2, a1, a2, a3, hg.trans a4, Nat.lt_of_lt_of_le a5 hl, fun hcl => a6 (hc hcl)⟩

/-- the reference to a canonical child, looked at by `get` -/
theorem proofGet_child (s : Store) (c : Node) (hC : Canon c) (rest : List Nib)
    (ih : Node.isBranch c = true → PGSpec hs s c rest (proofGet (refKids hs c) rest)) :
    (c = .empty ∧ proofGet (refC hs c false) rest = .nil) ∨
    (Node.isBranch c = true ∧ ((∃ x, refC hs c false = .hash x ∧ proofGet (refC hs c false) rest = .hash x rest) ∨
      (refC hs c false = refKids hs c ∧ PGSpec hs s c rest (proofGet (refC hs c false) rest)))) := by
  rcases canon_branch_or_empty' hC with e | b
  · subst e; exact Or.inl ⟨rfl, rfl⟩
  · right
    refine ⟨b, ?_⟩
    rw [refC_branch hs c b, storeRef_branch hs _ (refKids_isBranch hs c b)]
    by_cases hc : (hs.small (refKids hs c) && !false) = true
    · rw [if_pos hc]; exact Or.inr ⟨rfl, ih b⟩
    · rw [if_neg hc]; exact Or.inl ⟨_, rfl, rfl⟩

theorem proofGet_ref (s : Store) {m : Node} (hC : Canon m) :
    ∀ key, Node.isBranch m = true → PGSpec hs s m key (proofGet (refKids hs m) key) := by
  induction hC with
  | empty => intro key hb; simp [Node.isBranch] at hb
  | leaf K v hK hv =>
    intro key _
    show PGSpec hs s _ key (proofGet (.short K (.value v)) key)
    simp only [proofGet]
    cases hsp : stripPrefix K key with
    | none => simp [PGSpec, Mpt.get, hsp]
    | some rest => simp [PGSpec, Mpt.get, hsp, proofGet]
  | ext K ch hK hNT hCf ih =>
    intro key _
    show PGSpec hs s _ key (proofGet (.short K (refC hs (.full ch) false)) key)
    simp only [proofGet]
    cases hsp : stripPrefix K key with
    | none => simp [PGSpec, Mpt.get, hsp]
    | some rest =>
      simp only
      have hk := stripPrefix_some hsp
      have hlen : rest.length < key.length := by
        rw [hk, List.length_append]
        have : 0 < K.length := List.length_pos_iff.mpr hK
        omega
      have hg : Mpt.get (.short K (.full ch)) key = Mpt.get (.full ch) rest := by simp [Mpt.get, hsp]
      rcases proofGet_child hs s (.full ch) hCf rest (fun hb => ih rest hb) with ⟨e, _⟩ | ⟨_, ⟨x, hx, hp⟩ | ⟨_, hp⟩⟩
      · cases e
      · rw [hp]
        exact ⟨.full ch, hCf, rfl, hx, hg, hlen, fun hcl => by rw [closed_short] at hcl; exact hcl⟩
      · exact pgspec_lift hs hp hg (Nat.le_of_lt hlen) (fun hcl => by rw [closed_short] at hcl; exact hcl.2)
  | full ch h1 h16 h2 ih =>
    intro key _
    rw [refKids_full]
    cases key with
    | nil => simp [PGSpec, proofGet, Mpt.get]
    | cons k rest =>
      simp only [proofGet]
      have hg : Mpt.get (.full ch) (k :: rest) = Mpt.get (ch k) rest := by simp [Mpt.get]
      by_cases hk : k = 16
      · subst hk
        simp only [if_true]
        rcases h16 with h | ⟨v, _, h⟩
        · rw [h]; simp [PGSpec, rawN, proofGet, Mpt.get, h]
        · rw [h]; simp [PGSpec, rawN, proofGet, Mpt.get, h]
      · simp only [hk, if_false]
        rcases proofGet_child hs s (ch k) (h1 k hk) rest (fun hb => ih k hk rest hb) with
          ⟨e, hp⟩ | ⟨hb, ⟨x, hx, hp⟩ | ⟨_, hp⟩⟩
        · rw [hp]; simp [PGSpec, Mpt.get, e]
        · rw [hp]
          exact ⟨ch k, h1 k hk, hb, hx, hg, by simp, fun hcl => ⟨(hcl k).1 hk, (hcl k).2⟩⟩
        · exact pgspec_lift hs hp hg (by simp) (fun hcl => (hcl k).2)

/-- **completeness of `VerifyProof`**: over a store that is closed for the canonical trie `m` (its
    database, or any proof set that holds the path) `VerifyProof(root, key)` returns what `m` holds -/
theorem verify_complete (check : Bool) (s : Store) : ∀ (fuel : Nat) (m : Node) (top : Bool) (want : Hash)
    (key : List Nib) (i : Nat), Canon m → Node.isBranch m = true → refC hs m top = .hash want →
    Stored hs s top m → Closed hs s m → key.length < fuel →
    (∀ v, Mpt.get m key = .found v → ∃ k, verifyProof check hs.hashOf s fuel want key i = .value v k) ∧
    (Mpt.get m key = .absent → ∃ k, verifyProof check hs.hashOf s fuel want key i = .absent k) := by
  intro fuel
  induction fuel with
  | zero => intro m top want key i _ _ _ _ _ hf; omega
  | succ fuel ih =>
    intro m top want key i hC hb hr hSt hCl hf
    have hst := hSt want hr
    have hh := (refC_hash_inv (hs := hs) hb hr).2
    have hbr := refKids_isBranch hs m hb
    have hstep : verifyProof check hs.hashOf s (fuel + 1) want key i =
        match proofGet (refKids hs m) key with
        | .nil => .absent i
        | .hash h rest => verifyProof check hs.hashOf s fuel h rest (i + 1)
        | .value v => .value v (i + 1)
        | .panic => .panic := by
      rw [verifyProof_succ, hst]
      simp only
      rw [if_neg (by simp [← hh]), if_neg (by simp [hbr])]
    have hpg := proofGet_ref hs s hC key hb
    rw [hstep]
    cases hp : proofGet (refKids hs m) key with
    | value v =>
      rw [hp] at hpg
      refine ⟨fun v' hv => ⟨i + 1, ?_⟩, fun ha => ?_⟩
      · have : GetRes.found v = GetRes.found v' := hpg.symm.trans hv
        simp only [GetRes.found.injEq] at this
        rw [this]
      · rw [show Mpt.get m key = .found v from hpg] at ha; cases ha
    | nil =>
      rw [hp] at hpg
      refine ⟨fun v' hv => ?_, fun _ => ⟨i, rfl⟩⟩
      rw [show Mpt.get m key = .absent from hpg] at hv; cases hv
    | panic =>
      rw [hp] at hpg
      refine ⟨fun v' hv => ?_, fun ha => ?_⟩
      · rw [show Mpt.get m key = .panic from hpg] at hv; cases hv
      · rw [show Mpt.get m key = .panic from hpg] at ha; cases ha
    | hash x rest =>
      rw [hp] at hpg
      obtain ⟨m', a1, a2, a3, a4, a5, a6⟩ := hpg
      obtain ⟨b1, b2⟩ := a6 hCl
      have := ih m' false x rest (i + 1) a1 a2 a3 b1 b2 (by omega)
      rw [a4]
      exact this

/-- **soundness of `VerifyProof`** for an ARBITRARY reader `r`: against the root of the canonical trie
    `m`, a returned value is the value `m` holds for the key and "absent" means absent — no other value
    can be "proved".  Needs: `hashOf` collision-free on normal nodes, reader blobs that decode to nodes
    are normal, and either the hash check (`check = true`, the code since 18a0e58) or a
    content-addressed reader (the code before). -/
theorem verify_sound (hH : HashOk hs.hashOf) (check : Bool) (r : Store)
    (hr : check = true ∨ ∀ h c, r h = some c → h = hs.hashOf c)
    (hN : ∀ h c, r h = some c → c.isBranch = true → NormM false c) :
    ∀ (fuel : Nat) (m : Node) (top : Bool) (want : Hash) (key : List Nib) (i : Nat), Canon m →
    Node.isBranch m = true → refC hs m top = .hash want →
    (∀ v k, verifyProof check hs.hashOf r fuel want key i = .value v k → Mpt.get m key = .found v) ∧
    (∀ k, verifyProof check hs.hashOf r fuel want key i = .absent k → Mpt.get m key = .absent) := by
  intro fuel
  induction fuel with
  | zero => intro m top want key i _ _ _; exact ⟨fun v k h => (by cases h), fun k h => (by cases h)⟩
  | succ fuel ih =>
    intro m top want key i hC hb hrf
    have hh := (refC_hash_inv (hs := hs) hb hrf).2
    cases hrw : r want with
    | none => exact ⟨fun v k h => (by simp [verifyProof, hrw] at h), fun k h => (by simp [verifyProof, hrw] at h)⟩
    | some c =>
      by_cases hne : hs.hashOf c = want
      · by_cases hbr : c.isBranch = true
        · -- the blob is THE blob of `m`
          have hc : c = refKids hs m := by
            apply hH.inj _ _ (Or.inr (hN want c hrw hbr)) (Or.inr ((canon_norm hs hH.ne hC).2 hb))
            rw [hne, hh]
          subst hc
          have hstep : verifyProof check hs.hashOf r (fuel + 1) want key i =
              match proofGet (refKids hs m) key with
              | .nil => .absent i
              | .hash h rest => verifyProof check hs.hashOf r fuel h rest (i + 1)
              | .value v => .value v (i + 1)
              | .panic => .panic := by
            rw [verifyProof_succ, hrw]
            simp only
            rw [if_neg (by simp [hne]), if_neg (by simp [hbr])]
          have hpg := proofGet_ref hs r hC key hb
          rw [hstep]
          cases hp : proofGet (refKids hs m) key with
          | value v =>
            rw [hp] at hpg
            refine ⟨fun v' k h => ?_, fun k h => (by cases h)⟩
            simp only [ProofRes.value.injEq] at h
            rw [← h.1]; exact hpg
          | nil =>
            rw [hp] at hpg
            exact ⟨fun v' k h => (by cases h), fun k _ => hpg⟩
          | panic => exact ⟨fun v' k h => (by cases h), fun k h => (by cases h)⟩
          | hash x rest =>
            rw [hp] at hpg
            obtain ⟨m', a1, a2, a3, a4, _, _⟩ := hpg
            rw [a4]
            exact ih m' false x rest (i + 1) a1 a2 a3
        · refine ⟨fun v k h => ?_, fun k h => ?_⟩ <;>
          · simp only [verifyProof, hrw, hne] at h
            simp [hbr] at h
      · -- the blob does not hash to the wanted hash
        rcases hr with hchk | hsound
        · subst hchk
          refine ⟨fun v k h => ?_, fun k h => ?_⟩ <;>
          · simp [verifyProof, hrw, hne] at h
        · exact absurd (hsound want c hrw).symm hne

end proof

/-! ### `Mpt.get` never panics on a canonical trie with a terminated key -/

theorem get_no_panic (n : Node) : ∀ (k : List Nib), Canon n → TermKey k → Mpt.get n k ≠ .panic := by
  induction n with
  | empty => intro k _ _; simp [Mpt.get]
  | value v => intro k _ _; simp [Mpt.get]
  | short K c ih =>
    intro k hC hk
    rw [get_short]
    cases hsp : stripPrefix K k with
    | none => rw [onStrip_none hsp]; simp
    | some rest =>
      rw [onStrip_some hsp]
      rcases canon_short_inv hC with ⟨v, hc, _, _⟩ | ⟨ch, hc, _, hK, hCf⟩
      · subst hc; simp [Mpt.get]
      · subst hc
        have e := stripPrefix_some hsp
        subst e
        exact ih rest hCf (term_suffix hK hk)
  | full ch ih =>
    intro k hC hk
    obtain ⟨h1, h2, _⟩ := canon_full_inv hC
    cases k with
    | nil => exact absurd rfl (term_ne_nil hk)
    | cons x r =>
      rw [get_full_cons]
      by_cases hx : x = 16
      · subst hx
        rcases h2 with h | ⟨v, _, h⟩ <;> rw [h] <;> simp [Mpt.get]
      · exact ih x r (h1 x hx) (term_tail hk hx)

/-! ### the reference collapse is injective when `hashOf` is -/

theorem rawN_inj (a : Node) : ∀ b, rawN a = rawN b → a = b := by
  induction a with
  | empty => intro b h; cases b <;> simp [rawN] at h <;> rfl
  | value v => intro b h; cases b <;> simp [rawN] at h; rw [h]
  | short K c ih =>
    intro b h
    cases b <;> simp [rawN] at h
    rw [h.1, ih _ h.2]
  | full ch ih =>
    intro b h
    cases b <;> simp [rawN] at h
    congr 1
    funext i
    exact ih i _ (congrFun h i)

def storable : CNode → Bool
  | .empty => false
  | .hash _ => false
  | _ => true

theorem storeRef_storable (hs : Hasher) (c : CNode) (hc : storable c = true) (force : Bool) :
    storeRef hs c none force = if hs.small c && !force then c else .hash (hs.hashOf c) := by
  cases c <;> simp [storable] at hc <;> rfl

theorem storeRef_inj (hs : Hasher) (hH : HashOk hs.hashOf) (c1 c2 : CNode)
    (h1 : storable c1 = true) (h2 : storable c2 = true) (n1 : Norm c1) (n2 : Norm c2) (force : Bool)
    (h : storeRef hs c1 none force = storeRef hs c2 none force) : c1 = c2 := by
  rw [storeRef_storable hs c1 h1, storeRef_storable hs c2 h2] at h
  by_cases a1 : (hs.small c1 && !force) = true <;> by_cases a2 : (hs.small c2 && !force) = true
  · rw [if_pos a1, if_pos a2] at h; exact h
  · rw [if_pos a1, if_neg a2] at h; rw [h] at h1; simp [storable] at h1
  · rw [if_neg a1, if_pos a2] at h; rw [← h] at h2; simp [storable] at h2
  · rw [if_neg a1, if_neg a2] at h
    simp only [CNode.hash.injEq] at h
    exact hH.inj _ _ n1 n2 h

theorem refKids_storable (hs : Hasher) (n : Node) (hn : n ≠ .empty) : storable (refKids hs n) = true := by
  cases n <;> first | exact absurd rfl hn | rfl

theorem refC_eq_storeRef (hs : Hasher) (n : Node) (force : Bool) (hn : n ≠ .empty) :
    refC hs n force = storeRef hs (refKids hs n) none force := by
  cases n <;> first | exact absurd rfl hn | rfl

theorem storeRef_ne_empty (hs : Hasher) (c : CNode) (hc : storable c = true) (force : Bool) :
    storeRef hs c none force ≠ .empty := by
  rw [storeRef_storable hs c hc]
  intro h
  by_cases a : (hs.small c && !force) = true
  · rw [if_pos a] at h; rw [h] at hc; simp [storable] at hc
  · rw [if_neg a] at h; cases h

theorem storeRef_not_value_of_branch (hs : Hasher) (c : CNode) (hc : c.isBranch = true) (force : Bool) (v : Val) :
    storeRef hs c none force ≠ .value v := by
  rw [storeRef_branch hs c hc]
  intro h
  by_cases a : (hs.small c && !force) = true
  · rw [if_pos a] at h; rw [h] at hc; simp [CNode.isBranch] at hc
  · rw [if_neg a] at h; cases h

/-- **the reference (embedded node or hash) determines the canonical trie**, if `hashOf` is
    collision-free on normal nodes -/
theorem refC_inj (hs : Hasher) (hH : HashOk hs.hashOf) {n1 : Node} (hC1 : Canon n1) :
    ∀ (n2 : Node), Canon n2 → ∀ (force : Bool), refC hs n1 force = refC hs n2 force → n1 = n2 := by
  have hnk : ∀ m, Canon m → Node.isBranch m = true → Norm (refKids hs m) :=
    fun m hm hb => Or.inr ((canon_norm hs hH.ne hm).2 hb)
  -- equal references of two branch nodes: equal blobs
  have blobs : ∀ m1 m2, Canon m1 → Canon m2 → Node.isBranch m1 = true → Node.isBranch m2 = true →
      ∀ force, refC hs m1 force = refC hs m2 force → refKids hs m1 = refKids hs m2 := by
    intro m1 m2 c1 c2 b1 b2 force h
    rw [refC_eq_storeRef hs m1 force (by intro e; rw [e] at b1; simp [Node.isBranch] at b1),
      refC_eq_storeRef hs m2 force (by intro e; rw [e] at b2; simp [Node.isBranch] at b2)] at h
    exact storeRef_inj hs hH _ _
      (refKids_storable hs m1 (by intro e; rw [e] at b1; simp [Node.isBranch] at b1))
      (refKids_storable hs m2 (by intro e; rw [e] at b2; simp [Node.isBranch] at b2))
      (hnk m1 c1 b1) (hnk m2 c2 b2) force h
  have emptyL : ∀ m force, Canon m → Node.isBranch m = true → refC hs .empty force ≠ refC hs m force := by
    intro m force _ b h
    have hn : m ≠ .empty := by intro e; rw [e] at b; simp [Node.isBranch] at b
    rw [refC_eq_storeRef hs m force hn] at h
    exact storeRef_ne_empty hs _ (refKids_storable hs m hn) force h.symm
  induction hC1 with
  | empty =>
    intro n2 hC2 force h
    rcases canon_branch_or_empty' hC2 with e | b
    · exact e.symm
    · exact absurd h (emptyL n2 force hC2 b)
  | leaf K v hK hv =>
    intro n2 hC2 force h
    rcases canon_branch_or_empty' hC2 with e | b
    · subst e; exact absurd h.symm (emptyL _ force (.leaf K v hK hv) rfl)
    · have hk := blobs _ n2 (.leaf K v hK hv) hC2 rfl b force h
      cases hC2 with
      | empty => simp [Node.isBranch] at b
      | leaf K2 v2 _ _ =>
        rw [refKids_short, refKids_short] at hk
        simp only [childRef, CNode.short.injEq, CNode.value.injEq] at hk
        rw [hk.1, hk.2]
      | ext K2 ch2 _ _ _ =>
        rw [refKids_short, refKids_short] at hk
        simp only [CNode.short.injEq] at hk
        exact absurd hk.2.symm (by
          show refC hs (.full ch2) false ≠ _
          rw [refC_full]; exact storeRef_not_value_of_branch hs _ rfl false v)
      | full ch2 _ _ _ => rw [refKids_short, refKids_full] at hk; cases hk
  | ext K ch hK hNT hCf ih =>
    intro n2 hC2 force h
    rcases canon_branch_or_empty' hC2 with e | b
    · subst e; exact absurd h.symm (emptyL _ force (.ext K ch hK hNT hCf) rfl)
    · have hk := blobs _ n2 (.ext K ch hK hNT hCf) hC2 rfl b force h
      cases hC2 with
      | empty => simp [Node.isBranch] at b
      | leaf K2 v2 _ _ =>
        rw [refKids_short, refKids_short] at hk
        simp only [CNode.short.injEq] at hk
        exact absurd hk.2 (by
          show refC hs (.full ch) false ≠ _
          rw [refC_full]; exact storeRef_not_value_of_branch hs _ rfl false v2)
      | ext K2 ch2 _ _ hCf2 =>
        rw [refKids_short, refKids_short] at hk
        simp only [CNode.short.injEq] at hk
        have := ih _ hCf2 false hk.2
        rw [hk.1, this]
      | full ch2 _ _ _ => rw [refKids_short, refKids_full] at hk; cases hk
  | full ch h1 h16 h2 ih =>
    intro n2 hC2 force h
    rcases canon_branch_or_empty' hC2 with e | b
    · subst e; exact absurd h.symm (emptyL _ force (.full ch h1 h16 h2) rfl)
    · have hk := blobs _ n2 (.full ch h1 h16 h2) hC2 rfl b force h
      cases hC2 with
      | empty => simp [Node.isBranch] at b
      | leaf K2 v2 _ _ => rw [refKids_full, refKids_short] at hk; cases hk
      | ext K2 ch2 _ _ _ => rw [refKids_full, refKids_short] at hk; cases hk
      | full ch2 g1 _ _ =>
        rw [refKids_full, refKids_full] at hk
        simp only [CNode.full.injEq] at hk
        congr 1
        funext i
        have hi := congrFun hk i
        by_cases hi16 : i = 16
        · subst hi16
          simp only [if_true] at hi
          exact rawN_inj _ _ hi
        · simp only [hi16, if_false] at hi
          exact ih i hi16 _ (g1 i hi16) false hi

/-! ### `Trie.Commit`, `Trie.Hash`, `trie.New` -/

/-- the hasher parameters alone (cache generation and limit do not enter the invariant) -/
def baseH (small : CNode → Bool) (hashOf : CNode → Hash) : Hasher := ⟨small, hashOf, 0, 0, false⟩

/-- the root hash the hasher assigns to the resolved trie `n` (`emptyRoot` for the empty trie) -/
def refRoot (hs : Hasher) (n : Node) : Hash :=
  match refC hs n true with
  | .hash h => h
  | _ => hs.hashOf .empty

section trie
variable (small : CNode → Bool) (hashOf : CNode → Hash)

theorem canon_branch_or_empty {n : Node} (hC : Canon n) : n = .empty ∨ Node.isBranch n = true := by
  cases hC with
  | empty => exact Or.inl rfl
  | leaf => exact Or.inr rfl
  | ext => exact Or.inr rfl
  | full => exact Or.inr rfl

/-- what `Trie.Commit` returns on a trie of the invariant: the reference root, the hasher's cached
    trie, the hasher's writes -/
theorem trie_commit_eq {s : Store} {t : Trie} {n : Node} (hI : Inv (baseH small hashOf) s true t.root n)
    (hC : Canon n) :
    t.commit small hashOf = .ok (refRoot (baseH small hashOf) n,
      { t with root := cachedOf (t.hasher small hashOf true) t.root true, cachegen := (t.cachegen + 1) % 65536 },
      writes (t.hasher small hashOf true) t.root true) := by
  obtain ⟨hP, _, hnv⟩ := canon_placed_nes n hC
  rcases canon_branch_or_empty hC with hn | hb
  · subst hn
    have hr := inv_empty_right _ hI
    simp only [Trie.commit, hr]; rfl
  · have c1 := hashBad_false (baseH small hashOf) (t.hasher small hashOf true) hI hP
    have hH := hashed_eq_ref (baseH small hashOf) (t.hasher small hashOf true) rfl rfl hI hP
    obtain ⟨h, hh⟩ := refC_force_hash (baseH small hashOf) n hb
    have hroot : refRoot (baseH small hashOf) n = h := by simp [refRoot, hh]
    have hne : t.root ≠ .empty := by
      intro he
      rw [he] at hI
      cases hI
      simp [Node.isBranch] at hb
    rw [hh] at hH
    unfold Trie.commit
    cases hr : t.root with
    | empty => exact absurd hr hne
    | value v => rw [hr] at hH c1; simp only [c1, hH, hroot]; rfl
    | hash h0 => rw [hr] at hH c1; simp only [c1, hH, hroot]; rfl
    | short K c f => rw [hr] at hH c1; simp only [c1, hH, hroot]; rfl
    | full ch f => rw [hr] at hH c1; simp only [c1, hH, hroot]; rfl

theorem commit_inv (hH : HashOk hashOf) {s : Store} (hS : Sound hashOf s)
    {t : Trie} {n : Node} (hI : Inv (baseH small hashOf) s true t.root n) (hC : Canon n) :
    ∃ t' ws, t.commit small hashOf = .ok (refRoot (baseH small hashOf) n, t', ws) ∧
      Store.le s (s.putAll ws) ∧ Sound hashOf (s.putAll ws) ∧
      Inv (baseH small hashOf) (s.putAll ws) true t'.root n ∧ t'.cachelimit = t.cachelimit ∧
      Stored (baseH small hashOf) (s.putAll ws) true n ∧ Closed (baseH small hashOf) (s.putAll ws) n := by
  obtain ⟨hP, _, hnv⟩ := canon_placed_nes n hC
  rcases canon_branch_or_empty hC with hn | hb
  · subst hn
    have hr := inv_empty_right _ hI
    refine ⟨{ t with cachegen := (t.cachegen + 1) % 65536 }, [], ?_, Store.le_refl s, hS, ?_, rfl, ?_, trivial⟩
    · simp only [Trie.commit, hr]; rfl
    · simpa [hr] using Inv.empty true
    · intro h hh; simp [refC] at hh
  · let hx := t.hasher small hashOf true
    have hw : ∀ w, w ∈ writes hx t.root true → w.1 = hashOf w.2 ∧ NormM false w.2 := fun w hw =>
      ⟨writes_sound (baseH small hashOf) hx rfl rfl hI hP hnv w hw,
        writes_norm (baseH small hashOf) hx rfl rfl hH.ne hI hC w hw⟩
    obtain ⟨g1, g2, g3⟩ := putAll_spec hH (writes hx t.root true) s hS hw
    obtain ⟨c1, c2, c3⟩ := commit_core (baseH small hashOf) hx rfl rfl hI hP hnv (s.putAll (writes hx t.root true))
      g1 (fun _ => g3)
    have hH := hashed_eq_ref (baseH small hashOf) hx rfl rfl hI hP
    obtain ⟨h, hh⟩ := refC_force_hash (baseH small hashOf) n hb
    have hroot : refRoot (baseH small hashOf) n = h := by simp [refRoot, hh]
    have hne : t.root ≠ .empty := by
      intro he
      rw [he] at hI
      cases hI
      simp [Node.isBranch] at hb
    refine ⟨{ t with root := cachedOf hx t.root true, cachegen := (t.cachegen + 1) % 65536 },
      writes hx t.root true, ?_, g1, g2, c2, rfl, (c3 rfl).1, (c3 rfl).2⟩
    have hH' : hashed (t.hasher small hashOf true) t.root true = .hash h := by rw [← hh]; exact hH
    have c1' : hashBad (t.hasher small hashOf true) t.root = false := c1
    unfold Trie.commit
    cases hr : t.root with
    | empty => exact absurd hr hne
    | value v => rw [hr] at hH' c1'; simp only [c1', hH', hroot]; rfl
    | hash h0 => rw [hr] at hH' c1'; simp only [c1', hH', hroot]; rfl
    | short K c f => rw [hr] at hH' c1'; simp only [c1', hH', hroot]; rfl
    | full ch f => rw [hr] at hH' c1'; simp only [c1', hH', hroot]; rfl

theorem hash_inv {s : Store} {t : Trie} {n : Node} (hI : Inv (baseH small hashOf) s true t.root n)
    (hC : Canon n) :
    ∃ t', t.hash small hashOf = .ok (refRoot (baseH small hashOf) n, t') ∧
      Inv (baseH small hashOf) s true t'.root n ∧ t'.cachelimit = t.cachelimit := by
  obtain ⟨hP, _, hnv⟩ := canon_placed_nes n hC
  rcases canon_branch_or_empty hC with hn | hb
  · subst hn
    have hr := inv_empty_right _ hI
    refine ⟨t, ?_, hI, rfl⟩
    simp only [Trie.hash, hr]; rfl
  · let hx := t.hasher small hashOf false
    obtain ⟨c1, c2, _⟩ := commit_core (baseH small hashOf) hx rfl rfl hI hP hnv s (Store.le_refl s)
      (fun h => by cases h)
    have hH := hashed_eq_ref (baseH small hashOf) hx rfl rfl hI hP
    obtain ⟨h, hh⟩ := refC_force_hash (baseH small hashOf) n hb
    have hroot : refRoot (baseH small hashOf) n = h := by simp [refRoot, hh]
    have hne : t.root ≠ .empty := by
      intro he
      rw [he] at hI
      cases hI
      simp [Node.isBranch] at hb
    refine ⟨{ t with root := cachedOf hx t.root true }, ?_, c2, rfl⟩
    have hH' : hashed (t.hasher small hashOf false) t.root true = .hash h := by rw [← hh]; exact hH
    have c1' : hashBad (t.hasher small hashOf false) t.root = false := c1
    unfold Trie.hash
    cases hr : t.root with
    | empty => exact absurd hr hne
    | value v => rw [hr] at hH' c1'; simp only [c1', hH', hroot]; rfl
    | hash h0 => rw [hr] at hH' c1'; simp only [c1', hH', hroot]; rfl
    | short K c f => rw [hr] at hH' c1'; simp only [c1', hH', hroot]; rfl
    | full ch f => rw [hr] at hH' c1'; simp only [c1', hH', hroot]; rfl

/-- `trie.New(root, db)` on a store that is closed for the trie: the re-opened trie abstracts to it.
    Hypotheses on `hashOf`: injective (the root hash of a non-empty trie is not `emptyRoot`) and no node
    hashes to the zero hash (`New` treats `common.Hash{}` as the empty trie). -/
theorem open_inv (hH : HashOk hashOf) (hz : ∀ c, hashOf c ≠ zeroHash)
    {s : Store} {n : Node} (hC : Canon n)
    (hSt : Stored (baseH small hashOf) s true n) (hCl : Closed (baseH small hashOf) s n) :
    ∃ t', Trie.new hashOf s (refRoot (baseH small hashOf) n) = .ok t' ∧
      Inv (baseH small hashOf) s true t'.root n ∧ t'.cachegen = 0 := by
  obtain ⟨hP, _, _⟩ := canon_placed_nes n hC
  rcases canon_branch_or_empty hC with hn | hb
  · subst hn
    refine ⟨{}, ?_, .empty true, rfl⟩
    have : refRoot (baseH small hashOf) .empty = hashOf .empty := rfl
    simp [Trie.new, this]
  · obtain ⟨h, hh⟩ := refC_force_hash (baseH small hashOf) n hb
    have hroot : refRoot (baseH small hashOf) n = h := by simp [refRoot, hh]
    have hhk := (refC_hash_inv (hs := baseH small hashOf) hb hh).2
    have hI : Inv (baseH small hashOf) s true (.hash h) n := .hash true h n hb hh (hSt h hh) hCl
    obtain ⟨rn, hres, hIr, _⟩ := inv_resolve (baseH small hashOf) 0 hI hP
    have h1 : h ≠ zeroHash := by rw [hhk]; exact hz _
    have h2 : h ≠ hashOf .empty := by
      rw [hhk]
      intro e
      have := hH.inj _ _ (Or.inr ((canon_norm (baseH small hashOf) hH.ne hC).2 hb)) (Or.inl rfl) e
      have hb' := refKids_isBranch (baseH small hashOf) n hb
      rw [this] at hb'
      simp [CNode.isBranch] at hb'
    refine ⟨{ root := rn }, ?_, hIr, rfl⟩
    rw [hroot]
    simp only [Trie.new, h1, h2, or_self, if_false, hres]


end trie

end LemoProofs.MptStoreLemmas

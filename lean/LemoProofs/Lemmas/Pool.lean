/-
  C18 — helper lemmas about the tx-pool model `LemoModel.Pool`.
-/
import LemoModel.Pool
namespace LemoProofs.PoolLemmas
open LemoModel.Pool

/-! ### the association list is a map -/

theorem lookup_erase (m : Idx) (k k' : Hash) :
    lookup (erase m k) k' = if k = k' then none else lookup m k' := by
  induction m with
  | nil => simp [erase, lookup]
  | cons e r ih =>
    obtain ⟨a, v⟩ := e
    unfold erase at ih ⊢
    by_cases hak : a = k
    · subst hak
      simp only [List.filter, ne_eq, not_true_eq_false, decide_false]
      rw [ih]
      by_cases h : a = k'
      · simp [h]
      · simp [h, lookup]
    · simp only [List.filter, ne_eq, hak, not_false_eq_true, decide_true]
      simp only [lookup]
      rw [ih]
      by_cases h : k = k'
      · subst h; simp [hak]
      · simp [h]

theorem lookup_insert (m : Idx) (k : Hash) (v : Nat) (k' : Hash) :
    lookup (put m k v) k' = if k = k' then some v else lookup m k' := by
  unfold put
  simp only [lookup]
  by_cases h : k = k'
  · simp [h]
  · simp [h, lookup_erase]

theorem lookup_foldl_insert (ks : List Hash) (m : Idx) (n : Nat) (k' : Hash) :
    lookup (ks.foldl (fun m k => put m k n) m) k' = if k' ∈ ks then some n else lookup m k' := by
  induction ks generalizing m with
  | nil => simp
  | cons a r ih =>
    simp only [List.foldl_cons, ih, lookup_insert, List.mem_cons]
    by_cases h1 : k' ∈ r
    · simp [h1]
    · by_cases h2 : a = k'
      · simp [h2]
      · have : ¬ k' = a := fun e => h2 e.symm
        simp [h1, h2, this]

theorem lookup_of_isEmpty {m : Idx} (h : m.isEmpty = true) (k : Hash) : lookup m k = none := by
  cases m with
  | nil => rfl
  | cons _ _ => simp at h

theorem erase_of_lookup_none {m : Idx} {k : Hash} (h : lookup m k = none) : erase m k = m := by
  induction m with
  | nil => rfl
  | cons e r ih =>
    obtain ⟨a, v⟩ := e
    simp only [lookup] at h
    by_cases hak : a = k
    · simp [hak] at h
    · simp only [hak, if_false] at h
      unfold erase at ih ⊢
      simp only [List.filter, ne_eq, hak, not_false_eq_true, decide_true]
      rw [ih h]

/-! ### invariants -/

/-- index entries are in range (so `pool.txs[index] = nil` cannot panic) and an entry pointing at a
    live slot is one of that transaction's hashes. Holds both before and after the repair (commit 85d2f65). -/
structure WInv (p : Pool) : Prop where
  idx_lt : ∀ k i, lookup p.idx k = some i → i < p.txs.length
  idx_slot : ∀ k i t, lookup p.idx k = some i → p.txs[i]? = some (some t) → k ∈ t.keys

/-- every live slot is indexed under all its hashes. This is what `delTx(box)` broke before commit 85d2f65. -/
structure Inv (p : Pool) : Prop extends WInv p where
  slot_idx : ∀ i t, p.txs[i]? = some (some t) → ∀ k ∈ t.keys, lookup p.idx k = some i

/-- slots are only cleared, index entries only removed -/
structure Shrinks (p p' : Pool) : Prop where
  len : p'.txs.length = p.txs.length
  slot : ∀ i : Nat, p'.txs[i]? = p.txs[i]? ∨ p'.txs[i]? = some none
  idx : ∀ k, lookup p'.idx k = lookup p.idx k ∨ lookup p'.idx k = none

theorem Shrinks.refl (p : Pool) : Shrinks p p := ⟨rfl, fun _ => Or.inl rfl, fun _ => Or.inl rfl⟩

theorem Shrinks.trans {a b c : Pool} (h1 : Shrinks a b) (h2 : Shrinks b c) : Shrinks a c := by
  refine ⟨h2.len.trans h1.len, fun i => ?_, fun k => ?_⟩
  · rcases h2.slot i with h | h
    · rw [h]; exact h1.slot i
    · exact Or.inr h
  · rcases h2.idx k with h | h
    · rw [h]; exact h1.idx k
    · exact Or.inr h

theorem Shrinks.live {p p' : Pool} (h : Shrinks p p') {i : Nat} {t : Tx}
    (ht : p'.txs[i]? = some (some t)) : p.txs[i]? = some (some t) := by
  rcases h.slot i with e | e
  · rw [← e]; exact ht
  · rw [e] at ht; cases ht

theorem Shrinks.absent {p p' : Pool} (h : Shrinks p p') {k : Hash}
    (hk : lookup p.idx k = none) : lookup p'.idx k = none := by
  rcases h.idx k with e | e
  · rw [e]; exact hk
  · exact e

theorem Shrinks.lookup {p p' : Pool} (h : Shrinks p p') {k : Hash} {i : Nat}
    (hk : lookup p'.idx k = some i) : lookup p.idx k = some i := by
  rcases h.idx k with e | e
  · rw [← e]; exact hk
  · rw [e] at hk; cases hk

theorem WInv.shrinks {p p' : Pool} (w : WInv p) (h : Shrinks p p') : WInv p' := by
  refine ⟨fun k i hk => ?_, fun k i t hk ht => ?_⟩
  · rw [h.len]; exact w.idx_lt k i (h.lookup hk)
  · exact w.idx_slot k i t (h.lookup hk) (h.live ht)

theorem winv_new : WInv newPool := ⟨fun k i h => by simp [newPool, lookup] at h, fun k i t h => by simp [newPool, lookup] at h⟩

theorem inv_new : Inv newPool := { winv_new with slot_idx := fun i t h => by simp [newPool] at h }

/-! ### delHash -/

theorem delHash_some {p : Pool} (w : WInv p) (k : Hash) : ∃ p', delHash p k = some p' := by
  unfold delHash
  cases h : lookup p.idx k with
  | none => exact ⟨p, rfl⟩
  | some i => simp [w.idx_lt k i h]

theorem delHash_shrinks {p p' : Pool} {k : Hash} (h : delHash p k = some p') : Shrinks p p' := by
  unfold delHash at h
  cases hl : lookup p.idx k with
  | none => rw [hl] at h; cases h; exact Shrinks.refl p
  | some i =>
    rw [hl] at h
    simp only at h
    split at h
    · cases h
      refine ⟨by simp, fun j => ?_, fun k' => ?_⟩
      · simp only [List.getElem?_set]
        by_cases hij : i = j
        · subst hij; simp [*]
        · simp [hij]
      · simp only [lookup_erase]
        by_cases hk : k = k'
        · simp [hk]
        · simp [hk]
    · cases h

/-- after `delHash p k` the key is gone -/
theorem delHash_absent {p p' : Pool} {k : Hash} (h : delHash p k = some p') : lookup p'.idx k = none := by
  unfold delHash at h
  cases hl : lookup p.idx k with
  | none => rw [hl] at h; cases h; exact hl
  | some i =>
    rw [hl] at h
    simp only at h
    split at h
    · cases h; simp [lookup_erase]
    · cases h

/-- a slot other than the one `k` is indexed at is untouched -/
theorem delHash_slot {p p' : Pool} {k : Hash} (h : delHash p k = some p') (i : Nat)
    (hi : lookup p.idx k ≠ some i) : p'.txs[i]? = p.txs[i]? := by
  unfold delHash at h
  cases hl : lookup p.idx k with
  | none => rw [hl] at h; cases h; rfl
  | some j =>
    rw [hl] at h hi
    simp only at h
    split at h
    · cases h
      have : j ≠ i := fun e => hi (by rw [e])
      simp [this]
    · cases h

/-- the index after `delHash` -/
theorem delHash_idx {p p' : Pool} {k : Hash} (h : delHash p k = some p') : p'.idx = erase p.idx k := by
  unfold delHash at h
  cases hl : lookup p.idx k with
  | none => rw [hl] at h; cases h; exact (erase_of_lookup_none hl).symm
  | some j =>
    rw [hl] at h
    simp only at h
    split at h
    · cases h; rfl
    · cases h

theorem delHash_inv {p p' : Pool} {k : Hash} (v : Inv p) (h : delHash p k = some p') : Inv p' := by
  have sh := delHash_shrinks h
  refine { v.toWInv.shrinks sh with slot_idx := fun i t ht k' hk' => ?_ }
  have ht0 := sh.live ht
  have hl := v.slot_idx i t ht0 k' hk'
  rw [delHash_idx h, lookup_erase]
  by_cases e : k = k'
  · -- then slot i is the one that was cleared
    subst e
    exfalso
    unfold delHash at h
    rw [hl] at h
    simp only at h
    split at h
    · cases h
      simp [List.getElem?_set] at ht
    · cases h
  · simp [e, hl]

/-! ### delSubs / delTx / delLoop -/

theorem delSubs_some {fixed : Bool} {p : Pool} (w : WInv p) (ss : List Sub) :
    ∃ p', delSubs fixed p ss = some p' ∧ Shrinks p p' := by
  induction ss generalizing p with
  | nil => exact ⟨p, rfl, Shrinks.refl p⟩
  | cons s r ih =>
    unfold delSubs
    cases fixed with
    | true =>
      obtain ⟨p1, h1⟩ := delHash_some w s.hash
      have sh1 := delHash_shrinks h1
      obtain ⟨p2, h2, sh2⟩ := ih (w.shrinks sh1)
      simp only [if_true, h1]
      exact ⟨p2, h2, sh1.trans sh2⟩
    | false =>
      have sh1 : Shrinks p { p with idx := erase p.idx s.hash } :=
        ⟨rfl, fun _ => Or.inl rfl, fun k => by
          simp only [lookup_erase]; by_cases e : s.hash = k <;> simp [e]⟩
      obtain ⟨p2, h2, sh2⟩ := ih (w.shrinks sh1)
      simp only [Bool.false_eq_true, if_false]
      exact ⟨p2, h2, sh1.trans sh2⟩

theorem delTx_some {fixed : Bool} {p : Pool} (w : WInv p) (t : Tx) :
    ∃ p', delTx fixed p t = some p' ∧ Shrinks p p' := by
  unfold delTx
  obtain ⟨p1, h1⟩ := delHash_some w t.hash
  have sh1 := delHash_shrinks h1
  obtain ⟨p2, h2, sh2⟩ := delSubs_some (fixed := fixed) (w.shrinks sh1) t.subs
  rw [h1]
  exact ⟨p2, h2, sh1.trans sh2⟩

theorem delTx_shrinks {fixed : Bool} {p p' : Pool} (w : WInv p) {t : Tx} (h : delTx fixed p t = some p') :
    Shrinks p p' := by
  obtain ⟨q, hq, sh⟩ := delTx_some (fixed := fixed) w t
  rw [hq] at h; cases h; exact sh

theorem delSubs_fixed_inv {p p' : Pool} (v : Inv p) {ss : List Sub} (h : delSubs true p ss = some p') : Inv p' := by
  induction ss generalizing p with
  | nil => simp [delSubs] at h; subst h; exact v
  | cons s r ih =>
    unfold delSubs at h
    simp only [if_true] at h
    cases h1 : delHash p s.hash with
    | none => rw [h1] at h; cases h
    | some p1 => rw [h1] at h; exact ih (delHash_inv v h1) h

theorem delTx_fixed_inv {p p' : Pool} (v : Inv p) {t : Tx} (h : delTx true p t = some p') : Inv p' := by
  unfold delTx at h
  cases h1 : delHash p t.hash with
  | none => rw [h1] at h; cases h
  | some p1 => rw [h1] at h; exact delSubs_fixed_inv (delHash_inv v h1) h

/-- the repaired `delTx` removes every hash of the transaction from the index -/
theorem delSubs_fixed_absent {p p' : Pool} (w : WInv p) {ss : List Sub} (h : delSubs true p ss = some p')
    {k : Hash} (hk : k ∈ ss.map Sub.hash ∨ lookup p.idx k = none) : lookup p'.idx k = none := by
  induction ss generalizing p with
  | nil =>
    simp [delSubs] at h; subst h
    rcases hk with hk | hk
    · simp at hk
    · exact hk
  | cons s r ih =>
    unfold delSubs at h
    simp only [if_true] at h
    cases h1 : delHash p s.hash with
    | none => rw [h1] at h; cases h
    | some p1 =>
      rw [h1] at h
      have sh1 := delHash_shrinks h1
      apply ih (w.shrinks sh1) h
      rcases hk with hk | hk
      · simp only [List.map_cons, List.mem_cons] at hk
        rcases hk with hk | hk
        · right; rw [hk]; exact delHash_absent h1
        · left; exact hk
      · right; exact sh1.absent hk

theorem delTx_fixed_absent {p p' : Pool} (w : WInv p) {t : Tx} (h : delTx true p t = some p')
    {k : Hash} (hk : k ∈ t.keys) : lookup p'.idx k = none := by
  unfold delTx at h
  cases h1 : delHash p t.hash with
  | none => rw [h1] at h; cases h
  | some p1 =>
    rw [h1] at h
    have sh1 := delHash_shrinks h1
    apply delSubs_fixed_absent (w.shrinks sh1) h
    simp only [Tx.keys, List.mem_cons] at hk
    rcases hk with hk | hk
    · right; rw [hk]; exact delHash_absent h1
    · left; exact hk

/-- a live transaction none of whose hashes is deleted keeps its slot -/
theorem delHash_keeps {p p' : Pool} (w : WInv p) {k : Hash} (h : delHash p k = some p') {i : Nat} {t : Tx}
    (ht : p.txs[i]? = some (some t)) (hk : k ∉ t.keys) : p'.txs[i]? = some (some t) := by
  rw [delHash_slot h i]
  · exact ht
  · intro e; exact hk (w.idx_slot k i t e ht)

theorem delSubs_fixed_keeps {p p' : Pool} (w : WInv p) {ss : List Sub} (h : delSubs true p ss = some p')
    {i : Nat} {t : Tx} (ht : p.txs[i]? = some (some t)) (hk : ∀ s ∈ ss, s.hash ∉ t.keys) :
    p'.txs[i]? = some (some t) := by
  induction ss generalizing p with
  | nil => simp [delSubs] at h; subst h; exact ht
  | cons s r ih =>
    unfold delSubs at h
    simp only [if_true] at h
    cases h1 : delHash p s.hash with
    | none => rw [h1] at h; cases h
    | some p1 =>
      rw [h1] at h
      exact ih (w.shrinks (delHash_shrinks h1)) h (delHash_keeps w h1 ht (hk s (by simp)))
        (fun s' hs' => hk s' (by simp [hs']))

theorem delTx_fixed_keeps {p p' : Pool} (w : WInv p) {d : Tx} (h : delTx true p d = some p')
    {i : Nat} {t : Tx} (ht : p.txs[i]? = some (some t)) (hk : ∀ k ∈ d.keys, k ∉ t.keys) :
    p'.txs[i]? = some (some t) := by
  unfold delTx at h
  cases h1 : delHash p d.hash with
  | none => rw [h1] at h; cases h
  | some p1 =>
    rw [h1] at h
    refine delSubs_fixed_keeps (w.shrinks (delHash_shrinks h1)) h
      (delHash_keeps w h1 ht (hk _ (by simp [Tx.keys]))) (fun s hs => hk _ ?_)
    simp only [Tx.keys, List.mem_cons, List.mem_map]
    exact Or.inr ⟨s, hs, rfl⟩

/-! ### addTx -/

theorem not_exist_lookup {p : Pool} {t : Tx} (h : isTxExist p t = false) :
    ∀ k ∈ t.keys, lookup p.idx k = none := by
  intro k hk
  unfold isTxExist at h
  rw [List.any_eq_false] at h
  have := h k hk
  cases hl : lookup p.idx k with
  | none => rfl
  | some i => simp [hl] at this

/-- what `addTx` does: nothing (and an error), or a new last slot indexed under all the tx's hashes -/
theorem addTx_cases (p : Pool) (t : Option Tx) :
    ((addTx p t).1 = p ∧ (addTx p t).2 ≠ .ok) ∨
    (∃ tx, t = some tx ∧ (∀ k ∈ tx.keys, lookup p.idx k = none) ∧ (addTx p t).2 = .ok ∧
      (addTx p t).1.txs = p.txs ++ [some tx] ∧
      (∀ k', lookup (addTx p t).1.idx k' = if k' ∈ tx.keys then some p.txs.length else lookup p.idx k')) := by
  cases t with
  | none => left; simp [addTx]
  | some tx =>
    by_cases he : isTxExist p tx = true
    · left; simp [addTx, he]
    · right
      have he' : isTxExist p tx = false := by simpa using he
      refine ⟨tx, rfl, not_exist_lookup he', by simp [addTx, he'], by simp [addTx, he'], fun k' => ?_⟩
      simp only [addTx, he', Bool.false_eq_true, if_false]
      exact lookup_foldl_insert tx.keys p.idx p.txs.length k'

theorem getElem?_snoc_live {l : List (Option Tx)} {x : Option Tx} {i : Nat} {t : Tx}
    (h : (l ++ [x])[i]? = some (some t)) : (i < l.length ∧ l[i]? = some (some t)) ∨ (i = l.length ∧ x = some t) := by
  by_cases hi : i < l.length
  · left; rw [List.getElem?_append_left hi] at h; exact ⟨hi, h⟩
  · right
    rw [List.getElem?_append_right (by omega)] at h
    by_cases h0 : i - l.length = 0
    · rw [h0] at h; simp at h; exact ⟨by omega, h⟩
    · have : ([x] : List (Option Tx))[i - l.length]? = none := by
        apply List.getElem?_eq_none; simp; omega
      rw [this] at h; cases h

theorem addTx_winv {p : Pool} (w : WInv p) (t : Option Tx) : WInv (addTx p t).1 := by
  rcases addTx_cases p t with ⟨h, _⟩ | ⟨tx, _, hfree, _, htxs, hidx⟩
  · rw [h]; exact w
  · refine ⟨fun k i hk => ?_, fun k i x hk hx => ?_⟩
    · rw [hidx] at hk
      rw [htxs, List.length_append]
      by_cases hm : k ∈ tx.keys
      · simp [hm] at hk; simp; omega
      · simp [hm] at hk; have := w.idx_lt k i hk; omega
    · rw [hidx] at hk
      rw [htxs] at hx
      by_cases hm : k ∈ tx.keys
      · simp [hm] at hk
        rcases getElem?_snoc_live hx with ⟨hlt, _⟩ | ⟨_, he⟩
        · omega
        · cases he; exact hm
      · simp [hm] at hk
        rcases getElem?_snoc_live hx with ⟨_, hx'⟩ | ⟨he, _⟩
        · exact w.idx_slot k i x hk hx'
        · have := w.idx_lt k i hk; omega

theorem addTx_inv {p : Pool} (v : Inv p) (t : Option Tx) : Inv (addTx p t).1 := by
  rcases addTx_cases p t with ⟨h, _⟩ | ⟨tx, _, hfree, _, htxs, hidx⟩
  · rw [h]; exact v
  · refine { addTx_winv v.toWInv t with slot_idx := fun i x hx k hk => ?_ }
    rw [htxs] at hx
    rw [hidx]
    rcases getElem?_snoc_live hx with ⟨_, hx'⟩ | ⟨he, hxe⟩
    · have hl := v.slot_idx i x hx' k hk
      by_cases hm : k ∈ tx.keys
      · rw [hfree k hm] at hl; cases hl
      · simp [hm, hl]
    · cases hxe; simp [hk, he]

theorem addTx_live {p : Pool} (t : Option Tx) {i : Nat} {x : Tx} (h : p.txs[i]? = some (some x)) :
    (addTx p t).1.txs[i]? = some (some x) := by
  rcases addTx_cases p t with ⟨e, _⟩ | ⟨tx, _, _, _, htxs, _⟩
  · rw [e]; exact h
  · rw [htxs]
    have hi : i < p.txs.length := by
      rcases Nat.lt_or_ge i p.txs.length with hlt | hge
      · exact hlt
      · rw [List.getElem?_eq_none hge] at h; cases h
    rw [List.getElem?_append_left hi]; exact h

theorem addTx_absent {p : Pool} (t : Option Tx) {k : Hash} (h : lookup p.idx k = none)
    (hk : ∀ tx, t = some tx → k ∉ tx.keys) : lookup (addTx p t).1.idx k = none := by
  rcases addTx_cases p t with ⟨e, _⟩ | ⟨tx, ht, _, _, _, hidx⟩
  · rw [e]; exact h
  · rw [hidx]; simp [hk tx ht, h]

/-- an accepted tx sits in the new last slot -/
theorem addTx_ok_live {p : Pool} {t : Tx} (h : (addTx p (some t)).2 = .ok) :
    (addTx p (some t)).1.txs[p.txs.length]? = some (some t) := by
  rcases addTx_cases p (some t) with ⟨_, e⟩ | ⟨tx, ht, _, _, htxs, _⟩
  · exact absurd h e
  · cases ht; rw [htxs]; simp

theorem addLoop_inv {p : Pool} (v : Inv p) (c : Nat) (ts : List (Option Tx)) : Inv (addLoop p c ts).1 := by
  induction ts generalizing p c with
  | nil => exact v
  | cons t r ih =>
    unfold addLoop
    have := addTx_inv v t
    split <;> rename_i he <;> rw [he] at this <;> exact ih this _

theorem addLoop_winv {p : Pool} (w : WInv p) (c : Nat) (ts : List (Option Tx)) : WInv (addLoop p c ts).1 := by
  induction ts generalizing p c with
  | nil => exact w
  | cons t r ih =>
    unfold addLoop
    have := addTx_winv w t
    split <;> rename_i he <;> rw [he] at this <;> exact ih this _

theorem addLoop_live {p : Pool} (c : Nat) (ts : List (Option Tx)) {i : Nat} {x : Tx}
    (h : p.txs[i]? = some (some x)) : (addLoop p c ts).1.txs[i]? = some (some x) := by
  induction ts generalizing p c with
  | nil => exact h
  | cons t r ih =>
    unfold addLoop
    have := addTx_live t h
    split <;> rename_i he <;> rw [he] at this <;> exact ih _ this

theorem addLoop_absent {p : Pool} (c : Nat) (ts : List (Option Tx)) {k : Hash} (h : lookup p.idx k = none)
    (hk : ∀ tx, some tx ∈ ts → k ∉ tx.keys) : lookup (addLoop p c ts).1.idx k = none := by
  induction ts generalizing p c with
  | nil => exact h
  | cons t r ih =>
    unfold addLoop
    have := addTx_absent t h (fun tx e => hk tx (by simp [e]))
    split <;> rename_i he <;> rw [he] at this <;> exact ih _ this (fun tx e => hk tx (by simp [e]))

/-! ### gc -/

theorem gc_winv {p : Pool} (w : WInv p) : WInv (gc p) := by
  unfold gc; split
  · exact ⟨fun k i h => by simp [lookup] at h, fun k i t h => by simp [lookup] at h⟩
  · exact w

theorem gc_inv {p : Pool} (v : Inv p) : Inv (gc p) := by
  refine { gc_winv v.toWInv with slot_idx := ?_ }
  unfold gc; split
  · intro i t h; simp at h
  · exact v.slot_idx

theorem gc_absent {p : Pool} {k : Hash} (h : lookup p.idx k = none) : lookup (gc p).idx k = none := by
  unfold gc; split
  · rfl
  · exact h

theorem gc_eq_of_lookup {p : Pool} {k : Hash} {i : Nat} (h : lookup p.idx k = some i) : gc p = p := by
  unfold gc; split
  · rename_i he; rw [lookup_of_isEmpty he] at h; cases h
  · rfl

/-! ### the loop of DelTxs -/

theorem delLoop_spec (fixed : Bool) {p : Pool} (w : WInv p) (ds : List (Option Tx)) :
    ∃ p', delLoop fixed p ds = (p', false) ∧ Shrinks p p' := by
  induction ds generalizing p with
  | nil => exact ⟨p, rfl, Shrinks.refl p⟩
  | cons d r ih =>
    cases d with
    | none => unfold delLoop; exact ih w
    | some t =>
      unfold delLoop
      obtain ⟨p1, h1, sh1⟩ := delTx_some (fixed := fixed) w t
      obtain ⟨p2, h2, sh2⟩ := ih (w.shrinks sh1)
      rw [h1]; exact ⟨p2, h2, sh1.trans sh2⟩

theorem delLoop_fixed_inv {p : Pool} (v : Inv p) (ds : List (Option Tx)) : Inv (delLoop true p ds).1 := by
  induction ds generalizing p with
  | nil => exact v
  | cons d r ih =>
    cases d with
    | none => unfold delLoop; exact ih v
    | some t =>
      unfold delLoop
      obtain ⟨p1, h1, _⟩ := delTx_some (fixed := true) v.toWInv t
      rw [h1]; exact ih (delTx_fixed_inv v h1)

theorem delLoop_fixed_absent {p : Pool} (w : WInv p) (ds : List (Option Tx)) {d : Tx} {k : Hash}
    (hd : some d ∈ ds ∨ lookup p.idx k = none) (hk : k ∈ d.keys) : lookup (delLoop true p ds).1.idx k = none := by
  induction ds generalizing p with
  | nil =>
    rcases hd with hd | hd
    · simp at hd
    · exact hd
  | cons x r ih =>
    cases x with
    | none =>
      unfold delLoop
      apply ih w
      rcases hd with hd | hd
      · left; simpa using hd
      · right; exact hd
    | some t =>
      unfold delLoop
      obtain ⟨p1, h1, sh1⟩ := delTx_some (fixed := true) w t
      rw [h1]
      apply ih (w.shrinks sh1)
      rcases hd with hd | hd
      · simp only [List.mem_cons, Option.some.injEq] at hd
        rcases hd with hd | hd
        · right; subst hd; exact delTx_fixed_absent w h1 hk
        · left; exact hd
      · right; exact sh1.absent hd

theorem delLoop_fixed_keeps {p : Pool} (w : WInv p) (ds : List (Option Tx)) {i : Nat} {t : Tx}
    (ht : p.txs[i]? = some (some t)) (hk : ∀ d, some d ∈ ds → ∀ k ∈ d.keys, k ∉ t.keys) :
    (delLoop true p ds).1.txs[i]? = some (some t) := by
  induction ds generalizing p with
  | nil => exact ht
  | cons x r ih =>
    cases x with
    | none => unfold delLoop; exact ih w ht (fun d hd => hk d (by simp [hd]))
    | some d =>
      unfold delLoop
      obtain ⟨p1, h1, sh1⟩ := delTx_some (fixed := true) w d
      rw [h1]
      exact ih (w.shrinks sh1) (delTx_fixed_keeps w h1 ht (hk d (by simp))) (fun d' hd => hk d' (by simp [hd]))

/-! ### the loop of GetTxs -/

/-- the transaction in slot `i`, if the slot is live -/
def slotTx (p : Pool) (i : Nat) : Option Tx := (p.txs[i]?).join

theorem slotTx_eq_some {p : Pool} {i : Nat} {t : Tx} : slotTx p i = some t ↔ p.txs[i]? = some (some t) := by
  unfold slotTx
  cases h : p.txs[i]? with
  | none => simp
  | some o => cases o <;> simp

theorem filterMap_sublist_of_le {α β : Type} (f g : α → Option β) (l : List α)
    (h : ∀ a, f a = g a ∨ f a = none) : (l.filterMap f).Sublist (l.filterMap g) := by
  induction l with
  | nil => simp
  | cons a r ih =>
    rcases h a with e | e
    · simp only [List.filterMap_cons, e]
      cases g a with
      | none => exact ih
      | some b => exact List.Sublist.cons_cons b ih
    · simp only [List.filterMap_cons, e]
      cases g a with
      | none => exact ih
      | some b => exact List.Sublist.cons b ih

theorem Shrinks.slotTx_le {p p' : Pool} (h : Shrinks p p') (i : Nat) : slotTx p' i = slotTx p i ∨ slotTx p' i = none := by
  unfold slotTx
  rcases h.slot i with e | e
  · left; rw [e]
  · right; rw [e]; rfl

/-- no panic; the state only shrinks; the result extends `acc` by live, non-expired transactions of
    the scanned slots, in slot order, each slot at most once -/
theorem getLoop_spec (fixed : Bool) (time size : Nat) (is : List Nat) {p : Pool} (w : WInv p) (acc : List Tx) :
    ∃ p' new, getLoop fixed time size is p acc = (p', acc ++ new, false) ∧ Shrinks p p' ∧
      new.Sublist (is.filterMap (slotTx p)) ∧ ∀ t ∈ new, isTxTimeOut t time = false := by
  induction is generalizing p acc with
  | nil => exact ⟨p, [], by simp [getLoop], Shrinks.refl p, by simp, by simp⟩
  | cons i r ih =>
    unfold getLoop
    cases hs : p.txs[i]? with
    | none =>
      obtain ⟨p', new, h1, h2, h3, h4⟩ := ih w acc
      refine ⟨p', new, h1, h2, ?_, h4⟩
      have : slotTx p i = none := by unfold slotTx; rw [hs]; rfl
      simp only [List.filterMap_cons, this]; exact h3
    | some o =>
      cases o with
      | none =>
        obtain ⟨p', new, h1, h2, h3, h4⟩ := ih w acc
        refine ⟨p', new, h1, h2, ?_, h4⟩
        have : slotTx p i = none := by unfold slotTx; rw [hs]; rfl
        simp only [List.filterMap_cons, this]; exact h3
      | some t =>
        have hst : slotTx p i = some t := slotTx_eq_some.mpr hs
        simp only
        cases hto : isTxTimeOut t time with
        | true =>
          simp only [if_true]
          obtain ⟨p1, h1, sh1⟩ := delTx_some (fixed := fixed) w t
          rw [h1]
          obtain ⟨p', new, g1, g2, g3, g4⟩ := ih (w.shrinks sh1) acc
          refine ⟨p', new, g1, sh1.trans g2, ?_, g4⟩
          simp only [List.filterMap_cons, hst]
          exact List.Sublist.cons t (g3.trans (filterMap_sublist_of_le _ _ r (fun a => sh1.slotTx_le a)))
        | false =>
          simp only [Bool.false_eq_true, if_false]
          split
          · refine ⟨p, [t], rfl, Shrinks.refl p, ?_, by simpa using hto⟩
            simp only [List.filterMap_cons, hst]
            exact List.Sublist.cons_cons t (List.nil_sublist _)
          · obtain ⟨p', new, g1, g2, g3, g4⟩ := ih w (acc ++ [t])
            refine ⟨p', t :: new, by rw [g1]; simp, g2, ?_, ?_⟩
            · simp only [List.filterMap_cons, hst]; exact List.Sublist.cons_cons t g3
            · intro x hx
              simp only [List.mem_cons] at hx
              rcases hx with hx | hx
              · rw [hx]; exact hto
              · exact g4 x hx

theorem getLoop_fixed_inv (time size : Nat) (is : List Nat) {p : Pool} (v : Inv p) (acc : List Tx) :
    Inv (getLoop true time size is p acc).1 := by
  induction is generalizing p acc with
  | nil => exact v
  | cons i r ih =>
    unfold getLoop
    split
    · rename_i t _
      split
      · obtain ⟨p1, h1, _⟩ := delTx_some (fixed := true) v.toWInv t
        rw [h1]; exact ih (delTx_fixed_inv v h1) acc
      · split
        · exact v
        · exact ih v _
    · exact ih v acc

/-- two live transactions sharing a hash are the same slot -/
theorem Inv.disjoint {p : Pool} (v : Inv p) {i j : Nat} {a b : Tx}
    (ha : p.txs[i]? = some (some a)) (hb : p.txs[j]? = some (some b)) {k : Hash}
    (hka : k ∈ a.keys) (hkb : k ∈ b.keys) : i = j := by
  have h1 := v.slot_idx i a ha k hka
  have h2 := v.slot_idx j b hb k hkb
  rw [h1] at h2; cases h2; rfl

/-- a live transaction that is not expired at `time` survives a scan at `time` -/
theorem getLoop_fixed_keeps (time size : Nat) (is : List Nat) {p : Pool} (v : Inv p) (acc : List Tx)
    {i : Nat} {t : Tx} (ht : p.txs[i]? = some (some t)) (hto : isTxTimeOut t time = false) :
    (getLoop true time size is p acc).1.txs[i]? = some (some t) := by
  induction is generalizing p acc with
  | nil => exact ht
  | cons j r ih =>
    unfold getLoop
    split
    · rename_i t' hs
      split
      · rename_i hto'
        obtain ⟨p1, h1, _⟩ := delTx_some (fixed := true) v.toWInv t'
        rw [h1]
        refine ih (delTx_fixed_inv v h1) acc (delTx_fixed_keeps v.toWInv h1 ht ?_)
        intro k hk hk'
        have := v.disjoint hs ht hk hk'
        subst this
        rw [hs] at ht; cases ht
        rw [hto] at hto'; cases hto'
      · split
        · exact ht
        · exact ih v _ ht
    · exact ih v acc ht

theorem slotTx_eq_none_of {p : Pool} {j : Nat} (h : ∀ t, p.txs[j]? = some (some t) → False) : slotTx p j = none := by
  cases e : slotTx p j with
  | none => rfl
  | some t => exact absurd (slotTx_eq_some.mp e) (h t)

/-- a scan whose `size` is at least the number of LIVE slots it can still visit (plus what it already
    collected) hands out every live, non-expired transaction of the slots it visits -/
theorem getLoop_fixed_complete (time size : Nat) (is : List Nat) {p : Pool} (v : Inv p) (acc : List Tx)
    {i : Nat} {t : Tx} (ht : p.txs[i]? = some (some t)) (hto : isTxTimeOut t time = false)
    (hsz : acc.length + (is.filterMap (slotTx p)).length ≤ size) (hmem : t ∈ acc ∨ i ∈ is) :
    t ∈ (getLoop true time size is p acc).2.1 := by
  induction is generalizing p acc with
  | nil =>
    rcases hmem with h | h
    · exact h
    · simp at h
  | cons j r ih =>
    unfold getLoop
    split
    · rename_i t' hs
      have hst : slotTx p j = some t' := slotTx_eq_some.mpr hs
      simp only [List.filterMap_cons, hst, List.length_cons] at hsz
      split
      · rename_i hto'
        obtain ⟨p1, h1, sh1⟩ := delTx_some (fixed := true) v.toWInv t'
        rw [h1]
        have hdis : ∀ k ∈ t'.keys, k ∉ t.keys := by
          intro k hk hk'
          have := v.disjoint hs ht hk hk'
          subst this
          rw [hs] at ht; cases ht
          rw [hto] at hto'; cases hto'
        have hlen := (filterMap_sublist_of_le (slotTx p1) (slotTx p) r (fun a => sh1.slotTx_le a)).length_le
        refine ih (delTx_fixed_inv v h1) acc (delTx_fixed_keeps v.toWInv h1 ht hdis) (by omega) ?_
        rcases hmem with h | h
        · exact Or.inl h
        · simp only [List.mem_cons] at h
          rcases h with h | h
          · subst h; rw [hs] at ht; cases ht; rw [hto] at hto'; cases hto'
          · exact Or.inr h
      · split
        · rename_i hge
          simp only [List.length_append, List.length_cons, List.length_nil] at hge
          rcases hmem with h | h
          · simp [h]
          · simp only [List.mem_cons] at h
            rcases h with h | h
            · subst h; rw [hs] at ht; cases ht; simp
            · have hm : t ∈ r.filterMap (slotTx p) := List.mem_filterMap.mpr ⟨i, h, slotTx_eq_some.mpr ht⟩
              have := List.length_pos_of_mem hm
              omega
        · refine ih v (acc ++ [t']) ht (by simp; omega) ?_
          rcases hmem with h | h
          · left; simp [h]
          · simp only [List.mem_cons] at h
            rcases h with h | h
            · subst h; rw [hs] at ht; cases ht; left; simp
            · exact Or.inr h
    · rename_i hne
      simp only [List.filterMap_cons, slotTx_eq_none_of hne] at hsz
      refine ih v acc ht hsz ?_
      rcases hmem with h | h
      · exact Or.inl h
      · simp only [List.mem_cons] at h
        rcases h with h | h
        · subst h; exact absurd ht (hne t)
        · exact Or.inr h

/-! ### the exported methods -/

theorem range'_filterMap_join (l pre : List (Option Tx)) :
    (List.range' pre.length l.length).filterMap (fun i => ((pre ++ l)[i]?).join) = l.filterMap id := by
  induction l generalizing pre with
  | nil => simp
  | cons a r ih =>
    have h := ih (pre ++ [a])
    simp only [List.length_append, List.length_cons, List.length_nil, List.append_assoc,
      List.singleton_append, Nat.zero_add] at h
    simp only [List.length_cons, List.range'_succ, List.filterMap_cons]
    have e : ((pre ++ a :: r)[pre.length]?).join = a := by simp
    rw [e, h]
    cases a <;> simp

theorem range_filterMap_slotTx (p : Pool) : (List.range p.txs.length).filterMap (slotTx p) = live p := by
  have := range'_filterMap_join p.txs []
  simp only [List.length_nil, List.nil_append] at this
  rw [List.range_eq_range']
  exact this

theorem step_add_fst (fixed : Bool) (p : Pool) (t : Option Tx) : (step fixed p (.add t)).1 = (addTx p t).1 := by
  simp only [step]; split <;> rename_i he <;> simp [he]

theorem step_adds_fst (fixed : Bool) (p : Pool) (ts : List (Option Tx)) :
    (step fixed p (.adds ts)).1 = if ts.isEmpty then p else (addLoop p 0 ts).1 := by
  simp only [step]; split <;> rfl

theorem step_get (fixed : Bool) (p : Pool) (time : Nat) (size : Int) :
    step fixed p (.get time size) = getTxs fixed p time size := rfl

theorem step_del (fixed : Bool) (p : Pool) (ds : List (Option Tx)) :
    step fixed p (.del ds) = delTxs fixed p ds := rfl

theorem getTxs_nonpos (fixed : Bool) (p : Pool) (time : Nat) {size : Int} (h : ¬ 0 < size) :
    (getTxs fixed p time size).1 = p := by
  unfold getTxs
  by_cases h0 : size < 0
  · cases fixed <;> simp [h0]
  · have : size = 0 := by omega
    simp [this]

theorem delTxs_empty (fixed : Bool) (p : Pool) {ds : List (Option Tx)} (h : ds.isEmpty = true) :
    delTxs fixed p ds = (p, .ok) := by
  unfold delTxs; simp [h]

theorem getTxs_spec (fixed : Bool) {p : Pool} (w : WInv p) (time : Nat) {size : Int} (h : 0 < size) :
    ∃ p' l, getTxs fixed p time size = (p', .txs l) ∧
      getLoop fixed time size.toNat (List.range p.txs.length) p [] = (p', l, false) ∧ Shrinks p p' ∧
      l.Sublist (live p) ∧ ∀ t ∈ l, isTxTimeOut t time = false := by
  obtain ⟨p', new, h1, h2, h3, h4⟩ := getLoop_spec fixed time size.toNat (List.range p.txs.length) w []
  simp only [List.nil_append] at h1
  refine ⟨p', new, ?_, h1, h2, ?_, h4⟩
  · unfold getTxs
    have a : ¬ size < 0 := by omega
    have b : ¬ size = 0 := by omega
    simp only [a, b, if_false, h1]
  · rw [← range_filterMap_slotTx]; exact h3

theorem delTxs_spec (fixed : Bool) {p : Pool} (w : WInv p) {ds : List (Option Tx)} (h : ds.isEmpty = false) :
    ∃ p', delLoop fixed p ds = (p', false) ∧ delTxs fixed p ds = (gc p', .ok) ∧ Shrinks p p' := by
  obtain ⟨p', h1, h2⟩ := delLoop_spec fixed w ds
  refine ⟨p', h1, ?_, h2⟩
  unfold delTxs
  simp only [h, Bool.false_eq_true, if_false, h1]

theorem step_winv (fixed : Bool) {p : Pool} (w : WInv p) (op : Op) : WInv (step fixed p op).1 := by
  cases op with
  | add t => rw [step_add_fst]; exact addTx_winv w t
  | adds ts =>
    rw [step_adds_fst]; split
    · exact w
    · exact addLoop_winv w 0 ts
  | get time size =>
    rw [step_get]
    by_cases h : 0 < size
    · obtain ⟨p', l, e, _, sh, _⟩ := getTxs_spec fixed w time h
      rw [e]; exact w.shrinks sh
    · rw [getTxs_nonpos fixed p time h]; exact w
  | del ds =>
    rw [step_del]
    cases h : ds.isEmpty with
    | true => rw [delTxs_empty fixed p h]; exact w
    | false =>
      obtain ⟨p', _, e, sh⟩ := delTxs_spec fixed w h
      rw [e]; exact gc_winv (w.shrinks sh)
  | isEmpty => exact w

theorem step_fixed_inv {p : Pool} (v : Inv p) (op : Op) : Inv (step true p op).1 := by
  cases op with
  | add t => rw [step_add_fst]; exact addTx_inv v t
  | adds ts =>
    rw [step_adds_fst]; split
    · exact v
    · exact addLoop_inv v 0 ts
  | get time size =>
    rw [step_get]
    by_cases h : 0 < size
    · obtain ⟨p', l, e, e2, _, _⟩ := getTxs_spec true v.toWInv time h
      rw [e]
      have := getLoop_fixed_inv time size.toNat (List.range p.txs.length) v []
      rw [e2] at this; exact this
    · rw [getTxs_nonpos true p time h]; exact v
  | del ds =>
    rw [step_del]
    cases h : ds.isEmpty with
    | true => rw [delTxs_empty true p h]; exact v
    | false =>
      obtain ⟨p', e1, e, _⟩ := delTxs_spec true v.toWInv h
      rw [e]
      have := delLoop_fixed_inv v ds
      rw [e1] at this
      exact gc_inv this
  | isEmpty => exact v

theorem runState_cons (fixed : Bool) (p : Pool) (op : Op) (r : List Op) :
    runState fixed p (op :: r) = runState fixed (step fixed p op).1 r := rfl

theorem runState_append (fixed : Bool) (p : Pool) (a b : List Op) :
    runState fixed p (a ++ b) = runState fixed (runState fixed p a) b := by
  unfold runState; rw [List.foldl_append]

theorem runState_winv (fixed : Bool) {p : Pool} (w : WInv p) (ops : List Op) : WInv (runState fixed p ops) := by
  induction ops generalizing p with
  | nil => exact w
  | cons op r ih => rw [runState_cons]; exact ih (step_winv fixed w op)

theorem runState_fixed_inv {p : Pool} (v : Inv p) (ops : List Op) : Inv (runState true p ops) := by
  induction ops generalizing p with
  | nil => exact v
  | cons op r ih => rw [runState_cons]; exact ih (step_fixed_inv v op)

/-- the live transactions of a pool satisfying `Inv` have pairwise disjoint hash sets -/
theorem Inv.live_pairwise {p : Pool} (v : Inv p) :
    (live p).Pairwise (fun a b => ∀ k ∈ a.keys, k ∉ b.keys) := by
  rw [← range_filterMap_slotTx, List.pairwise_filterMap]
  refine List.Pairwise.imp ?_ (List.pairwise_lt_range (n := p.txs.length))
  intro i j hij a ha b hb k hka hkb
  have := v.disjoint (slotTx_eq_some.mp ha) (slotTx_eq_some.mp hb) hka hkb
  omega

theorem mem_live {p : Pool} {t : Tx} : t ∈ live p ↔ ∃ i : Nat, p.txs[i]? = some (some t) := by
  unfold live
  simp only [List.mem_filterMap, id]
  constructor
  · rintro ⟨a, ha, rfl⟩
    obtain ⟨i, hi, e⟩ := List.getElem_of_mem ha
    exact ⟨i, by rw [List.getElem?_eq_getElem hi, e]⟩
  · rintro ⟨i, h⟩
    exact ⟨some t, List.mem_of_getElem? h, rfl⟩

/-! ### the guard under which the code before commit 85d2f65 (`fixed = false`) coincides with the repaired code -/

/-- when `delTx` reaches sub-tx `s` of a deleted box, its hash is not indexed, or only at a slot that is
    already cleared (the box's own slot) -/
def SubsGuard : Pool → List Sub → Prop
  | _, [] => True
  | p, s :: r => (∀ j : Nat, lookup p.idx s.hash = some j → p.txs[j]? = some none) ∧
      SubsGuard { p with idx := erase p.idx s.hash } r

def TxGuard (p : Pool) (d : Tx) : Prop := ∀ p1, delHash p d.hash = some p1 → SubsGuard p1 d.subs

def DelsGuard : Pool → List (Option Tx) → Prop
  | _, [] => True
  | p, none :: r => DelsGuard p r
  | p, some d :: r => TxGuard p d ∧ ∀ p', delTx false p d = some p' → DelsGuard p' r

def OpGuard (p : Pool) : Op → Prop
  | .del ds => DelsGuard p ds
  | .get _ size => 0 ≤ size   -- before commit 6d2038c a negative size panicked
  | _ => True

/-- the guard holds at every `DelTxs` call of the sequence (evaluated along the run of the code before commit 85d2f65, `fixed = false`) -/
def Guarded : Pool → List Op → Prop
  | _, [] => True
  | p, op :: r => OpGuard p op ∧ Guarded (step false p op).1 r

theorem set_none_of_none {l : List (Option Tx)} {j : Nat} (h : l[j]? = some none) : l.set j none = l := by
  apply List.ext_getElem?
  intro i
  rw [List.getElem?_set]
  by_cases e : j = i
  · subst e
    have : j < l.length := by
      rcases Nat.lt_or_ge j l.length with hlt | hge
      · exact hlt
      · rw [List.getElem?_eq_none hge] at h; cases h
    simp only [this, if_true]; exact h.symm
  · simp [e]

theorem delHash_of_guard {p : Pool} {k : Hash} (g : ∀ j, lookup p.idx k = some j → p.txs[j]? = some none) :
    delHash p k = some { p with idx := erase p.idx k } := by
  unfold delHash
  cases hl : lookup p.idx k with
  | none => simp only; rw [erase_of_lookup_none hl]
  | some j =>
    have hj := g j hl
    have : j < p.txs.length := by
      rcases Nat.lt_or_ge j p.txs.length with hlt | hge
      · exact hlt
      · rw [List.getElem?_eq_none hge] at hj; cases hj
    simp only [this, if_true, set_none_of_none hj]

theorem delSubs_eq_of_guard {p : Pool} {ss : List Sub} (g : SubsGuard p ss) :
    delSubs true p ss = delSubs false p ss := by
  induction ss generalizing p with
  | nil => rfl
  | cons s r ih =>
    obtain ⟨g1, g2⟩ := g
    unfold delSubs
    simp only [if_true, Bool.false_eq_true, if_false, delHash_of_guard g1]
    exact ih g2

theorem delTx_eq_of_guard {p : Pool} {d : Tx} (g : TxGuard p d) : delTx true p d = delTx false p d := by
  unfold delTx
  cases h : delHash p d.hash with
  | none => rfl
  | some p1 => exact delSubs_eq_of_guard (g p1 h)

theorem delLoop_eq_of_guard {p : Pool} {ds : List (Option Tx)} (g : DelsGuard p ds) :
    delLoop true p ds = delLoop false p ds := by
  induction ds generalizing p with
  | nil => rfl
  | cons d r ih =>
    cases d with
    | none => unfold delLoop; exact ih g
    | some t =>
      obtain ⟨g1, g2⟩ := g
      unfold delLoop
      rw [delTx_eq_of_guard g1]
      cases h : delTx false p t with
      | none => rfl
      | some p' => exact ih (g2 p' h)

theorem subsGuard_of_forall {p : Pool} {ss : List Sub}
    (h : ∀ s ∈ ss, ∀ j, lookup p.idx s.hash = some j → p.txs[j]? = some none) : SubsGuard p ss := by
  induction ss generalizing p with
  | nil => trivial
  | cons s r ih =>
    refine ⟨h s (by simp), ih (fun s' hs' j hj => ?_)⟩
    simp only [lookup_erase] at hj
    split at hj
    · cases hj
    · exact h s' (by simp [hs']) j hj

theorem delHash_clears {p p' : Pool} {k : Hash} {i : Nat} (h : delHash p k = some p')
    (hl : lookup p.idx k = some i) : p'.txs[i]? = some none := by
  unfold delHash at h
  rw [hl] at h
  simp only at h
  split at h
  · cases h; rename_i hlt; simp [hlt]
  · cases h

/-- simple sufficient condition: every sub-tx hash of the deleted tx is either not indexed or indexed at
    the same slot as the tx itself (i.e. the box is pooled and owns its sub-tx entries, or nothing of it
    is pooled). What it excludes: a box that is NOT pooled while one of its sub-txs IS (standalone or in
    another box). -/
theorem txGuard_of_own_slot {p : Pool} {d : Tx}
    (h : ∀ s ∈ d.subs, lookup p.idx s.hash = none ∨ lookup p.idx s.hash = lookup p.idx d.hash) : TxGuard p d := by
  intro p1 h1
  apply subsGuard_of_forall
  intro s hs j hj
  have hj0 := (delHash_shrinks h1).lookup hj
  rcases h s hs with e | e
  · rw [e] at hj0; cases hj0
  · rw [e] at hj0; exact delHash_clears h1 hj0

/-- deleting a transaction that sits in a live slot always satisfies the guard (under `Inv`) -/
theorem txGuard_of_live {p : Pool} (v : Inv p) {i : Nat} {t : Tx} (ht : p.txs[i]? = some (some t)) : TxGuard p t := by
  apply txGuard_of_own_slot
  intro s hs
  right
  rw [v.slot_idx i t ht s.hash (by simp only [Tx.keys, List.mem_cons, List.mem_map]; exact Or.inr ⟨s, hs, rfl⟩),
    v.slot_idx i t ht t.hash (by simp [Tx.keys])]

theorem getLoop_eq_of_inv (time size : Nat) (is : List Nat) {p : Pool} (v : Inv p) (acc : List Tx) :
    getLoop true time size is p acc = getLoop false time size is p acc := by
  induction is generalizing p acc with
  | nil => rfl
  | cons i r ih =>
    unfold getLoop
    split
    · rename_i t hs
      split
      · rw [← delTx_eq_of_guard (txGuard_of_live v hs)]
        cases h : delTx true p t with
        | none => rfl
        | some p' => exact ih (delTx_fixed_inv v h) acc
      · split
        · rfl
        · exact ih v _
    · exact ih v acc

theorem step_eq_of_guard {p : Pool} (v : Inv p) {op : Op} (g : OpGuard p op) : step true p op = step false p op := by
  cases op with
  | add t => rfl
  | adds ts => rfl
  | isEmpty => rfl
  | get time size =>
    have g' : ¬ size < 0 := by have : 0 ≤ size := g; omega
    rw [step_get, step_get]; unfold getTxs
    simp only [g', if_false]
    rw [getLoop_eq_of_inv time size.toNat _ v []]
  | del ds =>
    rw [step_del, step_del]; unfold delTxs
    rw [delLoop_eq_of_guard g]

theorem run_eq_of_guarded {p : Pool} (v : Inv p) {ops : List Op} (g : Guarded p ops) :
    runState false p ops = runState true p ops ∧ runOut false p ops = runOut true p ops := by
  induction ops generalizing p with
  | nil => exact ⟨rfl, rfl⟩
  | cons op r ih =>
    obtain ⟨g1, g2⟩ := g
    have e := step_eq_of_guard v g1
    have v' := step_fixed_inv v op
    rw [e] at v'
    obtain ⟨h1, h2⟩ := ih v' g2
    constructor
    · rw [runState_cons, runState_cons, e]; exact h1
    · simp only [runOut, e]; rw [h2]

/-! ### vocabulary of the property statements -/

/-- the call (re-)adds a transaction that owns hash `k` (its own hash or a sub-tx hash) -/
def addsKey (k : Hash) : Op → Prop
  | .add (some t) => k ∈ t.keys
  | .adds ts => ∃ t, some t ∈ ts ∧ k ∈ t.keys
  | _ => False

/-- the call tells the pool to delete `t`: a `DelTxs` with a transaction that shares a hash with `t`
    (`t` itself, a box containing `t`, or a sub-tx of the box `t`) -/
def touches (t : Tx) : Op → Prop
  | .del ds => ∃ d, some d ∈ ds ∧ ∃ k ∈ d.keys, k ∈ t.keys
  | _ => False

/-- the call is a scanning `GetTxs` at a time at which `t` is expired -/
def expires (t : Tx) : Op → Prop
  | .get time size => 0 < size ∧ isTxTimeOut t time = true
  | _ => False

def KeysDisjoint (a b : Tx) : Prop := ∀ k ∈ a.keys, k ∉ b.keys

/-! ### per-call facts from an arbitrary state -/

theorem get_pairwise {p : Pool} (v : Inv p) {time : Nat} {size : Int} {l : List Tx}
    (h : (step true p (.get time size)).2 = .txs l) : l.Pairwise KeysDisjoint := by
  rw [step_get] at h
  by_cases hs : 0 < size
  · obtain ⟨p', l', e, _, _, hsub, _⟩ := getTxs_spec true v.toWInv time hs
    rw [e] at h; cases h
    exact List.Pairwise.sublist hsub v.live_pairwise
  · unfold getTxs at h
    by_cases h0 : size < 0
    · simp [h0] at h; subst h; exact List.Pairwise.nil
    · have : size = 0 := by omega
      simp [this] at h; subst h; exact List.Pairwise.nil

theorem get_sub_live (fixed : Bool) {p : Pool} (w : WInv p) {time : Nat} {size : Int} {l : List Tx}
    (h : (step fixed p (.get time size)).2 = .txs l) :
    l.Sublist (live p) ∧ ∀ t ∈ l, isTxTimeOut t time = false := by
  rw [step_get] at h
  by_cases hs : 0 < size
  · obtain ⟨p', l', e, _, _, hsub, hto⟩ := getTxs_spec fixed w time hs
    rw [e] at h; cases h
    exact ⟨hsub, hto⟩
  · unfold getTxs at h
    by_cases h0 : size < 0
    · cases fixed
      · simp [h0] at h
      · simp [h0] at h; subst h; exact ⟨List.nil_sublist _, by simp⟩
    · have : size = 0 := by omega
      simp [this] at h; subst h; exact ⟨List.nil_sublist _, by simp⟩

theorem live_absent {p : Pool} (v : Inv p) {k : Hash} (hk : lookup p.idx k = none) :
    ∀ t ∈ live p, k ∉ t.keys := by
  intro t ht hkt
  obtain ⟨i, hi⟩ := mem_live.mp ht
  rw [v.slot_idx i t hi k hkt] at hk; cases hk

theorem get_complete {p : Pool} (v : Inv p) {i : Nat} {t : Tx} (ht : p.txs[i]? = some (some t))
    {time : Nat} {size : Int} (hto : isTxTimeOut t time = false) (hsz : ((live p).length : Int) ≤ size)
    {l : List Tx} (h : (step true p (.get time size)).2 = .txs l) : t ∈ l := by
  have hi : i < p.txs.length := by
    rcases Nat.lt_or_ge i p.txs.length with hlt | hge
    · exact hlt
    · rw [List.getElem?_eq_none hge] at ht; cases ht
  have hpos : 0 < (live p).length := List.length_pos_of_mem (mem_live.mpr ⟨i, ht⟩)
  have hs : 0 < size := by omega
  rw [step_get] at h
  obtain ⟨p', l', e, e2, _, _, _⟩ := getTxs_spec true v.toWInv time hs
  rw [e] at h; cases h
  have := getLoop_fixed_complete time size.toNat (List.range p.txs.length) v [] ht hto
    (by rw [range_filterMap_slotTx]; simp; omega) (Or.inr (List.mem_range.mpr hi))
  rw [e2] at this; exact this

theorem step_absent (fixed : Bool) {p : Pool} (w : WInv p) {k : Hash} (hk : lookup p.idx k = none)
    {op : Op} (hop : ¬ addsKey k op) : lookup (step fixed p op).1.idx k = none := by
  cases op with
  | add t =>
    rw [step_add_fst]
    exact addTx_absent t hk (fun tx e hkt => hop (by subst e; exact hkt))
  | adds ts =>
    rw [step_adds_fst]; split
    · exact hk
    · exact addLoop_absent 0 ts hk (fun tx e hkt => hop ⟨tx, e, hkt⟩)
  | get time size =>
    rw [step_get]
    by_cases h : 0 < size
    · obtain ⟨p', l, e, _, sh, _⟩ := getTxs_spec fixed w time h
      rw [e]; exact sh.absent hk
    · rw [getTxs_nonpos fixed p time h]; exact hk
  | del ds =>
    rw [step_del]
    cases h : ds.isEmpty with
    | true => rw [delTxs_empty fixed p h]; exact hk
    | false =>
      obtain ⟨p', _, e, sh⟩ := delTxs_spec fixed w h
      rw [e]; exact gc_absent (sh.absent hk)
  | isEmpty => exact hk

theorem runState_absent (fixed : Bool) {p : Pool} (w : WInv p) {k : Hash} (hk : lookup p.idx k = none)
    {ops : List Op} (hop : ∀ op ∈ ops, ¬ addsKey k op) : lookup (runState fixed p ops).idx k = none := by
  induction ops generalizing p with
  | nil => exact hk
  | cons op r ih =>
    rw [runState_cons]
    exact ih (step_winv fixed w op) (step_absent fixed w hk (hop op (by simp))) (fun o ho => hop o (by simp [ho]))

/-- after `DelTxs(ds)` (repaired) no hash of any listed transaction is indexed -/
theorem del_absent {p : Pool} (w : WInv p) {ds : List (Option Tx)} {d : Tx} (hd : some d ∈ ds)
    {k : Hash} (hk : k ∈ d.keys) : lookup (step true p (.del ds)).1.idx k = none := by
  rw [step_del]
  have hne : ds.isEmpty = false := by cases ds with | nil => simp at hd | cons _ _ => rfl
  obtain ⟨p', e1, e, _⟩ := delTxs_spec true w hne
  rw [e]
  have := delLoop_fixed_absent w ds (Or.inl hd) hk
  rw [e1] at this
  exact gc_absent this

theorem step_fixed_keeps {p : Pool} (v : Inv p) {i : Nat} {t : Tx} (ht : p.txs[i]? = some (some t))
    {op : Op} (h1 : ¬ touches t op) (h2 : ¬ expires t op) : (step true p op).1.txs[i]? = some (some t) := by
  cases op with
  | add x => rw [step_add_fst]; exact addTx_live x ht
  | adds ts =>
    rw [step_adds_fst]; split
    · exact ht
    · exact addLoop_live 0 ts ht
  | get time size =>
    rw [step_get]
    by_cases h : 0 < size
    · obtain ⟨p', l, e, e2, _, _⟩ := getTxs_spec true v.toWInv time h
      rw [e]
      have hto : isTxTimeOut t time = false := by
        cases hx : isTxTimeOut t time with
        | false => rfl
        | true => exact absurd ⟨h, hx⟩ h2
      have := getLoop_fixed_keeps time size.toNat (List.range p.txs.length) v [] ht hto
      rw [e2] at this; exact this
    · rw [getTxs_nonpos true p time h]; exact ht
  | del ds =>
    rw [step_del]
    cases h : ds.isEmpty with
    | true => rw [delTxs_empty true p h]; exact ht
    | false =>
      obtain ⟨p', e1, e, _⟩ := delTxs_spec true v.toWInv h
      rw [e]
      have hk := delLoop_fixed_keeps v.toWInv ds ht (fun d hd k hkd hkt => h1 ⟨d, hd, k, hkd, hkt⟩)
      have hv := delLoop_fixed_inv v ds
      rw [e1] at hk hv
      rw [gc_eq_of_lookup (hv.slot_idx i t hk t.hash (by simp [Tx.keys]))]
      exact hk
  | isEmpty => exact ht

theorem runState_fixed_keeps {p : Pool} (v : Inv p) {i : Nat} {t : Tx} (ht : p.txs[i]? = some (some t))
    {ops : List Op} (h : ∀ op ∈ ops, ¬ touches t op ∧ ¬ expires t op) :
    (runState true p ops).txs[i]? = some (some t) := by
  induction ops generalizing p with
  | nil => exact ht
  | cons op r ih =>
    rw [runState_cons]
    exact ih (step_fixed_inv v op) (step_fixed_keeps v ht (h op (by simp)).1 (h op (by simp)).2)
      (fun o ho => h o (by simp [ho]))

/-- `AddTxs` makes a listed transaction pending if none of its hashes is indexed yet and no other
    listed transaction shares a hash with it -/
theorem addLoop_accepts {p : Pool} (c : Nat) (ts : List (Option Tx)) {t : Tx} (ht : some t ∈ ts)
    (hfree : ∀ k ∈ t.keys, lookup p.idx k = none)
    (hdis : ∀ t', some t' ∈ ts → t' ≠ t → KeysDisjoint t t') : t ∈ live (addLoop p c ts).1 := by
  induction ts generalizing p c with
  | nil => simp at ht
  | cons x r ih =>
    by_cases hx : x = some t
    · subst hx
      have hok : (addTx p (some t)).2 = .ok := by
        rcases addTx_cases p (some t) with ⟨_, _⟩ | ⟨tx, e, _, h, _⟩
        · have he : isTxExist p t = false := by
            unfold isTxExist
            rw [List.any_eq_false]
            intro k hk; simp [hfree k hk]
          simp [addTx, he]
        · exact h
      have hl := addTx_ok_live hok
      unfold addLoop
      rw [mem_live]
      refine ⟨p.txs.length, ?_⟩
      split <;> rename_i he <;> rw [he] at hl <;> exact addLoop_live _ r hl
    · have ht' : some t ∈ r := by
        simp only [List.mem_cons] at ht
        rcases ht with e | e
        · exact absurd e.symm hx
        · exact e
      have hfree' : ∀ k ∈ t.keys, lookup (addTx p x).1.idx k = none := by
        intro k hk
        apply addTx_absent x (hfree k hk)
        intro tx e hkt
        have hne : tx ≠ t := fun e' => hx (by rw [e, e'])
        exact hdis tx (by simp [e]) hne k hk hkt
      unfold addLoop
      split <;> rename_i he <;> rw [he] at hfree' <;>
        exact ih _ ht' hfree' (fun t' h' => hdis t' (by simp [h']))

/-! ### stale index entries

  The current `delTx` (after commit 85d2f65) clears the slot a hash is indexed at, but removes only the index
  entries of the hashes of the DELETED transaction. If the cleared slot held a different transaction — a
  pooled box of which the deleted tx is a sub-tx, or a pooled box sharing a sub-tx with the deleted box —
  that transaction's other index entries stay behind, pointing at a cleared slot ("stale").  The code comment
  in `delTx` acknowledges it and tx_pool_test.go pins it; see the `_refuted` theorems in C18.lean. -/

/-- no index entry points at a cleared slot -/
def NoStale (p : Pool) : Prop := ∀ k i, lookup p.idx k = some i → ∃ t, p.txs[i]? = some (some t)

/-- `delTx d` removes whole transactions only: every pooled transaction it hits through one of `d`'s hashes
    has all its hashes among `d`'s. Violated exactly by: deleting a sub-tx of a pooled box (without the box),
    or deleting a box that shares a sub-tx with a different pooled box. -/
def CleanDel (p : Pool) (d : Tx) : Prop :=
  ∀ k ∈ d.keys, ∀ i x, lookup p.idx k = some i → p.txs[i]? = some (some x) → ∀ k' ∈ x.keys, k' ∈ d.keys

def CleanDels : Pool → List (Option Tx) → Prop
  | _, [] => True
  | p, none :: r => CleanDels p r
  | p, some d :: r => CleanDel p d ∧ ∀ p', delTx true p d = some p' → CleanDels p' r

def CleanOp (p : Pool) : Op → Prop
  | .del ds => CleanDels p ds
  | _ => True

/-- every `DelTxs` of the call sequence removes whole transactions only (evaluated along the run of the
    current code) -/
def CleanRun : Pool → List Op → Prop
  | _, [] => True
  | p, op :: r => CleanOp p op ∧ CleanRun (step true p op).1 r

theorem noStale_new : NoStale newPool := fun k i h => by simp [newPool, lookup] at h

theorem addTx_noStale {p : Pool} (h : NoStale p) (t : Option Tx) : NoStale (addTx p t).1 := by
  rcases addTx_cases p t with ⟨e, _⟩ | ⟨tx, _, _, _, htxs, hidx⟩
  · rw [e]; exact h
  · intro k i hk
    rw [hidx] at hk
    rw [htxs]
    by_cases hm : k ∈ tx.keys
    · simp [hm] at hk; subst hk; exact ⟨tx, by simp⟩
    · simp [hm] at hk
      obtain ⟨x, hx⟩ := h k i hk
      have hi : i < p.txs.length := by
        rcases Nat.lt_or_ge i p.txs.length with hlt | hge
        · exact hlt
        · rw [List.getElem?_eq_none hge] at hx; cases hx
      exact ⟨x, by rw [List.getElem?_append_left hi]; exact hx⟩

theorem addLoop_noStale {p : Pool} (h : NoStale p) (c : Nat) (ts : List (Option Tx)) : NoStale (addLoop p c ts).1 := by
  induction ts generalizing p c with
  | nil => exact h
  | cons t r ih =>
    unfold addLoop
    have := addTx_noStale h t
    split <;> rename_i he <;> rw [he] at this <;> exact ih this _

theorem gc_noStale {p : Pool} (h : NoStale p) : NoStale (gc p) := by
  unfold gc; split
  · intro k i hk; simp [lookup] at hk
  · exact h

theorem delHash_cleared_cause {p p' : Pool} {k : Hash} (h : delHash p k = some p') {i : Nat} {x : Tx}
    (hx : p.txs[i]? = some (some x)) (hx' : p'.txs[i]? ≠ some (some x)) : lookup p.idx k = some i := by
  by_cases e : lookup p.idx k = some i
  · exact e
  · rw [delHash_slot h i e] at hx'; exact absurd hx hx'

theorem delSubs_fixed_cleared_cause {p q : Pool} (w : WInv p) {ss : List Sub} (h : delSubs true p ss = some q)
    {i : Nat} {x : Tx} (hx : p.txs[i]? = some (some x)) (hx' : q.txs[i]? ≠ some (some x)) :
    ∃ s ∈ ss, lookup p.idx s.hash = some i := by
  induction ss generalizing p with
  | nil => simp [delSubs] at h; subst h; exact absurd hx hx'
  | cons s r ih =>
    unfold delSubs at h
    simp only [if_true] at h
    cases h1 : delHash p s.hash with
    | none => rw [h1] at h; cases h
    | some p1 =>
      rw [h1] at h
      by_cases e : p1.txs[i]? = some (some x)
      · obtain ⟨s', hs', hl⟩ := ih (w.shrinks (delHash_shrinks h1)) h e
        exact ⟨s', by simp [hs'], (delHash_shrinks h1).lookup hl⟩
      · exact ⟨s, by simp, delHash_cleared_cause h1 hx e⟩

theorem delTx_fixed_cleared_cause {p q : Pool} (w : WInv p) {d : Tx} (h : delTx true p d = some q)
    {i : Nat} {x : Tx} (hx : p.txs[i]? = some (some x)) (hx' : q.txs[i]? ≠ some (some x)) :
    ∃ k ∈ d.keys, lookup p.idx k = some i := by
  unfold delTx at h
  cases h1 : delHash p d.hash with
  | none => rw [h1] at h; cases h
  | some p1 =>
    rw [h1] at h
    by_cases e : p1.txs[i]? = some (some x)
    · obtain ⟨s, hs, hl⟩ := delSubs_fixed_cleared_cause (w.shrinks (delHash_shrinks h1)) h e hx'
      refine ⟨s.hash, ?_, (delHash_shrinks h1).lookup hl⟩
      simp only [Tx.keys, List.mem_cons, List.mem_map]
      exact Or.inr ⟨s, hs, rfl⟩
    · exact ⟨d.hash, by simp [Tx.keys], delHash_cleared_cause h1 hx e⟩

theorem delTx_fixed_noStale {p q : Pool} (v : Inv p) (hn : NoStale p) {d : Tx} (hc : CleanDel p d)
    (h : delTx true p d = some q) : NoStale q := by
  have sh := delTx_shrinks v.toWInv h
  intro k' i hq
  have hp := sh.lookup hq
  obtain ⟨x, hx⟩ := hn k' i hp
  by_cases e : q.txs[i]? = some (some x)
  · exact ⟨x, e⟩
  · exfalso
    obtain ⟨k, hk, hl⟩ := delTx_fixed_cleared_cause v.toWInv h hx e
    have hk' : k' ∈ d.keys := hc k hk i x hl hx k' (v.idx_slot k' i x hp hx)
    rw [delTx_fixed_absent v.toWInv h hk'] at hq; cases hq

/-- deleting a transaction that sits in a live slot removes a whole transaction -/
theorem cleanDel_of_live {p : Pool} (v : Inv p) {j : Nat} {t : Tx} (ht : p.txs[j]? = some (some t)) : CleanDel p t := by
  intro k hk i x hl hx k' hk'
  have : lookup p.idx k = some j := v.slot_idx j t ht k hk
  rw [this] at hl; cases hl
  rw [ht] at hx; cases hx
  exact hk'

theorem delLoop_fixed_noStale {p : Pool} (v : Inv p) (hn : NoStale p) {ds : List (Option Tx)} (hc : CleanDels p ds) :
    NoStale (delLoop true p ds).1 := by
  induction ds generalizing p with
  | nil => exact hn
  | cons d r ih =>
    cases d with
    | none => unfold delLoop; exact ih v hn hc
    | some t =>
      obtain ⟨c1, c2⟩ := hc
      unfold delLoop
      obtain ⟨p1, h1, _⟩ := delTx_some (fixed := true) v.toWInv t
      rw [h1]
      exact ih (delTx_fixed_inv v h1) (delTx_fixed_noStale v hn c1 h1) (c2 p1 h1)

theorem getLoop_fixed_noStale (time size : Nat) (is : List Nat) {p : Pool} (v : Inv p) (hn : NoStale p) (acc : List Tx) :
    NoStale (getLoop true time size is p acc).1 := by
  induction is generalizing p acc with
  | nil => exact hn
  | cons i r ih =>
    unfold getLoop
    split
    · rename_i t hs
      split
      · obtain ⟨p1, h1, _⟩ := delTx_some (fixed := true) v.toWInv t
        rw [h1]
        exact ih (delTx_fixed_inv v h1) (delTx_fixed_noStale v hn (cleanDel_of_live v hs) h1) acc
      · split
        · exact hn
        · exact ih v hn _
    · exact ih v hn acc

theorem step_fixed_noStale {p : Pool} (v : Inv p) (hn : NoStale p) {op : Op} (hc : CleanOp p op) :
    NoStale (step true p op).1 := by
  cases op with
  | add t => rw [step_add_fst]; exact addTx_noStale hn t
  | adds ts =>
    rw [step_adds_fst]; split
    · exact hn
    · exact addLoop_noStale hn 0 ts
  | get time size =>
    rw [step_get]
    by_cases h : 0 < size
    · obtain ⟨p', l, e, e2, _, _⟩ := getTxs_spec true v.toWInv time h
      rw [e]
      have := getLoop_fixed_noStale time size.toNat (List.range p.txs.length) v hn []
      rw [e2] at this; exact this
    · rw [getTxs_nonpos true p time h]; exact hn
  | del ds =>
    rw [step_del]
    cases h : ds.isEmpty with
    | true => rw [delTxs_empty true p h]; exact hn
    | false =>
      obtain ⟨p', e1, e, _⟩ := delTxs_spec true v.toWInv h
      rw [e]
      have := delLoop_fixed_noStale v hn (ds := ds) hc
      rw [e1] at this
      exact gc_noStale this
  | isEmpty => exact hn

theorem runState_fixed_noStale {p : Pool} (v : Inv p) (hn : NoStale p) {ops : List Op} (hc : CleanRun p ops) :
    NoStale (runState true p ops) := by
  induction ops generalizing p with
  | nil => exact hn
  | cons op r ih =>
    rw [runState_cons]
    exact ih (step_fixed_inv v op) (step_fixed_noStale v hn hc.1) hc.2

/-- without stale entries the index describes exactly the pending set -/
theorem indexed_iff_pending {p : Pool} (v : Inv p) (hn : NoStale p) (k : Hash) :
    lookup p.idx k = none ↔ ∀ x ∈ live p, k ∉ x.keys := by
  constructor
  · exact live_absent v
  · intro h
    cases e : lookup p.idx k with
    | none => rfl
    | some i =>
      obtain ⟨x, hx⟩ := hn k i e
      exact absurd (v.idx_slot k i x e hx) (h x (mem_live.mpr ⟨i, hx⟩))

theorem isEmpty_iff_live_nil {p : Pool} (v : Inv p) (hn : NoStale p) : isEmpty p = true ↔ live p = [] := by
  constructor
  · intro h
    cases e : live p with
    | nil => rfl
    | cons x r =>
      exfalso
      have hx : x ∈ live p := by rw [e]; simp
      obtain ⟨i, hi⟩ := mem_live.mp hx
      have := v.slot_idx i x hi x.hash (by simp [Tx.keys])
      rw [lookup_of_isEmpty h] at this; cases this
  · intro h
    unfold isEmpty
    cases e : p.idx with
    | nil => rfl
    | cons kv r =>
      exfalso
      obtain ⟨k, i⟩ := kv
      have hl : lookup p.idx k = some i := by rw [e]; simp [lookup]
      obtain ⟨x, hx⟩ := hn k i hl
      have : x ∈ live p := mem_live.mpr ⟨i, hx⟩
      rw [h] at this; simp at this

end LemoProofs.PoolLemmas

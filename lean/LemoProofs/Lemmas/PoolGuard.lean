/-
  C04 × C18: lemmas for the combined machine pool × guard (LemoModel/PoolGuard.lean).
  Part 1: conversions, `ExistTxs` in tracer form (`Traced`), the chain the code walks under SaveBlock /
  DelOldBlocks, the two-cursor walk of getBlocksByBranch as two paths, the pool calls.
-/
import LemoModel.PoolGuard
import LemoProofs.Lemmas.Pool
import LemoProofs.C04
namespace LemoProofs.PoolGuardLemmas
open LemoModel LemoModel.TxGuard LemoModel.PoolGuard LemoProofs.TxGuardLemmas

/-! ### pool transaction ↔ block transaction -/

theorem toPool_keys (t : Tx) : (toPool t).keys = t.ids := by
  simp [toPool, Pool.Tx.keys, Tx.ids, List.map_map, Function.comp_def]

theorem ofPool_ids (t : PTx) : (ofPool t).ids = t.keys := by
  simp [ofPool, Pool.Tx.keys, Tx.ids, List.map_map, Function.comp_def]

theorem idsOf_single (tx : Tx) : idsOf [tx] = tx.ids := by simp [idsOf]

theorem idsOf_map_ofPool (l : List PTx) : idsOf (l.map ofPool) = l.flatMap Pool.Tx.keys := by
  induction l with
  | nil => rfl
  | cons t r ih =>
    simp only [List.map_cons, idsOf, List.flatMap_cons] at ih ⊢
    rw [ih, ofPool_ids]

theorem validAt_ofPool_toPool (tx : Tx) (t : Nat) : (ofPool (toPool tx)).validAt t = tx.validAt t := by
  simp [ofPool, toPool, Tx.validAt, List.all_map, Function.comp_def]

/-- `ExistTxs` reads the hashes of its argument only -/
theorem existTxs_congr (g : Guard) (h : Nat) {a b : List Tx} (hid : idsOf a = idsOf b) :
    g.existTxs h a = g.existTxs h b := by
  unfold Guard.existTxs loadTraces; rw [hid]

theorem existTxs_ofPool_toPool (g : Guard) (h : Nat) (tx : Tx) :
    g.existTxs h [ofPool (toPool tx)] = g.existTxs h [tx] :=
  existTxs_congr g h (by rw [idsOf_single, idsOf_single, ofPool_ids, toPool_keys])

/-! ### `ExistTxs` in tracer form -/

/-- some hash of `ids` is traced to a block of the chain the code walks from `pb` -/
def Traced (g : Guard) (pb : Block) (ids : List Nat) : Prop :=
  ∃ a, CAnc g.cache pb a ∧ ∃ id ∈ ids, (id, a.hash) ∈ g.tracer

/-- a saved block shares no hash with the blocks the code walks below it (what `verifyTxs` checked when it arrived,
    or what the miner's candidates satisfied) -/
def BlockClean (g : Guard) (b : Block) : Prop :=
  ∀ a, CAnc g.cache b a → a ≠ b → ∀ id ∈ b.ids, (id, a.hash) ∉ g.tracer

theorem exist_traced {g : Guard} {U : List Block} {K : List Nat} {T : Nat} (inv : TxGuardLemmas.Inv g U K T)
    (tree : TreeOK U) {pb : Block} (hpb : pb ∈ g.cache) (txs : List Tx) :
    ∃ r, g.existTxs pb.hash txs = .ok r ∧ (r = true ↔ Traced g pb (idsOf txs)) :=
  exist_tracer inv tree hpb txs

theorem exist_false_iff {g : Guard} {U : List Block} {K : List Nat} {T : Nat} (inv : TxGuardLemmas.Inv g U K T)
    (tree : TreeOK U) {pb : Block} (hpb : pb ∈ g.cache) (txs : List Tx) :
    g.existTxs pb.hash txs = .ok false ↔ ¬ Traced g pb (idsOf txs) := by
  obtain ⟨r, hr, hiff⟩ := exist_traced inv tree hpb txs
  rw [hr]
  constructor
  · intro h ht
    have : r = false := by injection h
    rw [this] at hiff
    exact absurd (hiff.2 ht) (by simp)
  · intro h
    cases r with
    | false => rfl
    | true => exact absurd (hiff.1 rfl) h

theorem exist_true_iff {g : Guard} {U : List Block} {K : List Nat} {T : Nat} (inv : TxGuardLemmas.Inv g U K T)
    (tree : TreeOK U) {pb : Block} (hpb : pb ∈ g.cache) (txs : List Tx) :
    g.existTxs pb.hash txs = .ok true ↔ Traced g pb (idsOf txs) := by
  obtain ⟨r, hr, hiff⟩ := exist_traced inv tree hpb txs
  rw [hr]
  constructor
  · intro h
    have : r = true := by injection h
    exact hiff.1 this
  · intro h
    rw [hiff.2 h]

theorem traced_mono_ids {g : Guard} {pb : Block} {ids ids' : List Nat} (hsub : ∀ id ∈ ids, id ∈ ids')
    (h : Traced g pb ids) : Traced g pb ids' := by
  obtain ⟨a, hca, id, hid, hp⟩ := h
  exact ⟨a, hca, id, hsub id hid, hp⟩

/-! ### the chain the code walks, under changes of the cache -/

theorem canc_mono {c c' : Cache} (h : ∀ k b, cacheGet c k = some b → cacheGet c' k = some b) {x a : Block}
    (hc : CAnc c x a) : CAnc c' x a := by
  induction hc with
  | self b => exact CAnc.self b
  | step hg _ ih => exact CAnc.step (h _ _ hg) ih

theorem canc_hash_le {c : Cache} (hlt : ∀ x ∈ c, x.parent < x.hash) {x a : Block} (hc : CAnc c x a) :
    x ∈ c → a.hash ≤ x.hash := by
  induction hc with
  | self b => intro _; exact Nat.le_refl _
  | @step b pb a hg _ ih =>
    intro hb
    have hp := cacheGet_some hg
    have := ih hp.1
    have := hlt b hb
    omega

/-- a sub-cache of a hash-functional cache resolves parents the same way -/
theorem cacheGet_of_sub {c c' : Cache} (hfun : ∀ a ∈ c, ∀ a' ∈ c, a.hash = a'.hash → a = a')
    (hsub : ∀ x ∈ c', x ∈ c) {k : Nat} {b : Block} (h : cacheGet c' k = some b) : cacheGet c k = some b := by
  have hb := cacheGet_some h
  rw [← hb.2]
  exact cacheGet_eq hfun (hsub b hb.1)

/-- what a successful `SaveBlock` does to cache and tracer (the bucket error branch leaves the guard as it is) -/
theorem saveBlock_cases {g g1 : Guard} {b : Block} (h : g.saveBlock b = .ok g1) :
    (g1 = g ∧ b.time / 60 < g.tb.timeBase / 60) ∨
    (g1.cache = cacheAdd g.cache b ∧ g1.tracer = b.txs.foldl (fun t tx => addTrace t tx b.hash) g.tracer ∧
      g.tb.timeBase / 60 ≤ b.time / 60) := by
  unfold Guard.saveBlock at h
  cases hadd : g.tb.add b.time b.hash with
  | errTime =>
    rw [hadd] at h
    left
    refine ⟨?_, (add_errTime_iff _ _ _).1 hadd⟩
    injection h with h; exact h.symm
  | panic => rw [hadd] at h; cases h
  | ok tb' =>
    rw [hadd] at h
    right
    injection h with h
    subst h
    refine ⟨rfl, rfl, ?_⟩
    apply Nat.le_of_not_lt
    intro hlt
    rw [(add_errTime_iff _ _ _).2 hlt] at hadd
    cases hadd

/-- the tracer after a save: the old entries and the new block's hashes under its own hash -/
theorem mem_tracer_save {g g1 : Guard} {b : Block}
    (hc : g1.tracer = b.txs.foldl (fun t tx => addTrace t tx b.hash) g.tracer) (p : Nat × Nat) :
    p ∈ g1.tracer ↔ p ∈ g.tracer ∨ (p.2 = b.hash ∧ p.1 ∈ b.ids) := by
  rw [hc, mem_addTraces]; rfl

/-- walking from an OLD block in the cache extended by a block nobody points to yet stays in the old cache -/
theorem canc_cacheAdd_old {c : Cache} {b : Block} (hfun : ∀ a ∈ c, ∀ a' ∈ c, a.hash = a'.hash → a = a')
    (hnop : ∀ y ∈ c, y.parent ≠ b.hash) {x a : Block} (hc : CAnc (cacheAdd c b) x a) :
    x ∈ c → CAnc c x a := by
  induction hc with
  | self y => intro _; exact CAnc.self y
  | @step y pb a hg _ ih =>
    intro hy
    have hp := cacheGet_some hg
    rcases mem_cacheAdd.1 hp.1 with h1 | ⟨h1, _⟩
    · have hg' : cacheGet c y.parent = some pb := by rw [← hp.2]; exact cacheGet_eq hfun h1
      exact CAnc.step hg' (ih h1)
    · rw [h1] at hp
      exact absurd hp.2.symm (hnop y hy)

/-- walking from the NEW block: itself, then the old chain of its parent -/
theorem canc_cacheAdd_new {c : Cache} {b : Block} (hfun : ∀ a ∈ c, ∀ a' ∈ c, a.hash = a'.hash → a = a')
    (hnop : ∀ y ∈ c, y.parent ≠ b.hash) (hpl : b.parent ≠ b.hash) {a : Block} (hc : CAnc (cacheAdd c b) b a) :
    a = b ∨ ∃ pb, cacheGet c b.parent = some pb ∧ CAnc c pb a := by
  cases hc with
  | self _ => exact Or.inl rfl
  | @step _ pb _ hg hrest =>
    right
    have hp := cacheGet_some hg
    rcases mem_cacheAdd.1 hp.1 with h1 | ⟨h1, _⟩
    · have hg' : cacheGet c b.parent = some pb := by rw [← hp.2]; exact cacheGet_eq hfun h1
      exact ⟨pb, hg', canc_cacheAdd_old hfun hnop hrest h1⟩
    · rw [h1] at hp
      exact absurd hp.2.symm hpl

/-! ### the two-cursor walk of `getBlocksByBranch` as two paths to a common point -/

/-- `w` = the cached blocks met walking the parent links from hash `k` down to (excluding) hash `kc` -/
inductive Path (c : Cache) : Nat → List Block → Nat → Prop
  | nil (k : Nat) : Path c k [] k
  | cons {k kc : Nat} {t : Block} {w : List Block} : cacheGet c k = some t → Path c t.parent w kc → Path c k (t :: w) kc

theorem path_snoc {c : Cache} {k kc : Nat} {w : List Block} (h : Path c k w kc) {t : Block}
    (ht : cacheGet c kc = some t) : Path c k (w ++ [t]) t.parent := by
  induction h with
  | nil k => exact Path.cons ht (Path.nil _)
  | cons hg _ ih => exact Path.cons hg (ih ht)

/-- the loop of `getBlocksByBranch` returns its accumulators extended by two paths that end at the same hash -/
theorem branchLoop_paths (c : Cache) : ∀ (fuel k1 k2 h1 h2 : Nat) (a1 a2 r1 r2 : List Block) (s1 s2 : Nat),
    Path c s1 a1 k1 → Path c s2 a2 k2 → branchLoop c fuel k1 k2 h1 h2 a1 a2 = .ok r1 r2 →
    ∃ kc, Path c s1 r1 kc ∧ Path c s2 r2 kc := by
  intro fuel
  induction fuel with
  | zero => intro k1 k2 h1 h2 a1 a2 r1 r2 s1 s2 _ _ h; simp [branchLoop] at h
  | succ fuel ih =>
    intro k1 k2 h1 h2 a1 a2 r1 r2 s1 s2 p1 p2 h
    unfold branchLoop at h
    split at h
    · cases hg : cacheGet c k1 with
      | none => rw [hg] at h; cases h
      | some t => rw [hg] at h; exact ih _ _ _ _ _ _ _ _ _ _ (path_snoc p1 hg) p2 h
    · split at h
      · cases hg : cacheGet c k2 with
        | none => rw [hg] at h; cases h
        | some t => rw [hg] at h; exact ih _ _ _ _ _ _ _ _ _ _ p1 (path_snoc p2 hg) h
      · split at h
        · rename_i heq
          injection h with e1 e2
          subst e1 e2
          exact ⟨k1, p1, by rw [heq]; exact p2⟩
        · split at h
          · cases h
          · cases hg1 : cacheGet c k1 with
            | none => rw [hg1] at h; cases h
            | some t1 =>
              rw [hg1] at h
              cases hg2 : cacheGet c k2 with
              | none => rw [hg2] at h; cases h
              | some t2 =>
                rw [hg2] at h
                exact ih _ _ _ _ _ _ _ _ _ _ (path_snoc p1 hg1) (path_snoc p2 hg2) h

theorem path_mem_cache {c : Cache} {k kc : Nat} {w : List Block} (h : Path c k w kc) : ∀ b ∈ w, b ∈ c := by
  induction h with
  | nil k => intro b hb; cases hb
  | cons hg _ ih =>
    intro b hb
    rcases List.mem_cons.1 hb with h1 | h1
    · rw [h1]; exact (cacheGet_some hg).1
    · exact ih b h1

/-- a block walked from `k` is on the path or is walked from the common point -/
theorem path_canc_split {c : Cache} {k kc : Nat} {w : List Block} (h : Path c k w kc) :
    ∀ x, cacheGet c k = some x → ∀ a, CAnc c x a → a ∈ w ∨ ∃ y, cacheGet c kc = some y ∧ CAnc c y a := by
  induction h with
  | nil k => intro x hx a ha; exact Or.inr ⟨x, hx, ha⟩
  | @cons k kc t w hg _ ih =>
    intro x hx a ha
    rw [hg] at hx
    injection hx with hx
    subst hx
    cases ha with
    | self _ => exact Or.inl (List.mem_cons_self ..)
    | step hgp hrest =>
      rcases ih _ hgp a hrest with h1 | h1
      · exact Or.inl (List.mem_cons_of_mem _ h1)
      · exact Or.inr h1

/-- what is walked from the common point is walked from the start of the path -/
theorem path_canc_up {c : Cache} {k kc : Nat} {w : List Block} (h : Path c k w kc) :
    ∀ x y a, cacheGet c k = some x → cacheGet c kc = some y → CAnc c y a → CAnc c x a := by
  induction h with
  | nil k =>
    intro x y a hx hy ha
    rw [hx] at hy; injection hy with hy; subst hy; exact ha
  | @cons k kc t w hg hrest ih =>
    intro x y a hx hy ha
    rw [hg] at hx
    injection hx with hx
    subst hx
    -- the parent of `t` resolves: it is the next block of the path, or the common point
    have hpar : ∃ p, cacheGet c t.parent = some p := by
      cases hrest with
      | nil _ => exact ⟨y, hy⟩
      | cons hg' _ => exact ⟨_, hg'⟩
    obtain ⟨p, hp⟩ := hpar
    exact CAnc.step hp (ih p y a hp hy ha)

/-- … and from every block of the path -/
theorem path_below {c : Cache} {k kc : Nat} {w : List Block} (h : Path c k w kc) :
    ∀ b ∈ w, ∀ y a, cacheGet c kc = some y → CAnc c y a → CAnc c b a := by
  induction h with
  | nil k => intro b hb; cases hb
  | @cons k kc t w hg hrest ih =>
    intro b hb y a hy ha
    rcases List.mem_cons.1 hb with h1 | h1
    · rw [h1]; exact path_canc_up (Path.cons hg hrest) t y a hg hy ha
    · exact ih b h1 y a hy ha

theorem path_le {c : Cache} (hlt : ∀ x ∈ c, x.parent < x.hash) {k kc : Nat} {w : List Block} (h : Path c k w kc) :
    kc ≤ k ∧ ∀ b ∈ w, kc < b.hash := by
  induction h with
  | nil k => exact ⟨Nat.le_refl _, fun b hb => by cases hb⟩
  | @cons k kc t w hg _ ih =>
    have ht := cacheGet_some hg
    have := hlt t ht.1
    refine ⟨by omega, fun b hb => ?_⟩
    rcases List.mem_cons.1 hb with h1 | h1
    · rw [h1]; omega
    · exact ih.2 b h1

/-! ### abstract ancestors -/

theorem anc_mono {U : List Block} {b : Block} {p : Nat} {a : Block} (h : Anc U p a) : Anc (b :: U) p a := by
  induction h with
  | self ha => exact Anc.self (List.mem_cons_of_mem _ ha)
  | step hb _ ih => exact Anc.step (List.mem_cons_of_mem _ hb) ih

theorem anc_trans {U : List Block} {p : Nat} {a c : Block} (h1 : Anc U p a) (h2 : Anc U a.hash c) : Anc U p c := by
  induction h1 with
  | self _ => exact h2
  | step hb _ ih => exact Anc.step hb (ih h2)

theorem findBlock_some {bs : List Block} {h : Nat} {b : Block} (hf : findBlock bs h = some b) : b ∈ bs ∧ b.hash = h := by
  unfold findBlock at hf
  exact ⟨List.mem_of_find?_eq_some hf, by simpa using List.find?_some hf⟩

theorem descends_anc {bs : List Block} {target : Block} : ∀ (fuel h : Nat), descends bs target fuel h = true →
    Anc bs h target := by
  intro fuel
  induction fuel with
  | zero => intro h hd; simp [descends] at hd
  | succ fuel ih =>
    intro h hd
    unfold descends at hd
    cases hf : findBlock bs h with
    | none => rw [hf] at hd; cases hd
    | some b =>
      rw [hf] at hd
      have hb := findBlock_some hf
      simp only [Bool.or_eq_true, beq_iff_eq] at hd
      rcases hd with h1 | h1
      · rw [← hb.2, h1]; rw [h1] at hb; exact Anc.self hb.1
      · rw [← hb.2]; exact Anc.step hb.1 (ih _ h1)

/-! ### lists -/

theorem nodup_flatMap_of {α β : Type} (f : α → List β) : ∀ (l : List α), (∀ x ∈ l, (f x).Nodup) →
    l.Pairwise (fun a b => ∀ k ∈ f a, k ∉ f b) → (l.flatMap f).Nodup := by
  intro l
  induction l with
  | nil => intro _ _; exact List.nodup_nil
  | cons x r ih =>
    intro h1 h2
    rw [List.flatMap_cons, List.nodup_append]
    rw [List.pairwise_cons] at h2
    refine ⟨h1 x (List.mem_cons_self ..), ih (fun y hy => h1 y (List.mem_cons_of_mem _ hy)) h2.2, ?_⟩
    intro a ha b hb hab
    obtain ⟨y, hy, hby⟩ := List.mem_flatMap.1 hb
    exact h2.1 y hy a ha (hab ▸ hby)

theorem nodup_of_flatMap {α β : Type} (f : α → List β) : ∀ (l : List α), (l.flatMap f).Nodup →
    ∀ x ∈ l, (f x).Nodup := by
  intro l
  induction l with
  | nil => intro _ x hx; cases hx
  | cons y r ih =>
    intro h x hx
    rw [List.flatMap_cons, List.nodup_append] at h
    rcases List.mem_cons.1 hx with h1 | h1
    · rw [h1]; exact h.1
    · exact ih h.2.1 x h1

theorem sublist_flatMap {α β : Type} (f : α → List β) {l1 l2 : List α} (h : l1.Sublist l2) :
    (l1.flatMap f).Sublist (l2.flatMap f) := by
  induction h with
  | slnil => exact List.Sublist.refl _
  | cons a _ ih =>
    rw [List.flatMap_cons]
    exact List.Sublist.trans ih (List.sublist_append_right _ _)
  | cons_cons a _ ih =>
    rw [List.flatMap_cons, List.flatMap_cons]
    exact List.Sublist.append (List.Sublist.refl _) ih

/-- a transaction of a block whose hashes are pairwise different has pairwise different hashes itself -/
theorem tx_ids_nodup {b : Block} (h : b.ids.Nodup) {tx : Tx} (htx : tx ∈ b.txs) : tx.ids.Nodup :=
  nodup_of_flatMap Tx.ids b.txs h tx htx

theorem mem_block_ids {b : Block} {tx : Tx} (htx : tx ∈ b.txs) {id : Nat} (hid : id ∈ tx.ids) : id ∈ b.ids :=
  List.mem_flatMap.2 ⟨tx, htx, hid⟩

/-! ### the pool calls -/

theorem live_gc_sub {p : Pool.Pool} {t : PTx} (h : t ∈ Pool.live (Pool.gc p)) : t ∈ Pool.live p := by
  unfold Pool.gc at h
  split at h
  · simp [Pool.live] at h
  · exact h

theorem shrinks_live_sub {p p' : Pool.Pool} (sh : PoolLemmas.Shrinks p p') {t : PTx} (h : t ∈ Pool.live p') :
    t ∈ Pool.live p := by
  obtain ⟨i, hi⟩ := PoolLemmas.mem_live.mp h
  exact PoolLemmas.mem_live.mpr ⟨i, sh.live hi⟩

/-- `DelTxs` only removes -/
theorem live_del_sub {p : Pool.Pool} (w : PoolLemmas.WInv p) (ds : List (Option PTx)) {t : PTx}
    (h : t ∈ Pool.live (Pool.step true p (.del ds)).1) : t ∈ Pool.live p := by
  rw [PoolLemmas.step_del] at h
  cases he : ds.isEmpty with
  | true => rw [PoolLemmas.delTxs_empty true p he] at h; exact h
  | false =>
    obtain ⟨p', _, e, sh⟩ := PoolLemmas.delTxs_spec true w he
    rw [e] at h
    exact shrinks_live_sub sh (live_gc_sub h)

/-- … and nothing pending afterwards shares a hash with a deleted transaction -/
theorem live_del_disjoint {p : Pool.Pool} (v : PoolLemmas.Inv p) (ds : List (Option PTx)) {t : PTx}
    (h : t ∈ Pool.live (Pool.step true p (.del ds)).1) {d : PTx} (hd : some d ∈ ds) {k : Nat} (hk : k ∈ d.keys) :
    k ∉ t.keys :=
  PoolLemmas.live_absent (PoolLemmas.step_fixed_inv v _) (PoolLemmas.del_absent v.toWInv hd hk) t h

theorem live_get_sub {p : Pool.Pool} (w : PoolLemmas.WInv p) (time : Nat) (size : Int) {t : PTx}
    (h : t ∈ Pool.live (Pool.step true p (.get time size)).1) : t ∈ Pool.live p := by
  rw [PoolLemmas.step_get] at h
  by_cases hs : 0 < size
  · obtain ⟨p', l, e, _, sh, _⟩ := PoolLemmas.getTxs_spec true w time hs
    rw [e] at h
    exact shrinks_live_sub sh h
  · rw [PoolLemmas.getTxs_nonpos true p time hs] at h; exact h

theorem live_add_sub {p : Pool.Pool} (x : Option PTx) {t : PTx}
    (h : t ∈ Pool.live (Pool.addTx p x).1) : t ∈ Pool.live p ∨ x = some t := by
  rcases PoolLemmas.addTx_cases p x with ⟨e, _⟩ | ⟨tx, hx, _, _, htxs, _⟩
  · rw [e] at h; exact Or.inl h
  · obtain ⟨i, hi⟩ := PoolLemmas.mem_live.mp h
    rw [htxs] at hi
    rcases PoolLemmas.getElem?_snoc_live hi with ⟨_, h1⟩ | ⟨_, h1⟩
    · exact Or.inl (PoolLemmas.mem_live.mpr ⟨i, h1⟩)
    · right; rw [hx]; exact h1

theorem live_addLoop_sub (ts : List (Option PTx)) : ∀ (p : Pool.Pool) (c : Nat) {t : PTx},
    t ∈ Pool.live (Pool.addLoop p c ts).1 → t ∈ Pool.live p ∨ some t ∈ ts := by
  induction ts with
  | nil => intro p c t h; exact Or.inl h
  | cons x r ih =>
    intro p c t h
    unfold Pool.addLoop at h
    have key : ∀ c', t ∈ Pool.live (Pool.addLoop (Pool.addTx p x).1 c' r).1 → t ∈ Pool.live p ∨ some t ∈ x :: r := by
      intro c' h'
      rcases ih _ c' h' with h1 | h1
      · rcases live_add_sub x h1 with h2 | h2
        · exact Or.inl h2
        · right; rw [h2]; exact List.mem_cons_self ..
      · exact Or.inr (List.mem_cons_of_mem _ h1)
    split at h <;> rename_i he <;> (have e1 : (Pool.addTx p x).1 = _ := congrArg Prod.fst he) <;>
      simp only at e1 <;> rw [← e1] at h <;> exact key _ h

theorem live_adds_sub {p : Pool.Pool} (ts : List (Option PTx)) {t : PTx}
    (h : t ∈ Pool.live (Pool.step true p (.adds ts)).1) : t ∈ Pool.live p ∨ some t ∈ ts := by
  rw [PoolLemmas.step_adds_fst] at h
  split at h
  · exact Or.inl h
  · exact live_addLoop_sub ts p 0 h

theorem mem_optTxs {txs : List Tx} {t : PTx} (h : some t ∈ optTxs txs) : ∃ tx ∈ txs, t = toPool tx := by
  unfold optTxs at h
  obtain ⟨tx, htx, e⟩ := List.mem_map.1 h
  injection e with e
  exact ⟨tx, htx, e.symm⟩

theorem optTxs_mem {txs : List Tx} {tx : Tx} (h : tx ∈ txs) : some (toPool tx) ∈ optTxs txs :=
  List.mem_map.2 ⟨tx, h, rfl⟩

/-- `DelTxs` cannot panic (`pool.txs[index] = nil` stays in range) -/
theorem poolDel_eq {p : Pool.Pool} (w : PoolLemmas.WInv p) (txs : List Tx) :
    poolDel p txs = some (Pool.step true p (.del (optTxs txs))).1 := by
  unfold poolDel
  rw [PoolLemmas.step_del]
  cases he : (optTxs txs).isEmpty with
  | true => rw [PoolLemmas.delTxs_empty true p he]
  | false =>
    obtain ⟨p', _, e, _⟩ := PoolLemmas.delTxs_spec true w he
    rw [e]

/-- `GetTxs` cannot panic; it hands out a sub-list of the pending transactions, none of them timed out -/
theorem poolGet_spec {p : Pool.Pool} (w : PoolLemmas.WInv p) (time : Nat) (size : Int) :
    ∃ l, poolGet p time size = some ((Pool.step true p (.get time size)).1, l) ∧
      l.Sublist (Pool.live p) ∧ ∀ t ∈ l, Pool.isTxTimeOut t time = false := by
  unfold poolGet
  by_cases hs : 0 < size
  · obtain ⟨p', l, e, _, _, hsub, hto⟩ := PoolLemmas.getTxs_spec true w time hs
    rw [PoolLemmas.step_get, e]
    exact ⟨l, rfl, hsub, hto⟩
  · have e : Pool.step true p (.get time size) = (p, .txs []) := by
      rw [PoolLemmas.step_get]
      unfold Pool.getTxs
      by_cases h0 : size < 0
      · simp [h0]
      · have : size = 0 := by omega
        simp [this]
    rw [e]
    exact ⟨[], rfl, List.nil_sublist _, by simp⟩

/-! ### SaveBlock / DelOldBlocks: what the guard says about OLD questions does not get worse -/

theorem getTxsByBranch_ok {g : Guard} {k1 h1 k2 h2 : Nat} {o n : List Tx}
    (h : g.getTxsByBranch k1 h1 k2 h2 = .ok o n) :
    ∃ kc w1 w2, Path g.cache k1 w1 kc ∧ Path g.cache k2 w2 kc ∧
      o = w1.flatMap (·.txs) ∧ n = w2.flatMap (·.txs) := by
  unfold Guard.getTxsByBranch at h
  cases hb : branchLoop g.cache (h1 + h2 + 1) k1 k2 h1 h2 [] [] with
  | ok r1 r2 =>
    rw [hb] at h
    injection h with e1 e2
    obtain ⟨kc, p1, p2⟩ := branchLoop_paths g.cache _ _ _ _ _ _ _ _ _ k1 k2 (Path.nil _) (Path.nil _) hb
    exact ⟨kc, r1, r2, p1, p2, e1.symm, e2.symm⟩
  | errNotFound => rw [hb] at h; cases h
  | errDifferentGenesis => rw [hb] at h; cases h
  | hang => rw [hb] at h; cases h

/-- the new block `b` of a save: nobody has its hash, nobody points to it -/
structure Fresh (c : Cache) (b : Block) : Prop where
  hash : ∀ y ∈ c, y.hash ≠ b.hash
  nop : ∀ y ∈ c, y.parent ≠ b.hash
  par : b.parent ≠ b.hash

theorem save_traced_old {g g1 : Guard} {U : List Block} {K : List Nat} {T : Nat} (inv : TxGuardLemmas.Inv g U K T)
    {b : Block} (hs : g.saveBlock b = .ok g1) (fr : Fresh g.cache b) {x : Block} (hx : x ∈ g.cache)
    {ids : List Nat} (h : Traced g1 x ids) : Traced g x ids := by
  rcases saveBlock_cases hs with ⟨e, _⟩ | ⟨hc, ht, _⟩
  · rw [e] at h; exact h
  · obtain ⟨a, hca, id, hid, hp⟩ := h
    rw [hc] at hca
    have hca' := canc_cacheAdd_old inv.cacheFun fr.nop hca hx
    refine ⟨a, hca', id, hid, ?_⟩
    rcases (mem_tracer_save ht _).1 hp with h1 | ⟨h1, _⟩
    · exact h1
    · exact absurd h1 (fr.hash a (canc_mem hca' hx))

theorem save_blockClean {g g1 : Guard} {U : List Block} {K : List Nat} {T : Nat} (inv : TxGuardLemmas.Inv g U K T)
    {b : Block} (hs : g.saveBlock b = .ok g1) (fr : Fresh g.cache b)
    (hold : ∀ x ∈ g.cache, BlockClean g x)
    (hb : ∀ pb, cacheGet g.cache b.parent = some pb → ¬ Traced g pb b.ids) :
    ∀ x ∈ g1.cache, BlockClean g1 x := by
  rcases saveBlock_cases hs with ⟨e, _⟩ | ⟨hc, ht, _⟩
  · rw [e]; exact hold
  · intro x hx a hca hne id hid hp
    rw [hc] at hx hca
    rcases mem_cacheAdd.1 hx with h1 | ⟨h1, _⟩
    · have hca' := canc_cacheAdd_old inv.cacheFun fr.nop hca h1
      rcases (mem_tracer_save ht _).1 hp with h2 | ⟨h2, _⟩
      · exact hold x h1 a hca' hne id hid h2
      · exact absurd h2 (fr.hash a (canc_mem hca' h1))
    · subst h1
      rcases canc_cacheAdd_new inv.cacheFun fr.nop fr.par hca with h2 | ⟨pb, hg, hca'⟩
      · exact hne h2
      · have ha : a ∈ g.cache := canc_mem hca' (cacheGet_some hg).1
        rcases (mem_tracer_save ht _).1 hp with h2 | ⟨h2, _⟩
        · exact hb pb hg ⟨a, hca', id, hid, h2⟩
        · exact absurd h2 (fr.hash a ha)

/-- the new block is cached after the save unless its bucket is before the base -/
theorem save_mem_new {g g1 : Guard} {b : Block} (hs : g.saveBlock b = .ok g1) (fr : Fresh g.cache b)
    (hyoung : g.tb.timeBase / 60 ≤ b.time / 60) : b ∈ g1.cache ∧ ∀ x ∈ g.cache, x ∈ g1.cache := by
  rcases saveBlock_cases hs with ⟨_, hlt⟩ | ⟨hc, _, _⟩
  · omega
  · rw [hc]
    exact ⟨mem_cacheAdd.2 (Or.inr ⟨rfl, fr.hash⟩), fun x hx => mem_cacheAdd.2 (Or.inl hx)⟩

theorem del_sub {g g' : Guard} {T' : Nat} (hd : g.delOldBlocks T' = .ok g') :
    (∀ x ∈ g'.cache, x ∈ g.cache) ∧ (∀ p ∈ g'.tracer, p ∈ g.tracer) := by
  obtain ⟨_, hg'⟩ := delOldBlocks_eq hd
  constructor
  · intro x hx
    rw [hg', drop_cache] at hx
    exact hx.1
  · intro p hp
    rw [hg'] at hp
    have := drop_tracer_sub _ { g with tb := (g.tb.expire (T' - 1800)).2 } _ hp
    exact this

theorem del_traced {g g' : Guard} {U : List Block} {K : List Nat} {T : Nat} (inv : TxGuardLemmas.Inv g U K T)
    {T' : Nat} (hd : g.delOldBlocks T' = .ok g') {x : Block} {ids : List Nat} (h : Traced g' x ids) :
    Traced g x ids := by
  obtain ⟨hc, ht⟩ := del_sub hd
  obtain ⟨a, hca, id, hid, hp⟩ := h
  exact ⟨a, canc_mono (fun k b hk => cacheGet_of_sub inv.cacheFun hc hk) hca, id, hid, ht _ hp⟩

theorem del_blockClean {g g' : Guard} {U : List Block} {K : List Nat} {T : Nat} (inv : TxGuardLemmas.Inv g U K T)
    {T' : Nat} (hd : g.delOldBlocks T' = .ok g') (hold : ∀ x ∈ g.cache, BlockClean g x) :
    ∀ x ∈ g'.cache, BlockClean g' x := by
  obtain ⟨hc, ht⟩ := del_sub hd
  intro x hx a hca hne id hid hp
  exact hold x (hc x hx) a (canc_mono (fun k b hk => cacheGet_of_sub inv.cacheFun hc hk) hca) hne id hid (ht _ hp)

/-! ### the pool under a head change -/

/-- what the theorems need of the pending transactions, relative to a guard and a head -/
structure PoolOK (p : Pool.Pool) : Prop where
  inv : PoolLemmas.Inv p
  nodup : ∀ t ∈ Pool.live p, t.keys.Nodup

def PoolClean (g : Guard) (head : Block) (p : Pool.Pool) : Prop := ∀ t ∈ Pool.live p, ¬ Traced g head t.keys

theorem poolOK_del {p : Pool.Pool} (ok : PoolOK p) (txs : List Tx) : PoolOK (Pool.step true p (.del (optTxs txs))).1 :=
  ⟨PoolLemmas.step_fixed_inv ok.inv _, fun t ht => ok.nodup t (live_del_sub ok.inv.toWInv _ ht)⟩

theorem poolOK_adds {p : Pool.Pool} (ok : PoolOK p) (txs : List Tx) (hn : ∀ tx ∈ txs, tx.ids.Nodup) : PoolOK (poolAdds p txs) := by
  refine ⟨PoolLemmas.step_fixed_inv ok.inv _, fun t ht => ?_⟩
  rcases live_adds_sub _ ht with h1 | h1
  · exact ok.nodup t h1
  · obtain ⟨tx, htx, e⟩ := mem_optTxs h1
    rw [e, toPool_keys]; exact hn tx htx

theorem poolOK_add {p : Pool.Pool} (ok : PoolOK p) (tx : Tx) (hn : tx.ids.Nodup) : PoolOK (poolAdd p tx) := by
  refine ⟨PoolLemmas.step_fixed_inv ok.inv _, fun t ht => ?_⟩
  unfold poolAdd at ht
  rw [PoolLemmas.step_add_fst] at ht
  rcases live_add_sub _ ht with h1 | h1
  · exact ok.nodup t h1
  · injection h1 with h1
    rw [← h1, toPool_keys]; exact hn

theorem flatMap_txs_nodup {c : Cache} {w : List Block} (hw : ∀ b ∈ w, b ∈ c) (hbn : ∀ x ∈ c, x.ids.Nodup) :
    ∀ tx ∈ w.flatMap (·.txs), tx.ids.Nodup := by
  intro tx htx
  obtain ⟨b, hb, htxb⟩ := List.mem_flatMap.1 htx
  exact tx_ids_nodup (hbn b (hw b hb)) htxb

/-- **`onCurrentChanged`**: the pool's shape is kept (any outcome of `GetTxsByBranch`), and if the pool was clean with
    respect to the old head and `GetTxsByBranch` did not fail, it is clean with respect to the new head -/
theorem onCurrentChanged_ok {g : Guard} {U : List Block} {K : List Nat} {T : Nat} (inv : TxGuardLemmas.Inv g U K T)
    (tree : TreeOK U) {old new : Block} (hold : old ∈ g.cache) (hnew : new ∈ g.cache)
    (hbn : ∀ x ∈ g.cache, x.ids.Nodup) {p p' : Pool.Pool} (ok : PoolOK p)
    (h : onCurrentChanged g p old new = some p') :
    PoolOK p' ∧
    ((new.parent = old.hash ∨ ∃ o n, g.getTxsByBranch old.hash old.height new.hash new.height = .ok o n) →
      (∀ x ∈ g.cache, BlockClean g x) → PoolClean g old p → PoolClean g new p') := by
  have hsub : ∀ x ∈ g.cache, x ∈ U := fun x hx => ((inv.cacheIff x).1 hx).1
  have hlt : ∀ x ∈ g.cache, x.parent < x.hash := fun x hx => tree.parentLt x (hsub x hx)
  have hgetnew : cacheGet g.cache new.hash = some new := cacheGet_eq inv.cacheFun hnew
  have hgetold : cacheGet g.cache old.hash = some old := cacheGet_eq inv.cacheFun hold
  -- a traced id of a cached block is an id of one of its transactions
  have hidtx : ∀ a ∈ g.cache, ∀ id, (id, a.hash) ∈ g.tracer → ∃ tx ∈ a.txs, id ∈ tx.ids := by
    intro a ha id hp
    obtain ⟨b', hb', hbh, hbid⟩ := inv.trSound id a.hash hp
    have : b' = a := inv.cacheFun b' hb' a ha hbh
    rw [this] at hbid
    exact List.mem_flatMap.1 hbid
  unfold onCurrentChanged at h
  by_cases hpar : new.parent = old.hash
  · rw [if_pos hpar, poolDel_eq ok.inv.toWInv] at h
    injection h with h
    subst h
    refine ⟨poolOK_del ok _, fun _ _ hcl t ht htr => ?_⟩
    obtain ⟨a, hca, id, hid, hp⟩ := htr
    cases hca with
    | self _ =>
      obtain ⟨tx, htx, hidtx'⟩ := hidtx new hnew id hp
      exact live_del_disjoint ok.inv _ ht (optTxs_mem htx) (by rw [toPool_keys]; exact hidtx') hid
    | step hg hrest =>
      rw [hpar, hgetold] at hg
      injection hg with hg
      subst hg
      exact hcl t (live_del_sub ok.inv.toWInv _ ht) ⟨a, hrest, id, hid, hp⟩
  · rw [if_neg hpar] at h
    cases hbr : g.getTxsByBranch old.hash old.height new.hash new.height with
    | ok o n =>
      rw [hbr] at h
      simp only at h
      obtain ⟨kc, w1, w2, p1, p2, eo, en⟩ := getTxsByBranch_ok hbr
      have hon : ∀ tx ∈ o, tx.ids.Nodup := by rw [eo]; exact flatMap_txs_nodup (path_mem_cache p1) hbn
      have ok1 := poolOK_adds ok o hon
      rw [poolDel_eq ok1.inv.toWInv] at h
      injection h with h
      subst h
      refine ⟨poolOK_del ok1 _, fun _ hbc hcl t ht htr => ?_⟩
      obtain ⟨a, hca, id, hid, hp⟩ := htr
      have ht1 := live_del_sub ok1.inv.toWInv _ ht
      unfold poolAdds at ht1
      rcases path_canc_split p2 new hgetnew a hca with hin | ⟨y, hy, hya⟩
      · -- the block is on the new branch above the common point: its transactions were deleted
        obtain ⟨tx, htx, hidtx'⟩ := hidtx a (path_mem_cache p2 a hin) id hp
        have htxn : tx ∈ n := by rw [en]; exact List.mem_flatMap.2 ⟨a, hin, htx⟩
        exact live_del_disjoint ok1.inv _ ht (optTxs_mem htxn) (by rw [toPool_keys]; exact hidtx') hid
      · -- the block is below the common point
        rcases live_adds_sub _ ht1 with h1 | h1
        · exact hcl t h1 ⟨a, path_canc_up p1 old y a hgetold hy hya, id, hid, hp⟩
        · obtain ⟨tx, htx, e⟩ := mem_optTxs h1
          rw [eo] at htx
          obtain ⟨bo, hbo, htxbo⟩ := List.mem_flatMap.1 htx
          have hboc := path_mem_cache p1 bo hbo
          have hca' := path_below p1 bo hbo y a hy hya
          have hne : a ≠ bo := by
            intro he
            have h1 := (path_le hlt p1).2 bo hbo
            have h2 := canc_hash_le hlt hya (cacheGet_some hy).1
            rw [(cacheGet_some hy).2, he] at h2
            omega
          rw [e, toPool_keys] at hid
          exact hbc bo hboc a hca' hne id (mem_block_ids htxbo hid) hp
    | hang => rw [hbr] at h; cases h
    | errNotFound =>
      rw [hbr] at h
      simp only at h
      have ok1 := poolOK_adds ok [] (fun tx htx => by cases htx)
      rw [poolDel_eq ok1.inv.toWInv] at h
      injection h with h
      subst h
      refine ⟨poolOK_del ok1 _, fun hor _ _ => ?_⟩
      rcases hor with h1 | ⟨o, n, h1⟩
      · exact absurd h1 hpar
      · cases h1
    | errDifferentGenesis =>
      rw [hbr] at h
      simp only at h
      have ok1 := poolOK_adds ok [] (fun tx htx => by cases htx)
      rw [poolDel_eq ok1.inv.toWInv] at h
      injection h with h
      subst h
      refine ⟨poolOK_del ok1 _, fun hor _ _ => ?_⟩
      rcases hor with h1 | ⟨o, n, h1⟩
      · exact absurd h1 hpar
      · cases h1

/-- **the side-branch push** of `saveNewBlock`: only transactions the guard denies for the head get in -/
theorem sidePush_ok {g : Guard} {U : List Block} {K : List Nat} {T : Nat} (inv : TxGuardLemmas.Inv g U K T)
    (tree : TreeOK U) {head : Block} (hhead : head ∈ g.cache) :
    ∀ (txs : List Tx) (p p' : Pool.Pool), (∀ tx ∈ txs, tx.ids.Nodup) → PoolOK p →
      sidePush g head.hash p txs = some p' → PoolOK p' ∧ (PoolClean g head p → PoolClean g head p') := by
  intro txs
  induction txs with
  | nil =>
    intro p p' _ ok h
    simp only [sidePush] at h
    injection h with h
    subst h
    exact ⟨ok, id⟩
  | cons tx r ih =>
    intro p p' hn ok h
    unfold sidePush at h
    cases hex : g.existTxs head.hash [tx] with
    | ok res =>
      rw [hex] at h
      cases res with
      | true =>
        exact ih p p' (fun x hx => hn x (List.mem_cons_of_mem _ hx)) ok h
      | false =>
        simp only at h
        have ok1 := poolOK_add ok tx (hn tx (List.mem_cons_self ..))
        obtain ⟨ok2, hc2⟩ := ih _ p' (fun x hx => hn x (List.mem_cons_of_mem _ hx)) ok1 h
        refine ⟨ok2, fun hcl => hc2 ?_⟩
        intro t ht
        unfold poolAdd at ht
        rw [PoolLemmas.step_add_fst] at ht
        rcases live_add_sub _ ht with h1 | h1
        · exact hcl t h1
        · injection h1 with h1
          rw [← h1, toPool_keys, ← idsOf_single]
          exact (exist_false_iff inv tree hhead [tx]).1 hex
    | panic => rw [hex] at h; cases h
    | hang => rw [hex] at h; cases h

end LemoProofs.PoolGuardLemmas

/-
  C04 × C18: the invariants of the combined machine pool × guard (LemoModel/PoolGuard.lean) and their preservation by
  every op.  `Base` needs only the environment hypotheses (`envB`); `Clean` — every pending transaction is off the head's
  branch — needs in addition that every `AddTx` happens while the guard's answer still holds (`cleanB`).
-/
import LemoProofs.Lemmas.PoolGuard
namespace LemoProofs.PoolGuardLemmas
open LemoModel LemoModel.TxGuard LemoModel.PoolGuard LemoProofs.TxGuardLemmas

structure Base (cfg : Cfg) (s : State) : Prop where
  reach : ∃ K, Reach s.g s.blocks K s.stable.time
  tree : TreeOK s.blocks
  tBig : 1800 ≤ s.stable.time
  stableIn : s.stable ∈ s.blocks
  headIn : s.head ∈ s.blocks
  /-- the head descends from the stable block -/
  headAnc : Anc s.blocks s.head.hash s.stable
  pool : PoolOK s.pool
  blockNodup : ∀ b ∈ s.blocks, b.ids.Nodup
  asked : cfg.boxDupCheck = true → ∀ tx ∈ s.asked, tx.ids.Nodup

structure Clean (s : State) : Prop where
  /-- no pending transaction shares a hash with a block the guard walks from the head -/
  pool : PoolClean s.g s.head s.pool
  /-- no saved block shares a hash with a block the guard walks below it -/
  blocks : ∀ b ∈ s.g.cache, BlockClean s.g b

theorem cached_of_time {g : Guard} {U : List Block} {K : List Nat} {T : Nat} (inv : TxGuardLemmas.Inv g U K T)
    {x : Block} (hx : x ∈ U) (ht : T ≤ x.time) : x ∈ g.cache := by
  refine (inv.cacheIff x).2 ⟨hx, ?_⟩
  have := inv.baseT
  exact Nat.div_le_div_right (by omega)

theorem Base.headTime {cfg : Cfg} {s : State} (hb : Base cfg s) : s.stable.time ≤ s.head.time := by
  obtain ⟨K, hr⟩ := hb.reach
  exact anc_time (reach_inv hr).hfun hb.tree hb.headAnc s.head hb.headIn rfl

theorem Base.headCached {cfg : Cfg} {s : State} (hb : Base cfg s) : s.head ∈ s.g.cache := by
  obtain ⟨K, hr⟩ := hb.reach
  exact cached_of_time (reach_inv hr) hb.headIn hb.headTime

theorem treeOK_cons {U : List Block} (tree : TreeOK U) (hfun : HashFun U) {b p : Block}
    (hfresh : ∀ x ∈ U, x.hash < b.hash) (hpl : b.parent < b.hash) (hp : p ∈ U) (hph : p.hash = b.parent)
    (hh : p.height + 1 = b.height) (ht : p.time ≤ b.time) : TreeOK (b :: U) := by
  have key : ∀ x ∈ b :: U, ∀ q ∈ b :: U, q.hash = x.parent → (x = b ∧ q = p) ∨ (x ∈ U ∧ q ∈ U) := by
    intro x hx q hq he
    rcases List.mem_cons.1 hx with h1 | h1 <;> rcases List.mem_cons.1 hq with h2 | h2
    · subst h1 h2; omega
    · subst h1; left; exact ⟨rfl, hfun q h2 p hp (by rw [he, hph])⟩
    · subst h2
      have := tree.parentLt x h1
      have := hfresh x h1
      omega
    · exact Or.inr ⟨h1, h2⟩
  refine ⟨fun x hx => ?_, fun x hx q hq he => ?_, fun x hx q hq he => ?_⟩
  · rcases List.mem_cons.1 hx with h1 | h1
    · rw [h1]; exact hpl
    · exact tree.parentLt x h1
  · rcases key x hx q hq he with ⟨h1, h2⟩ | ⟨h1, h2⟩
    · rw [h1, h2]; exact hh
    · exact tree.height x h1 q h2 he
  · rcases key x hx q hq he with ⟨h1, h2⟩ | ⟨h1, h2⟩
    · rw [h1, h2]; exact ht
    · exact tree.time x h1 q h2 he

/-! ### unpacking `envB` -/

theorem freshId_spec {bs : List Block} {h : Nat} (hf : freshId bs h = true) : ∀ x ∈ bs, x.hash < h := by
  intro x hx
  have := List.all_eq_true.1 hf x hx
  simpa using this

theorem contains_mem {bs : List Block} {b : Block} (h : bs.contains b = true) : b ∈ bs := by
  simpa using h

structure InsertEnv (s : State) (b : Block) (stab : Bool) (nh : Block) : Prop where
  fresh : ∀ x ∈ s.blocks, x.hash < b.hash
  parLt : b.parent < b.hash
  par : ∃ p ∈ s.blocks, p.hash = b.parent ∧ p.height + 1 = b.height ∧ p.time ≤ b.time
  parAnc : Anc s.blocks b.parent s.stable
  nhIn : nh ∈ b :: s.blocks
  nhAnc : Anc (b :: s.blocks) nh.hash (if stab then b else s.stable)

theorem envB_insert {s : State} {b : Block} {stab : Bool} {nh : Block} (h : envB s (.insert b stab nh) = true) :
    InsertEnv s b stab nh := by
  simp only [envB, Bool.and_eq_true, decide_eq_true_eq] at h
  obtain ⟨⟨⟨⟨h1, h2⟩, h3⟩, h4⟩, h5⟩ := h
  cases hf : findBlock s.blocks b.parent with
  | none => rw [hf] at h3; cases h3
  | some p =>
    rw [hf] at h3
    simp only [Bool.and_eq_true, beq_iff_eq, decide_eq_true_eq] at h3
    have hp := findBlock_some hf
    exact ⟨freshId_spec h1, h2, ⟨p, hp.1, hp.2, h3.1.1, h3.1.2⟩, descends_anc _ _ h3.2, contains_mem h4, descends_anc _ _ h5⟩

structure ConfirmEnv (s : State) (st nh : Block) : Prop where
  stIn : st ∈ s.blocks
  stAnc : Anc s.blocks st.hash s.stable
  nhIn : nh ∈ s.blocks
  nhAnc : Anc s.blocks nh.hash st

theorem envB_confirm {s : State} {st nh : Block} (h : envB s (.confirm st nh) = true) : ConfirmEnv s st nh := by
  simp only [envB, Bool.and_eq_true] at h
  obtain ⟨⟨⟨h1, h2⟩, h3⟩, h4⟩ := h
  exact ⟨contains_mem h1, descends_anc _ _ h2, contains_mem h3, descends_anc _ _ h4⟩

/-! ### init -/

theorem init_ok (cfg : Cfg) {gen : Block} (hg : genOK gen = true) : ∃ s, init gen = some s ∧ Base cfg s ∧ Clean s := by
  simp only [genOK, Bool.and_eq_true, decide_eq_true_eq, List.isEmpty_iff] at hg
  obtain ⟨⟨h1, h2⟩, h3⟩ := hg
  obtain ⟨g, hs⟩ := save_no_panic (Reach.init gen.time) gen
  have hr : Reach g [gen] [] gen.time := Reach.save gen (Reach.init gen.time) (fun a ha => by cases ha) hs
  have hids : gen.ids = [] := by simp [Block.ids, h1]
  refine ⟨{ blocks := [gen], g := g, pool := Pool.newPool, head := gen, stable := gen, asked := [] },
    by simp [init, hs, outGuard], ?_, ?_⟩
  · refine ⟨⟨[], hr⟩, ⟨?_, ?_, ?_⟩, h3, List.mem_cons_self .., List.mem_cons_self .., Anc.self (List.mem_cons_self ..),
      ⟨PoolLemmas.inv_new, fun t ht => by simp [Pool.live, Pool.newPool] at ht⟩, ?_, fun _ tx htx => by cases htx⟩
    · intro b hb; rw [List.mem_singleton.1 hb]; exact h2
    · intro b hb p hp he
      rw [List.mem_singleton.1 hb, List.mem_singleton.1 hp] at he
      omega
    · intro b hb p hp he
      rw [List.mem_singleton.1 hb, List.mem_singleton.1 hp] at he
      omega
    · intro b hb; rw [List.mem_singleton.1 hb, hids]; exact List.nodup_nil
  · refine ⟨fun t ht => by simp [Pool.live, Pool.newPool] at ht, fun b hb a _ _ id hid => ?_⟩
    have hbU := (((reach_inv hr).cacheIff b).1 hb).1
    rw [List.mem_singleton.1 hbU, hids] at hid
    cases hid

/-! ### the entry of a single transaction, and GetPendingTx -/

theorem validBody_nodup {cfg : Cfg} {tx : Tx} {now : Nat} (hd : cfg.boxDupCheck = true) (hv : validBody cfg tx now = true)
    (hself : ((tx.subs.map (·.txId)).contains tx.txId) = false) : tx.ids.Nodup := by
  simp only [validBody, hd, Bool.not_true, Bool.false_or, Bool.and_eq_true, decide_eq_true_eq] at hv
  unfold Tx.ids
  rw [List.nodup_cons]
  refine ⟨fun hm => ?_, hv.2⟩
  have : (tx.subs.map (·.txId)).contains tx.txId = true := by simpa using hm
  rw [this] at hself; cases hself

theorem ask_ok {cfg : Cfg} {s s' : State} {now : Nat} {tx : Tx} (hb : Base cfg s)
    (henv : envB s (.ask now tx) = true) (h : ask cfg s now tx = some s') :
    Base cfg s' ∧ (Clean s → Clean s') := by
  have hsame : ∀ a : List Tx, (cfg.boxDupCheck = true → ∀ x ∈ a, x.ids.Nodup) →
      Base cfg { s with asked := a } ∧ (Clean s → Clean { s with asked := a }) := fun a ha =>
    ⟨⟨hb.reach, hb.tree, hb.tBig, hb.stableIn, hb.headIn, hb.headAnc, hb.pool, hb.blockNodup, ha⟩, fun c => ⟨c.pool, c.blocks⟩⟩
  unfold ask at h
  by_cases hv : validBody cfg tx now = true
  · rw [if_pos hv] at h
    cases hex : s.g.existTxs s.head.hash [tx] with
    | ok r =>
      rw [hex] at h
      cases r with
      | true => injection h with h; subst h; exact ⟨hb, id⟩
      | false =>
        injection h with h
        subst h
        refine hsame _ (fun hd x hx => ?_)
        rcases List.mem_cons.1 hx with h1 | h1
        · rw [h1]
          refine validBody_nodup hd hv ?_
          simp only [envB, Bool.not_eq_true'] at henv
          exact henv
        · exact hb.asked hd x h1
    | panic => rw [hex] at h; cases h
    | hang => rw [hex] at h; cases h
  · rw [if_neg hv] at h
    injection h with h; subst h; exact ⟨hb, id⟩

theorem add_ok {cfg : Cfg} {s : State} {tx : Tx} (hb : Base cfg s)
    (hn : cfg.boxDupCheck = true ∨ cleanB cfg s (.add tx) = true) :
    Base cfg (add s tx) ∧ (cleanB cfg s (.add tx) = true → Clean s → Clean (add s tx)) := by
  unfold add
  by_cases hc : s.asked.contains tx = true
  · rw [if_pos hc]
    have hmem : tx ∈ s.asked := by simpa using hc
    have hnd : tx.ids.Nodup := by
      rcases hn with hd | hcl
      · exact hb.asked hd tx hmem
      · simp only [cleanB, hc, Bool.not_true, Bool.false_or, Bool.and_eq_true, Bool.or_eq_true, decide_eq_true_eq] at hcl
        rcases hcl.2 with hd | hk
        · exact hb.asked hd tx hmem
        · rw [toPool_keys] at hk; exact hk
    refine ⟨⟨hb.reach, hb.tree, hb.tBig, hb.stableIn, hb.headIn, hb.headAnc, poolOK_add hb.pool tx hnd, hb.blockNodup,
      fun hd x hx => hb.asked hd x (List.mem_of_mem_erase hx)⟩, fun hcl c => ⟨?_, c.blocks⟩⟩
    simp only [cleanB, hc, Bool.not_true, Bool.false_or, Bool.and_eq_true, beq_iff_eq] at hcl
    intro t ht
    show ¬ Traced s.g s.head t.keys
    have ht' : t ∈ Pool.live (poolAdd s.pool tx) := ht
    unfold poolAdd at ht'
    rw [PoolLemmas.step_add_fst] at ht'
    rcases live_add_sub _ ht' with h1 | h1
    · exact c.pool t h1
    · injection h1 with h1
      obtain ⟨K, hr⟩ := hb.reach
      rw [← h1, toPool_keys, ← idsOf_single]
      exact (exist_false_iff (reach_inv hr) hb.tree hb.headCached [tx]).1 hcl.1
  · rw [if_neg hc]
    exact ⟨hb, fun _ c => c⟩

theorem pending_ok {cfg : Cfg} {s s' : State} {now : Nat} {size : Int} (hb : Base cfg s)
    (h : step cfg s (.pending now size) = some s') : Base cfg s' ∧ (Clean s → Clean s') := by
  have hs' : s' = { s with pool := (Pool.step true s.pool (.get now size)).1 } := by
    simp only [step] at h
    generalize Pool.step true s.pool (.get now size) = r at h ⊢
    obtain ⟨p', o⟩ := r
    cases o <;> first | (cases h; done) | (injection h with h; exact h.symm)
  subst hs'
  refine ⟨⟨hb.reach, hb.tree, hb.tBig, hb.stableIn, hb.headIn, hb.headAnc,
    ⟨PoolLemmas.step_fixed_inv hb.pool.inv _, fun t ht => hb.pool.nodup t (live_get_sub hb.pool.inv.toWInv _ _ ht)⟩,
    hb.blockNodup, hb.asked⟩, fun c => ⟨fun t ht => c.pool t (live_get_sub hb.pool.inv.toWInv _ _ ht), c.blocks⟩⟩

/-! ### saveNewBlock after the save -/

theorem verifyTxs_true {g : Guard} {b : Block} (h : verifyTxs true g b = .ok true) :
    b.ids.Nodup ∧ g.existTxs b.parent b.txs = .ok false ∧ ∀ tx ∈ b.txs, tx.validAt b.time = true := by
  unfold verifyTxs at h
  by_cases hn : b.ids.Nodup
  · simp only [hn, decide_true, Bool.not_true, Bool.and_false, Bool.false_eq_true, if_false] at h
    cases hex : g.existTxs b.parent b.txs with
    | ok r =>
      rw [hex] at h
      cases r with
      | true => cases h
      | false =>
        simp only at h
        refine ⟨hn, rfl, ?_⟩
        injection h with h
        exact List.all_eq_true.1 h
    | panic => rw [hex] at h; cases h
    | hang => rw [hex] at h; cases h
  · simp [hn] at h

/-- the state after `txGuard.SaveBlock(b)` and the rest of `saveNewBlock`, for a block `b` that satisfies what
    `verifyTxs` checks (a verified block) or what the miner's candidates satisfy (a mined block) -/
theorem afterSave_ok {cfg : Cfg} {s s' : State} (hb : Base cfg s) {g1 : Guard} {pool : Pool.Pool} {b : Block}
    {stab : Bool} {nh : Block} (hs : s.g.saveBlock b = .ok g1) (hpool : PoolOK pool)
    (env : InsertEnv s b stab nh) (hnd : b.ids.Nodup)
    (h : afterSave s g1 pool b stab nh = some s') :
    Base cfg s' ∧
    (Clean s → PoolClean s.g s.head pool →
      (∀ pb, cacheGet s.g.cache b.parent = some pb → ¬ Traced s.g pb b.ids) → Clean s') := by
  obtain ⟨K, hr⟩ := hb.reach
  have inv := reach_inv hr
  obtain ⟨p, hpU, hph, hpH, hpT⟩ := env.par
  have hpTime : s.stable.time ≤ p.time := anc_time inv.hfun hb.tree env.parAnc p hpU hph
  have hbTime : s.stable.time ≤ b.time := Nat.le_trans hpTime hpT
  -- the guard after the save
  have hr1 : Reach g1 (b :: s.blocks) K s.stable.time :=
    Reach.save b hr (fun a ha he => absurd he (Nat.ne_of_lt (env.fresh a ha))) hs
  have inv1 := reach_inv hr1
  have tree1 : TreeOK (b :: s.blocks) := treeOK_cons hb.tree inv.hfun env.fresh env.parLt hpU hph hpH hpT
  have hsubU : ∀ x ∈ s.g.cache, x ∈ s.blocks := fun x hx => ((inv.cacheIff x).1 hx).1
  have fr : Fresh s.g.cache b := by
    refine ⟨fun y hy he => ?_, fun y hy he => ?_, Nat.ne_of_lt env.parLt⟩
    · have := env.fresh y (hsubU y hy); omega
    · have := env.fresh y (hsubU y hy)
      have := hb.tree.parentLt y (hsubU y hy)
      omega
  have hhead1 : s.head ∈ g1.cache :=
    cached_of_time inv1 (List.mem_cons_of_mem _ hb.headIn) hb.headTime
  have hbn1 : ∀ x ∈ b :: s.blocks, x.ids.Nodup := by
    intro x hx
    rcases List.mem_cons.1 hx with h1 | h1
    · rw [h1]; exact hnd
    · exact hb.blockNodup x h1
  have hbnC : ∀ x ∈ g1.cache, x.ids.Nodup := fun x hx => hbn1 x ((inv1.cacheIff x).1 hx).1
  -- the stable block after the op and the new head
  have hstIn : (if stab then b else s.stable) ∈ b :: s.blocks := by
    cases stab
    · exact List.mem_cons_of_mem _ hb.stableIn
    · exact List.mem_cons_self ..
  have hstTime : s.stable.time ≤ (if stab = true then b else s.stable).time := by
    cases stab
    · exact Nat.le_refl _
    · exact hbTime
  have hnhTime : (if stab = true then b else s.stable).time ≤ nh.time :=
    anc_time inv1.hfun tree1 env.nhAnc nh env.nhIn rfl
  have hnh1 : nh ∈ g1.cache := cached_of_time inv1 env.nhIn (Nat.le_trans hstTime hnhTime)
  -- both heads descend from the old stable block: GetTxsByBranch cannot fail
  have hbAnc : Anc (b :: s.blocks) b.hash s.stable := Anc.step (List.mem_cons_self ..) (anc_mono env.parAnc)
  have hnhAncOld : Anc (b :: s.blocks) nh.hash s.stable := by
    cases stab
    · exact env.nhAnc
    · exact anc_trans env.nhAnc hbAnc
  have hstable1 : s.stable ∈ g1.cache := cached_of_time inv1 (List.mem_cons_of_mem _ hb.stableIn) (Nat.le_refl _)
  have hbranch : ∃ o n, g1.getTxsByBranch s.head.hash s.head.height nh.hash nh.height = .ok o n :=
    C04.getTxsByBranch_total hr1 tree1 hstable1 (List.mem_cons_of_mem _ hb.headIn) env.nhIn (anc_mono hb.headAnc) hnhAncOld
  -- unfold
  unfold afterSave at h
  split at h
  · rename_i pool1 g2 hp1 hg2
    injection h with h
    subst h
    -- the pool
    have hpoolRes : PoolOK pool1 ∧ (Clean s → PoolClean s.g s.head pool →
        (∀ pb, cacheGet s.g.cache b.parent = some pb → ¬ Traced s.g pb b.ids) →
        PoolClean g1 nh pool1 ∧ ∀ x ∈ g1.cache, BlockClean g1 x) := by
      have hclean1 : PoolClean s.g s.head pool → PoolClean g1 s.head pool := fun hc t ht htr =>
        hc t ht (save_traced_old inv hs fr hb.headCached htr)
      unfold headPool at hp1
      by_cases hsame : nh.hash = s.head.hash
      · rw [if_pos hsame] at hp1
        simp only at hp1
        have hnhEq : nh = s.head := inv1.hfun nh env.nhIn s.head (List.mem_cons_of_mem _ hb.headIn) hsame
        obtain ⟨ok1, hc1⟩ := sidePush_ok inv1 tree1 hhead1 b.txs pool pool1 (fun tx htx => tx_ids_nodup hnd htx) hpool hp1
        refine ⟨ok1, fun c hc hbc => ⟨?_, save_blockClean inv hs fr c.blocks hbc⟩⟩
        rw [hnhEq]
        exact hc1 (hclean1 hc)
      · rw [if_neg hsame] at hp1
        obtain ⟨ok1, hc1⟩ := onCurrentChanged_ok inv1 tree1 hhead1 hnh1 hbnC hpool hp1
        refine ⟨ok1, fun c hc hbc => ?_⟩
        have hbc1 := save_blockClean inv hs fr c.blocks hbc
        exact ⟨hc1 (Or.inr hbranch) hbc1 (hclean1 hc), hbc1⟩
    -- the prune
    unfold pruneIf at hg2
    cases stab with
    | false =>
      simp only [Bool.false_eq_true, if_false] at hg2 hnhTime hstTime ⊢
      injection hg2 with hg2
      subst hg2
      refine ⟨⟨⟨K, hr1⟩, tree1, hb.tBig, List.mem_cons_of_mem _ hb.stableIn, env.nhIn, env.nhAnc, hpoolRes.1, hbn1, hb.asked⟩,
        fun c hc hbc => ?_⟩
      obtain ⟨h1, h2⟩ := hpoolRes.2 c hc hbc
      exact ⟨h1, h2⟩
    | true =>
      simp only [if_true] at hg2 hnhTime hstTime ⊢
      cases hd : g1.delOldBlocks b.time with
      | ok g2' =>
        rw [hd] at hg2
        simp only [outGuard] at hg2
        injection hg2 with hg2
        subst hg2
        have hr2 := Reach.del b.time hr1 hd
        have hmax : max s.stable.time b.time = b.time := Nat.max_eq_right hbTime
        rw [hmax] at hr2
        refine ⟨⟨⟨_, hr2⟩, tree1, Nat.le_trans hb.tBig hbTime, List.mem_cons_self .., env.nhIn, env.nhAnc, hpoolRes.1, hbn1, hb.asked⟩,
          fun c hc hbc => ?_⟩
        obtain ⟨h1, h2⟩ := hpoolRes.2 c hc hbc
        exact ⟨fun t ht htr => h1 t ht (del_traced inv1 hd htr), del_blockClean inv1 hd h2⟩
      | panic => rw [hd] at hg2; simp [outGuard] at hg2
      | hang => rw [hd] at hg2; simp [outGuard] at hg2
  · cases h

/-! ### InsertBlock, InsertConfirms -/

theorem insert_ok {cfg : Cfg} {s s' : State} {b : Block} {stab : Bool} {nh : Block} (hb : Base cfg s)
    (henv : envB s (.insert b stab nh) = true) (h : PoolGuard.insert s b stab nh = some s') :
    Base cfg s' ∧ (Clean s → Clean s') := by
  unfold PoolGuard.insert at h
  cases hv : verifyTxs true s.g b with
  | ok r =>
    rw [hv] at h
    cases r with
    | false => simp only at h; injection h with h; subst h; exact ⟨hb, id⟩
    | true =>
      simp only at h
      obtain ⟨hnd, hex, _⟩ := verifyTxs_true hv
      cases hs : s.g.saveBlock b with
      | ok g1 =>
        rw [hs] at h
        simp only at h
        obtain ⟨h1, h2⟩ := afterSave_ok hb hs hb.pool (envB_insert henv) hnd h
        refine ⟨h1, fun c => h2 c c.pool ?_⟩
        intro pb hg
        have hpb := cacheGet_some hg
        obtain ⟨K, hr⟩ := hb.reach
        have := (exist_false_iff (reach_inv hr) hb.tree hpb.1 b.txs).1 (by rw [hpb.2]; exact hex)
        exact this
      | panic => rw [hs] at h; cases h
      | hang => rw [hs] at h; cases h
  | panic => rw [hv] at h; cases h
  | hang => rw [hv] at h; cases h

theorem confirm_ok {cfg : Cfg} {s s' : State} {st nh : Block} (hb : Base cfg s)
    (henv : envB s (.confirm st nh) = true) (h : confirm s st nh = some s') :
    Base cfg s' ∧ (Clean s → Clean s') := by
  obtain ⟨K, hr⟩ := hb.reach
  have inv := reach_inv hr
  have env := envB_confirm henv
  have hstTime : s.stable.time ≤ st.time := anc_time inv.hfun hb.tree env.stAnc st env.stIn rfl
  have hnhTime : st.time ≤ nh.time := anc_time inv.hfun hb.tree env.nhAnc nh env.nhIn rfl
  have hnhC : nh ∈ s.g.cache := cached_of_time inv env.nhIn (Nat.le_trans hstTime hnhTime)
  have hstableC : s.stable ∈ s.g.cache := cached_of_time inv hb.stableIn (Nat.le_refl _)
  have hbranch : ∃ o n, s.g.getTxsByBranch s.head.hash s.head.height nh.hash nh.height = .ok o n :=
    C04.getTxsByBranch_total hr hb.tree hstableC hb.headIn env.nhIn hb.headAnc (anc_trans env.nhAnc env.stAnc)
  have hbnC : ∀ x ∈ s.g.cache, x.ids.Nodup := fun x hx => hb.blockNodup x ((inv.cacheIff x).1 hx).1
  unfold confirm at h
  split at h
  · rename_i pool1 g1 hp1 hg1
    injection h with h
    subst h
    have hpoolRes : PoolOK pool1 ∧ (Clean s → PoolClean s.g nh pool1) := by
      unfold headPool at hp1
      by_cases hsame : nh.hash = s.head.hash
      · rw [if_pos hsame] at hp1
        simp only at hp1
        injection hp1 with hp1
        subst hp1
        have hnhEq : nh = s.head := inv.hfun nh env.nhIn s.head hb.headIn hsame
        rw [hnhEq]
        exact ⟨hb.pool, fun c => c.pool⟩
      · rw [if_neg hsame] at hp1
        obtain ⟨ok1, hc1⟩ := onCurrentChanged_ok inv hb.tree hb.headCached hnhC hbnC hb.pool hp1
        exact ⟨ok1, fun c => hc1 (Or.inr hbranch) c.blocks c.pool⟩
    unfold pruneIf at hg1
    simp only [if_true] at hg1
    cases hd : s.g.delOldBlocks st.time with
    | ok g2 =>
      rw [hd] at hg1
      simp only [outGuard] at hg1
      injection hg1 with hg1
      subst hg1
      have hr2 := Reach.del st.time hr hd
      rw [Nat.max_eq_right hstTime] at hr2
      refine ⟨⟨⟨_, hr2⟩, hb.tree, Nat.le_trans hb.tBig hstTime, env.stIn, env.nhIn, env.nhAnc, hpoolRes.1, hb.blockNodup, hb.asked⟩,
        fun c => ⟨fun t ht htr => hpoolRes.2 c t ht (del_traced inv hd htr), del_blockClean inv hd c.blocks⟩⟩
    | panic => rw [hd] at hg1; simp [outGuard] at hg1
    | hang => rw [hd] at hg1; simp [outGuard] at hg1
  · cases h

/-! ### MineBlock -/

structure Assembled (cfg : Cfg) (s : State) (hash now : Nat) (p2 : Pool.Pool) (b : Block) : Prop where
  pool : PoolOK p2
  sub : ∀ t ∈ Pool.live p2, t ∈ Pool.live s.pool
  hash : b.hash = hash
  parent : b.parent = s.head.hash
  height : b.height = s.head.height + 1
  time : b.time = mineTime s now
  txs : ∃ l : List PTx, l.Sublist (Pool.live s.pool) ∧ b.txs.Sublist (l.map ofPool)
  valid : ∀ tx ∈ b.txs, tx.validAt (mineTime s now) = true
  asked : cfg.minerAsksGuard = true → ∀ tx ∈ b.txs, s.g.existTxs s.head.hash [tx] = .ok false

theorem assemble_spec {cfg : Cfg} {s : State} (hb : Base cfg s) {hash now : Nat} {skip invalid : List Nat}
    {p2 : Pool.Pool} {b : Block} (h : assemble cfg s hash now skip invalid = some (p2, b)) :
    Assembled cfg s hash now p2 b := by
  unfold assemble at h
  obtain ⟨l, hget, hsub, _⟩ := poolGet_spec hb.pool.inv.toWInv (mineTime s now) maxTxsForMiner
  rw [hget] at h
  simp only at h
  by_cases hga : guardAnswers cfg s (candidates cfg s now l) = true
  · rw [if_pos hga] at h
    have ok1 : PoolOK (Pool.step true s.pool (.get (mineTime s now) maxTxsForMiner)).1 :=
      ⟨PoolLemmas.step_fixed_inv hb.pool.inv _, fun t ht => hb.pool.nodup t (live_get_sub hb.pool.inv.toWInv _ _ ht)⟩
    rw [poolDel_eq ok1.inv.toWInv] at h
    simp only at h
    have ok2 := poolOK_del ok1 (replayed cfg s (candidates cfg s now l))
    rw [poolDel_eq ok2.inv.toWInv] at h
    simp only at h
    injection h with h
    injection h with h1 h2
    subst h1 h2
    have hpk : (packable cfg s (candidates cfg s now l)).Sublist (candidates cfg s now l) := by
      unfold packable
      split
      · exact List.filter_sublist
      · exact List.Sublist.refl _
    have hcand : (candidates cfg s now l).Sublist (l.map ofPool) := List.filter_sublist
    refine ⟨poolOK_del ok2 _, ?_, rfl, rfl, rfl, rfl, ⟨l, hsub, ?_⟩, ?_, ?_⟩
    · intro t ht
      exact live_get_sub hb.pool.inv.toWInv _ _ (live_del_sub ok1.inv.toWInv _ (live_del_sub ok2.inv.toWInv _ ht))
    · exact List.Sublist.trans List.filter_sublist (List.Sublist.trans hpk hcand)
    · intro tx htx
      have h1 : tx ∈ candidates cfg s now l := hpk.subset (List.filter_sublist.subset htx)
      unfold candidates at h1
      have h2 := (List.mem_filter.1 h1).2
      simp only [validBody, Bool.and_eq_true] at h2
      exact h2.1
    · intro hask tx htx
      have h1 : tx ∈ packable cfg s (candidates cfg s now l) := List.filter_sublist.subset htx
      unfold packable at h1
      rw [if_pos hask] at h1
      have h2 := (List.mem_filter.1 h1).2
      simpa using h2
  · rw [if_neg hga] at h; cases h

/-- the hashes of any selection from the pending transactions are pairwise different -/
theorem selection_nodup {p : Pool.Pool} (ok : PoolOK p) {l : List PTx} (hl : l.Sublist (Pool.live p)) {txs : List Tx}
    (ht : txs.Sublist (l.map ofPool)) : (idsOf txs).Nodup := by
  have h1 : (idsOf txs).Sublist (idsOf (l.map ofPool)) := sublist_flatMap Tx.ids ht
  rw [idsOf_map_ofPool] at h1
  have h2 : (l.flatMap Pool.Tx.keys).Sublist ((Pool.live p).flatMap Pool.Tx.keys) := sublist_flatMap _ hl
  exact List.Nodup.sublist (List.Sublist.trans h1 h2) (nodup_flatMap_of _ _ ok.nodup ok.inv.live_pairwise)

/-- **the block the miner assembles passes `verifyTxs`** in every state satisfying `Base`, provided the miner asks the
    guard (the code since fix 609d2a8) or the pool is clean with respect to the head -/
theorem assembled_passes {cfg : Cfg} {s : State} (hb : Base cfg s)
    (hc : cfg.minerAsksGuard = true ∨ PoolClean s.g s.head s.pool) {hash now : Nat} {p2 : Pool.Pool} {b : Block}
    (ha : Assembled cfg s hash now p2 b) :
    verifyTxs true s.g b = .ok true ∧ ¬ Traced s.g s.head b.ids := by
  obtain ⟨K, hr⟩ := hb.reach
  have inv := reach_inv hr
  obtain ⟨l, hl, hsubl⟩ := ha.txs
  have hnd : b.ids.Nodup := selection_nodup hb.pool hl hsubl
  have hper : ∀ tx ∈ b.txs, s.g.existTxs s.head.hash [tx] = .ok false := by
    rcases hc with hask | hcl
    · exact ha.asked hask
    · intro tx htx
      obtain ⟨t, ht, e⟩ := List.mem_map.1 (hsubl.subset htx)
      rw [← e]
      apply (exist_false_iff inv hb.tree hb.headCached [ofPool t]).2
      rw [idsOf_single, ofPool_ids]
      exact hcl t (hl.subset ht)
  obtain ⟨r, hex, hiff⟩ := C04.existTxs_any hr hb.tree hb.headCached b.txs
  have hrf : r = false := by
    cases r with
    | false => rfl
    | true =>
      obtain ⟨tx, htx, h1⟩ := hiff.1 rfl
      rw [hper tx htx] at h1
      cases h1
  rw [hrf] at hex
  refine ⟨?_, (exist_false_iff inv hb.tree hb.headCached b.txs).1 hex⟩
  unfold verifyTxs
  rw [if_neg (by simp [hnd]), ha.parent, hex]
  simp only
  congr 1
  rw [ha.time]
  exact List.all_eq_true.2 ha.valid

theorem mineTime_ge (s : State) (now : Nat) : s.head.time ≤ mineTime s now := by
  unfold mineTime; split <;> omega

theorem mine_ok {cfg : Cfg} {s s' : State} {hash now : Nat} {skip invalid : List Nat} {stab : Bool} (hb : Base cfg s)
    (henv : envB s (.mine hash now skip invalid stab) = true)
    (h : mine cfg s hash now skip invalid stab = some s') :
    Base cfg s' ∧ (Clean s → Clean s') := by
  unfold mine at h
  cases hasm : assemble cfg s hash now skip invalid with
  | none => rw [hasm] at h; cases h
  | some r =>
    obtain ⟨p2, b⟩ := r
    rw [hasm] at h
    simp only at h
    have ha := assemble_spec hb hasm
    cases hs : s.g.saveBlock b with
    | ok g1 =>
      rw [hs] at h
      simp only at h
      have hfresh := freshId_spec (by simpa [envB] using henv : freshId s.blocks hash = true)
      obtain ⟨l, hl, hsubl⟩ := ha.txs
      have hnd : b.ids.Nodup := selection_nodup hb.pool hl hsubl
      have hparAnc : Anc s.blocks b.parent s.stable := by rw [ha.parent]; exact hb.headAnc
      have env : InsertEnv s b stab b := by
        refine ⟨fun x hx => by rw [ha.hash]; exact hfresh x hx, ?_, ⟨s.head, hb.headIn, ha.parent.symm, ha.height.symm, ?_⟩,
          hparAnc, List.mem_cons_self .., ?_⟩
        · rw [ha.parent, ha.hash]; exact hfresh _ hb.headIn
        · rw [ha.time]; exact mineTime_ge s now
        · cases stab
          · exact Anc.step (List.mem_cons_self ..) (anc_mono hparAnc)
          · exact Anc.self (List.mem_cons_self ..)
      obtain ⟨h1, h2⟩ := afterSave_ok hb hs ha.pool env hnd h
      refine ⟨h1, fun c => h2 c (fun t ht => c.pool t (ha.sub t ht)) ?_⟩
      intro pb hg
      rw [ha.parent] at hg
      obtain ⟨K, hr⟩ := hb.reach
      rw [cacheGet_eq (reach_inv hr).cacheFun hb.headCached] at hg
      injection hg with hg
      rw [← hg]
      exact (assembled_passes hb (Or.inr c.pool) ha).2
    | panic => rw [hs] at h; cases h
    | hang => rw [hs] at h; cases h

/-! ### every op, every run -/

theorem step_ok {cfg : Cfg} {s s' : State} {op : Op} (hb : Base cfg s) (henv : envB s op = true)
    (hn : cfg.boxDupCheck = true ∨ cleanB cfg s op = true) (h : step cfg s op = some s') :
    Base cfg s' ∧ (cleanB cfg s op = true → Clean s → Clean s') := by
  cases op with
  | ask now tx => obtain ⟨h1, h2⟩ := ask_ok hb henv h; exact ⟨h1, fun _ => h2⟩
  | add tx =>
    simp only [step] at h
    injection h with h
    subst h
    exact add_ok hb hn
  | pending now size => obtain ⟨h1, h2⟩ := pending_ok hb h; exact ⟨h1, fun _ => h2⟩
  | insert b stab nh => obtain ⟨h1, h2⟩ := insert_ok hb henv h; exact ⟨h1, fun _ => h2⟩
  | confirm st nh => obtain ⟨h1, h2⟩ := confirm_ok hb henv h; exact ⟨h1, fun _ => h2⟩
  | mine hash now skip invalid stab => obtain ⟨h1, h2⟩ := mine_ok hb henv h; exact ⟨h1, fun _ => h2⟩

/-- `Base` holds after every run whose ops satisfy the environment hypotheses (for the code before fix 786852c:
    and `cleanB`, which then also excludes a box repeating a sub-transaction) -/
theorem run_base {cfg : Cfg} : ∀ (ops : List Op) (s s' : State), Base cfg s → RunAll cfg envB s ops →
    (cfg.boxDupCheck = true ∨ RunAll cfg (cleanB cfg) s ops) → run cfg s ops = some s' → Base cfg s' := by
  intro ops
  induction ops with
  | nil => intro s s' hb _ _ h; simp only [run] at h; injection h with h; subst h; exact hb
  | cons op r ih =>
    intro s s' hb henv hcl h
    simp only [run] at h
    cases hst : step cfg s op with
    | none => rw [hst] at h; cases h
    | some s1 =>
      rw [hst] at h
      simp only [Option.bind_some] at h
      have hn : cfg.boxDupCheck = true ∨ cleanB cfg s op = true := hcl.imp id (fun x => x.1)
      exact ih s1 s' (step_ok hb henv.1 hn hst).1 (henv.2 s1 hst) (hcl.imp id (fun x => x.2 s1 hst)) h

theorem run_clean {cfg : Cfg} : ∀ (ops : List Op) (s s' : State), Base cfg s → Clean s → RunAll cfg envB s ops →
    RunAll cfg (cleanB cfg) s ops → run cfg s ops = some s' → Clean s' := by
  intro ops
  induction ops with
  | nil => intro s s' _ hc _ _ h; simp only [run] at h; injection h with h; subst h; exact hc
  | cons op r ih =>
    intro s s' hb hc henv hcl h
    simp only [run] at h
    cases hst : step cfg s op with
    | none => rw [hst] at h; cases h
    | some s1 =>
      rw [hst] at h
      simp only [Option.bind_some] at h
      obtain ⟨hb1, hc1⟩ := step_ok hb henv.1 (Or.inr hcl.1) hst
      exact ih s1 s' hb1 (hc1 hcl.1 hc) (henv.2 s1 hst) (hcl.2 s1 hst) h

/-! ### no op panics -/

theorem existTxs_total {g : Guard} {U : List Block} {K : List Nat} {T : Nat} (inv : TxGuardLemmas.Inv g U K T)
    (tree : TreeOK U) {pb : Block} (hpb : pb ∈ g.cache) (txs : List Tx) : ∃ r, g.existTxs pb.hash txs = .ok r := by
  obtain ⟨r, hr, _⟩ := exist_traced inv tree hpb txs
  exact ⟨r, hr⟩

theorem sidePush_total {g : Guard} {U : List Block} {K : List Nat} {T : Nat} (inv : TxGuardLemmas.Inv g U K T)
    (tree : TreeOK U) {head : Block} (hhead : head ∈ g.cache) :
    ∀ (txs : List Tx) (p : Pool.Pool), ∃ p', sidePush g head.hash p txs = some p' := by
  intro txs
  induction txs with
  | nil => intro p; exact ⟨p, rfl⟩
  | cons tx r ih =>
    intro p
    obtain ⟨res, hres⟩ := existTxs_total inv tree hhead [tx]
    unfold sidePush
    rw [hres]
    cases res
    · exact ih _
    · exact ih _

theorem onCurrentChanged_total {g : Guard} {old new : Block} {p : Pool.Pool} (ok : PoolOK p)
    (hbr : new.parent = old.hash ∨ ∃ o n, g.getTxsByBranch old.hash old.height new.hash new.height = .ok o n) :
    ∃ p', onCurrentChanged g p old new = some p' := by
  unfold onCurrentChanged
  by_cases hpar : new.parent = old.hash
  · rw [if_pos hpar, poolDel_eq ok.inv.toWInv]; exact ⟨_, rfl⟩
  · rw [if_neg hpar]
    rcases hbr with h1 | ⟨o, n, h1⟩
    · exact absurd h1 hpar
    · rw [h1]
      simp only
      have w : PoolLemmas.WInv (poolAdds p o) := (PoolLemmas.step_fixed_inv ok.inv _).toWInv
      rw [poolDel_eq w]; exact ⟨_, rfl⟩

theorem delOldBlocks_total (g : Guard) {T' : Nat} (h : 1800 ≤ T') : ∃ g', g.delOldBlocks T' = .ok g' := by
  unfold Guard.delOldBlocks
  rw [lifeTime_eq, if_neg (by omega)]
  exact ⟨_, rfl⟩

theorem afterSave_total {cfg : Cfg} {s : State} (hb : Base cfg s) {g1 : Guard} {pool : Pool.Pool} {b : Block}
    {stab : Bool} {nh : Block} (hs : s.g.saveBlock b = .ok g1) (hpool : PoolOK pool)
    (env : InsertEnv s b stab nh) : ∃ s', afterSave s g1 pool b stab nh = some s' := by
  obtain ⟨K, hr⟩ := hb.reach
  have inv := reach_inv hr
  obtain ⟨p, hpU, hph, hpH, hpT⟩ := env.par
  have hpTime : s.stable.time ≤ p.time := anc_time inv.hfun hb.tree env.parAnc p hpU hph
  have hbTime : s.stable.time ≤ b.time := Nat.le_trans hpTime hpT
  have hr1 : Reach g1 (b :: s.blocks) K s.stable.time :=
    Reach.save b hr (fun a ha he => absurd he (Nat.ne_of_lt (env.fresh a ha))) hs
  have inv1 := reach_inv hr1
  have tree1 : TreeOK (b :: s.blocks) := treeOK_cons hb.tree inv.hfun env.fresh env.parLt hpU hph hpH hpT
  have hhead1 : s.head ∈ g1.cache := cached_of_time inv1 (List.mem_cons_of_mem _ hb.headIn) hb.headTime
  have hbAnc : Anc (b :: s.blocks) b.hash s.stable := Anc.step (List.mem_cons_self ..) (anc_mono env.parAnc)
  have hnhAncOld : Anc (b :: s.blocks) nh.hash s.stable := by
    cases stab
    · exact env.nhAnc
    · exact anc_trans env.nhAnc hbAnc
  have hstable1 : s.stable ∈ g1.cache := cached_of_time inv1 (List.mem_cons_of_mem _ hb.stableIn) (Nat.le_refl _)
  have hbranch : ∃ o n, g1.getTxsByBranch s.head.hash s.head.height nh.hash nh.height = .ok o n :=
    C04.getTxsByBranch_total hr1 tree1 hstable1 (List.mem_cons_of_mem _ hb.headIn) env.nhIn (anc_mono hb.headAnc) hnhAncOld
  have h1 : ∃ pool1, headPool g1 pool s.head nh (some b.txs) = some pool1 := by
    unfold headPool
    by_cases hsame : nh.hash = s.head.hash
    · rw [if_pos hsame]; exact sidePush_total inv1 tree1 hhead1 _ _
    · rw [if_neg hsame]; exact onCurrentChanged_total hpool (Or.inr hbranch)
  have h2 : ∃ g2, pruneIf g1 stab b.time = some g2 := by
    unfold pruneIf
    cases stab
    · exact ⟨g1, rfl⟩
    · obtain ⟨g2, hg2⟩ := delOldBlocks_total g1 (Nat.le_trans hb.tBig hbTime)
      simp only [if_true, hg2, outGuard]; exact ⟨g2, rfl⟩
  obtain ⟨pool1, hp1⟩ := h1
  obtain ⟨g2, hg2⟩ := h2
  unfold afterSave
  rw [hp1, hg2]
  exact ⟨_, rfl⟩

theorem step_total {cfg : Cfg} {s : State} {op : Op} (hb : Base cfg s) (henv : envB s op = true) :
    ∃ s', step cfg s op = some s' := by
  obtain ⟨K, hr⟩ := hb.reach
  have inv := reach_inv hr
  cases op with
  | ask now tx =>
    simp only [step, ask]
    obtain ⟨r, hex⟩ := existTxs_total inv hb.tree hb.headCached [tx]
    rw [hex]
    split
    · cases r <;> exact ⟨_, rfl⟩
    · exact ⟨_, rfl⟩
  | add tx => exact ⟨_, rfl⟩
  | pending now size =>
    simp only [step]
    obtain ⟨l, hget, _⟩ := poolGet_spec hb.pool.inv.toWInv now size
    unfold poolGet at hget
    generalize Pool.step true s.pool (.get now size) = r at hget ⊢
    obtain ⟨p', o⟩ := r
    cases o <;> first | (simp at hget; done) | exact ⟨_, rfl⟩
  | insert b stab nh =>
    simp only [step, PoolGuard.insert]
    have env := envB_insert henv
    obtain ⟨p, hpU, hph, _, hpT⟩ := env.par
    have hpTime : s.stable.time ≤ p.time := anc_time inv.hfun hb.tree env.parAnc p hpU hph
    have hpC : p ∈ s.g.cache := cached_of_time inv hpU hpTime
    have hv : ∃ r, verifyTxs true s.g b = .ok r := by
      unfold verifyTxs
      split
      · exact ⟨_, rfl⟩
      · obtain ⟨r, hex⟩ := existTxs_total inv hb.tree hpC b.txs
        rw [← hph, hex]
        cases r <;> exact ⟨_, rfl⟩
    obtain ⟨r, hv⟩ := hv
    rw [hv]
    cases r
    · exact ⟨_, rfl⟩
    · obtain ⟨g1, hs⟩ := save_no_panic hr b
      simp only [hs]
      exact afterSave_total hb hs hb.pool env
  | confirm st nh =>
    simp only [step, confirm]
    have env := envB_confirm henv
    have hstTime : s.stable.time ≤ st.time := anc_time inv.hfun hb.tree env.stAnc st env.stIn rfl
    have hstableC : s.stable ∈ s.g.cache := cached_of_time inv hb.stableIn (Nat.le_refl _)
    have hbranch : ∃ o n, s.g.getTxsByBranch s.head.hash s.head.height nh.hash nh.height = .ok o n :=
      C04.getTxsByBranch_total hr hb.tree hstableC hb.headIn env.nhIn hb.headAnc (anc_trans env.nhAnc env.stAnc)
    have h1 : ∃ pool1, headPool s.g s.pool s.head nh none = some pool1 := by
      unfold headPool
      by_cases hsame : nh.hash = s.head.hash
      · rw [if_pos hsame]; exact ⟨_, rfl⟩
      · rw [if_neg hsame]; exact onCurrentChanged_total hb.pool (Or.inr hbranch)
    obtain ⟨pool1, hp1⟩ := h1
    obtain ⟨g2, hg2⟩ := delOldBlocks_total s.g (Nat.le_trans hb.tBig hstTime)
    rw [hp1]
    simp only [pruneIf, if_true, hg2, outGuard]
    exact ⟨_, rfl⟩
  | mine hash now skip invalid stab =>
    simp only [step, mine]
    have hasm : ∃ p2 b, assemble cfg s hash now skip invalid = some (p2, b) := by
      unfold assemble
      obtain ⟨l, hget, _, _⟩ := poolGet_spec hb.pool.inv.toWInv (mineTime s now) maxTxsForMiner
      rw [hget]
      simp only
      have hga : guardAnswers cfg s (candidates cfg s now l) = true := by
        unfold guardAnswers
        simp only [Bool.or_eq_true, Bool.not_eq_true', List.all_eq_true]
        right
        intro tx _
        obtain ⟨r, hex⟩ := existTxs_total inv hb.tree hb.headCached [tx]
        rw [hex]; rfl
      rw [if_pos hga]
      have ok1 : PoolOK (Pool.step true s.pool (.get (mineTime s now) maxTxsForMiner)).1 :=
        ⟨PoolLemmas.step_fixed_inv hb.pool.inv _, fun t ht => hb.pool.nodup t (live_get_sub hb.pool.inv.toWInv _ _ ht)⟩
      rw [poolDel_eq ok1.inv.toWInv]
      simp only
      have ok2 := poolOK_del ok1 (replayed cfg s (candidates cfg s now l))
      rw [poolDel_eq ok2.inv.toWInv]
      exact ⟨_, _, rfl⟩
    obtain ⟨p2, b, hasm⟩ := hasm
    rw [hasm]
    simp only
    have ha := assemble_spec hb hasm
    obtain ⟨g1, hs⟩ := save_no_panic hr b
    simp only [hs]
    have hfresh := freshId_spec (by simpa [envB] using henv : freshId s.blocks hash = true)
    have hparAnc : Anc s.blocks b.parent s.stable := by rw [ha.parent]; exact hb.headAnc
    have env : InsertEnv s b stab b := by
      refine ⟨fun x hx => by rw [ha.hash]; exact hfresh x hx, ?_, ⟨s.head, hb.headIn, ha.parent.symm, ha.height.symm, ?_⟩,
        hparAnc, List.mem_cons_self .., ?_⟩
      · rw [ha.parent, ha.hash]; exact hfresh _ hb.headIn
      · rw [ha.time]; exact mineTime_ge s now
      · cases stab
        · exact Anc.step (List.mem_cons_self ..) (anc_mono hparAnc)
        · exact Anc.self (List.mem_cons_self ..)
    exact afterSave_total hb hs ha.pool env

/-- a run whose ops satisfy the environment hypotheses never panics -/
theorem run_total {cfg : Cfg} : ∀ (ops : List Op) (s : State), Base cfg s → RunAll cfg envB s ops →
    (cfg.boxDupCheck = true ∨ RunAll cfg (cleanB cfg) s ops) → ∃ s', run cfg s ops = some s' := by
  intro ops
  induction ops with
  | nil => intro s _ _ _; exact ⟨s, rfl⟩
  | cons op r ih =>
    intro s hb henv hcl
    obtain ⟨s1, hst⟩ := step_total (cfg := cfg) hb henv.1
    have hn : cfg.boxDupCheck = true ∨ cleanB cfg s op = true := hcl.imp id (fun x => x.1)
    obtain ⟨s', hs'⟩ := ih s1 (step_ok hb henv.1 hn hst).1 (henv.2 s1 hst) (hcl.imp id (fun x => x.2 s1 hst))
    exact ⟨s', by simp only [run, hst, Option.bind_some]; exact hs'⟩

end LemoProofs.PoolGuardLemmas

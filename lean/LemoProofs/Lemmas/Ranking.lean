/-
  Helper lemmas for C10 (LemoModel/Ranking.lean): the order on candidates, the selection sort of
  vote.go, the specification `fullSort`, and set-level facts about the association-list operations.
-/
import LemoModel.Ranking
namespace LemoProofs.Ranking
open LemoModel LemoModel.Ranking List

/-! ## the order -/

/-- `a` is ranked at or before `b`: votes descending, ties by address ascending -/
def LE (a b : Cand) : Prop := a.votes > b.votes ∨ (a.votes = b.votes ∧ a.addr ≤ b.addr)

instance (a b : Cand) : Decidable (LE a b) := by unfold LE; infer_instance

theorem before_iff (a b : Cand) : before a b = true ↔ (a.votes > b.votes ∨ (a.votes = b.votes ∧ a.addr < b.addr)) := by
  simp [before]

theorem swapNeeded_eq (a b : Cand) : swapNeeded a b = before b a := by
  simp [swapNeeded, before]
  by_cases h1 : a.votes < b.votes <;> by_cases h2 : a.votes = b.votes <;> simp [h1, h2] <;> omega

theorem rankLE_iff (a b : Cand) : rankLE a b = true ↔ LE a b := by
  simp [rankLE, LE]

theorem not_before_iff (a b : Cand) : before a b = false ↔ LE b a := by
  rw [← Bool.not_eq_true, before_iff]; unfold LE; omega

theorem LE_refl (a : Cand) : LE a a := by unfold LE; omega

theorem LE_total (a b : Cand) : LE a b ∨ LE b a := by unfold LE; omega

theorem LE_trans {a b c : Cand} (h1 : LE a b) (h2 : LE b c) : LE a c := by
  unfold LE at *; omega

theorem LE_antisymm {a b : Cand} (h1 : LE a b) (h2 : LE b a) : a = b := by
  unfold LE at *
  cases a; cases b; simp at *; omega

theorem before_LE {a b : Cand} (h : before a b = true) : LE a b := by
  rw [before_iff] at h; unfold LE; omega

theorem LE_votes {a b : Cand} (h : LE a b) : a.votes ≥ b.votes := by unfold LE at h; omega

/-- sorted lists that are permutations of each other are equal -/
theorem sorted_perm_eq {l₁ l₂ : List Cand} (h₁ : l₁.Pairwise LE) (h₂ : l₂.Pairwise LE) (hp : l₁ ~ l₂) :
    l₁ = l₂ :=
  Perm.eq_of_pairwise (fun _ _ _ _ hab hba => LE_antisymm hab hba) h₁ h₂ hp

/-! ## fullSort -/

theorem insertC_perm (c : Cand) (l : List Cand) : insertC c l ~ c :: l := by
  induction l with
  | nil => simp [insertC]
  | cons x xs ih =>
    simp only [insertC]
    split
    · exact (Perm.cons x ih).trans (Perm.swap c x xs)
    · exact Perm.refl _

theorem fullSort_perm (l : List Cand) : fullSort l ~ l := by
  induction l with
  | nil => simp [fullSort]
  | cons c cs ih => exact (insertC_perm c _).trans (Perm.cons c ih)

theorem insertC_sorted (c : Cand) {l : List Cand} (h : l.Pairwise LE) : (insertC c l).Pairwise LE := by
  induction l with
  | nil => simp [insertC]
  | cons x xs ih =>
    simp only [insertC]
    have hx := (pairwise_cons.mp h)
    split
    · rename_i hb
      refine pairwise_cons.mpr ⟨?_, ih hx.2⟩
      intro y hy
      have := (insertC_perm c xs).mem_iff.mp hy
      rcases mem_cons.mp this with rfl | hy'
      · exact before_LE hb
      · exact hx.1 y hy'
    · rename_i hb
      have hcx : LE c x := (not_before_iff x c).mp (by simpa using hb)
      refine pairwise_cons.mpr ⟨?_, h⟩
      intro y hy
      rcases mem_cons.mp hy with rfl | hy'
      · exact hcx
      · exact LE_trans hcx (hx.1 y hy')

theorem fullSort_sorted (l : List Cand) : (fullSort l).Pairwise LE := by
  induction l with
  | nil => simp [fullSort]
  | cons c cs ih => exact insertC_sorted c ih

theorem fullSort_length (l : List Cand) : (fullSort l).length = l.length := (fullSort_perm l).length_eq

theorem mem_fullSort {l : List Cand} {x : Cand} : x ∈ fullSort l ↔ x ∈ l := (fullSort_perm l).mem_iff

/-- `fullSort` depends only on the multiset of its input -/
theorem fullSort_congr {l₁ l₂ : List Cand} (h : l₁ ~ l₂) : fullSort l₁ = fullSort l₂ :=
  sorted_perm_eq (fullSort_sorted _) (fullSort_sorted _) ((fullSort_perm l₁).trans (h.trans (fullSort_perm l₂).symm))

theorem fullSort_of_sorted {l : List Cand} (h : l.Pairwise LE) : fullSort l = l :=
  sorted_perm_eq (fullSort_sorted _) h (fullSort_perm l)

/-- a sorted head block followed by the sort of the rest is the sort of the whole -/
theorem fullSort_split {A N rest : List Cand} (hN : N.Pairwise LE) (hp : A ~ N ++ rest)
    (hle : ∀ n ∈ N, ∀ y ∈ rest, LE n y) : fullSort A = N ++ fullSort rest := by
  apply sorted_perm_eq (fullSort_sorted _)
  · rw [pairwise_append]
    exact ⟨hN, fullSort_sorted _, fun n hn y hy => hle n hn y (mem_fullSort.mp hy)⟩
  · exact (fullSort_perm A).trans (hp.trans (Perm.append_left N (fullSort_perm rest).symm))

/-! ## the selection sort -/

theorem pass_spec (c : Cand) (cs : List Cand) :
    ((pass c cs).1 :: (pass c cs).2) ~ c :: cs ∧ LE (pass c cs).1 c ∧ ∀ x ∈ cs, LE (pass c cs).1 x := by
  induction cs generalizing c with
  | nil => simp [pass, LE_refl]
  | cons x xs ih =>
    simp only [pass]
    split
    · rename_i hs
      rw [swapNeeded_eq] at hs
      obtain ⟨hp, hx, hall⟩ := ih x
      have hxc : LE x c := before_LE hs
      refine ⟨?_, LE_trans hx hxc, ?_⟩
      · -- m :: c :: r ~ c :: x :: xs
        exact (Perm.swap c _ _).trans (Perm.cons c hp)
      · intro y hy
        rcases mem_cons.mp hy with rfl | hy'
        · exact hx
        · exact hall y hy'
    · rename_i hs
      rw [swapNeeded_eq] at hs
      obtain ⟨hp, hc, hall⟩ := ih c
      have hcx : LE c x := (not_before_iff x c).mp (by simpa using hs)
      refine ⟨?_, hc, ?_⟩
      · exact (Perm.swap x _ _).trans ((Perm.cons x hp).trans (Perm.swap c x xs))
      · intro y hy
        rcases mem_cons.mp hy with rfl | hy'
        · exact LE_trans hc hcx
        · exact hall y hy'

theorem selSort_eq (k : Nat) (cs : List Cand) : selSort k cs = (fullSort cs).take k := by
  induction k generalizing cs with
  | zero => simp [selSort]
  | succ k ih =>
    cases cs with
    | nil => simp [selSort, fullSort]
    | cons c cs =>
      obtain ⟨hp, hc, hall⟩ := pass_spec c cs
      have hsplit : fullSort (c :: cs) = [(pass c cs).1] ++ fullSort (pass c cs).2 := by
        apply fullSort_split (by simp) (by simpa using hp.symm)
        intro n hn y hy
        simp at hn; subst hn
        have : y ∈ c :: cs := hp.mem_iff.mp (mem_cons_of_mem _ hy)
        rcases mem_cons.mp this with rfl | h
        · exact hc
        · exact hall y h
      simp only [selSort]
      rw [hsplit, ih]
      simp

theorem take_min_length {α} (k : Nat) (l : List α) : l.take (min k l.length) = l.take k := by
  by_cases h : k ≤ l.length
  · rw [Nat.min_eq_left h]
  · have h' : l.length ≤ k := by omega
    rw [Nat.min_eq_right h', take_of_length_le (Nat.le_refl _), take_of_length_le h']

/-! ## association lists as sets -/

/-- at most one entry per address -/
def AddrNodup (l : List Cand) : Prop := (l.map (·.addr)).Nodup

theorem AddrNodup.nodup {l : List Cand} (h : AddrNodup l) : l.Nodup :=
  Pairwise.of_map (·.addr) (fun _ _ hab e => hab (e ▸ rfl)) h

theorem AddrNodup.eq_of_addr {l : List Cand} (h : AddrNodup l) {x y : Cand} (hx : x ∈ l) (hy : y ∈ l)
    (ha : x.addr = y.addr) : x = y := by
  induction l with
  | nil => simp at hx
  | cons z zs ih =>
    have hz := nodup_cons.mp (show Nodup (z.addr :: zs.map (·.addr)) from h)
    rcases mem_cons.mp hx with rfl | hx' <;> rcases mem_cons.mp hy with rfl | hy'
    · rfl
    · exact absurd (mem_map.mpr ⟨y, hy', ha.symm⟩) hz.1
    · exact absurd (mem_map.mpr ⟨x, hx', ha⟩) hz.1
    · exact ih hz.2 hx' hy'

theorem AddrNodup.sublist {l l' : List Cand} (h : AddrNodup l) (hs : l' <+ l) : AddrNodup l' :=
  Nodup.sublist (hs.map _) h

theorem AddrNodup.perm {l l' : List Cand} (h : AddrNodup l) (hp : l ~ l') : AddrNodup l' :=
  (hp.map _).nodup_iff.mp h

theorem mem_putCand {l : List Cand} {c x : Cand} :
    x ∈ putCand l c ↔ x = c ∨ (x ∈ l ∧ x.addr ≠ c.addr) := by
  simp [putCand]

theorem addrNodup_putCand {l : List Cand} (c : Cand) (h : AddrNodup l) : AddrNodup (putCand l c) := by
  unfold AddrNodup putCand
  rw [map_cons, nodup_cons]
  constructor
  · intro hm
    obtain ⟨y, hy, hya⟩ := mem_map.mp hm
    simp at hy
    exact hy.2 hya
  · exact Nodup.sublist (filter_sublist.map _) h

theorem addrNodup_foldl_putCand (L : List Cand) {S : List Cand} (h : AddrNodup S) :
    AddrNodup (L.foldl putCand S) := by
  induction L generalizing S with
  | nil => simpa
  | cons l L ih => exact ih (addrNodup_putCand l h)

theorem mem_foldl_putCand {L : List Cand} (hL : AddrNodup L) {S : List Cand} {x : Cand} :
    x ∈ L.foldl putCand S ↔ x ∈ L ∨ (x ∈ S ∧ ∀ l ∈ L, l.addr ≠ x.addr) := by
  induction L generalizing S with
  | nil => simp
  | cons l L ih =>
    have hl := nodup_cons.mp (show Nodup (l.addr :: L.map (·.addr)) from hL)
    have hL' : AddrNodup L := hl.2
    rw [foldl_cons, ih hL', mem_putCand]
    constructor
    · rintro (h | ⟨h | ⟨hS, hne⟩, hall⟩)
      · exact Or.inl (mem_cons_of_mem _ h)
      · exact Or.inl (h ▸ mem_cons_self)
      · refine Or.inr ⟨hS, ?_⟩
        intro l' hl'
        rcases mem_cons.mp hl' with rfl | h'
        · exact fun e => hne e.symm
        · exact hall l' h'
    · rintro (h | ⟨hS, hall⟩)
      · rcases mem_cons.mp h with rfl | h'
        · refine Or.inr ⟨Or.inl rfl, ?_⟩
          intro l' hl' e
          exact hl.1 (mem_map.mpr ⟨l', hl', e⟩)
        · exact Or.inl h'
      · refine Or.inr ⟨Or.inr ⟨hS, fun e => hall l mem_cons_self e.symm⟩, ?_⟩
        intro l' hl'
        exact hall l' (mem_cons_of_mem _ hl')

theorem mem_filterUnreg {l : List Cand} {U : List Nat} {x : Cand} :
    x ∈ filterUnreg l U ↔ x ∈ l ∧ x.addr ∉ U := by
  simp [filterUnreg]

theorem filterUnreg_sublist (l : List Cand) (U : List Nat) : filterUnreg l U <+ l := filter_sublist

/-! ## the top-k of a set -/

theorem take_fullSort_of_sorted {l : List Cand} {k : Nat} (h : l.Pairwise LE) (hk : l.length ≤ k) :
    (fullSort l).take k = l := by
  rw [fullSort_of_sorted h, take_of_length_le hk]

/-- in a sorted list every element is at or before the last one -/
theorem sorted_le_last {l : List Cand} {z : Cand} (h : l.Pairwise LE) (hz : l.getLast? = some z) :
    ∀ n ∈ l, LE n z := by
  obtain ⟨ys, rfl⟩ := getLast?_eq_some_iff.mp hz
  intro n hn
  rcases mem_append.mp hn with h' | h'
  · exact (pairwise_append.mp h).2.2 n h' z (by simp)
  · simp at h'; subst h'; exact LE_refl _

/-- elements of a set outside its top-k are at or after every element of the top-k -/
theorem outside_top {R : List Cand} {k : Nat} {x : Cand} (hx : x ∈ R) (hnot : x ∉ (fullSort R).take k) :
    ∀ t ∈ (fullSort R).take k, LE t x := by
  have hx' : x ∈ fullSort R := mem_fullSort.mpr hx
  rw [← take_append_drop k (fullSort R)] at hx'
  rcases mem_append.mp hx' with h | h
  · exact absurd h hnot
  · intro t ht
    have hs := fullSort_sorted R
    rw [← take_append_drop k (fullSort R)] at hs
    exact (pairwise_append.mp hs).2.2 t ht x h

/-- KEY LEMMA (merge branch): if `M ⊆ R'`, the top-k of `M` is full, and everything of `R'` outside
    `M` is at or after every element of that top-k, then it is also the top-k of `R'`. -/
theorem topk_extend {M R' : List Cand} {k : Nat} (hM : M.Nodup) (hR' : R'.Nodup)
    (hsub : ∀ x ∈ M, x ∈ R') (hfull : ((fullSort M).take k).length = k)
    (hout : ∀ x ∈ R', x ∉ M → ∀ n ∈ (fullSort M).take k, LE n x) :
    (fullSort R').take k = (fullSort M).take k := by
  let N := (fullSort M).take k
  let D := (fullSort M).drop k
  let X := R'.filter (fun x => decide (x ∉ M))
  have hsM := fullSort_sorted M
  rw [← take_append_drop k (fullSort M)] at hsM
  have hpw := pairwise_append.mp hsM
  have hperm : R' ~ N ++ (D ++ X) := by
    have h1 : R' ~ R'.filter (fun x => decide (x ∈ M)) ++ X := by
      have := (filter_append_perm (fun x => decide (x ∈ M)) R').symm
      refine this.trans (Perm.append_left _ ?_)
      apply Perm.of_eq
      apply filter_congr
      intro x _; simp
    have h2 : R'.filter (fun x => decide (x ∈ M)) ~ M := by
      apply (perm_ext_iff_of_nodup (hR'.filter _) hM).mpr
      intro a; simp only [mem_filter, decide_eq_true_eq]
      exact ⟨fun h => h.2, fun h => ⟨hsub a h, h⟩⟩
    have h3 : M ~ N ++ D := by
      have := (fullSort_perm M).symm
      rwa [← take_append_drop k (fullSort M)] at this
    calc R' ~ R'.filter (fun x => decide (x ∈ M)) ++ X := h1
      _ ~ M ++ X := Perm.append_right _ h2
      _ ~ (N ++ D) ++ X := Perm.append_right _ h3
      _ = N ++ (D ++ X) := append_assoc _ _ _
  have hsplit : fullSort R' = N ++ fullSort (D ++ X) := by
    apply fullSort_split hpw.1 hperm
    intro n hn y hy
    rcases mem_append.mp hy with h | h
    · exact hpw.2.2 n hn y h
    · have hy' := mem_filter.mp h
      exact hout y hy'.1 (by simpa using hy'.2) n hn
  rw [hsplit, take_left' hfull]

/-! ## accounts -/

def AcctNodup (l : List Acct) : Prop := (l.map (·.addr)).Nodup

theorem AcctNodup.eq_of_addr {l : List Acct} (h : AcctNodup l) {x y : Acct} (hx : x ∈ l) (hy : y ∈ l)
    (ha : x.addr = y.addr) : x = y := by
  induction l with
  | nil => simp at hx
  | cons z zs ih =>
    have hz := nodup_cons.mp (show Nodup (z.addr :: zs.map (·.addr)) from h)
    rcases mem_cons.mp hx with rfl | hx' <;> rcases mem_cons.mp hy with rfl | hy'
    · rfl
    · exact absurd (mem_map.mpr ⟨y, hy', ha.symm⟩) hz.1
    · exact absurd (mem_map.mpr ⟨x, hx', ha⟩) hz.1
    · exact ih hz.2 hx' hy'

theorem mem_putAcct {l : List Acct} {c x : Acct} :
    x ∈ putAcct l c ↔ x = c ∨ (x ∈ l ∧ x.addr ≠ c.addr) := by
  simp [putAcct]

theorem acctNodup_putAcct {l : List Acct} (c : Acct) (h : AcctNodup l) : AcctNodup (putAcct l c) := by
  unfold AcctNodup putAcct
  rw [map_cons, nodup_cons]
  constructor
  · intro hm
    obtain ⟨y, hy, hya⟩ := mem_map.mp hm
    simp at hy
    exact hy.2 hya
  · exact Nodup.sublist (filter_sublist.map _) h

theorem acctNodup_foldl_putAcct (L : List Acct) {S : List Acct} (h : AcctNodup S) :
    AcctNodup (L.foldl putAcct S) := by
  induction L generalizing S with
  | nil => simpa
  | cons l L ih => exact ih (acctNodup_putAcct l h)

theorem mem_foldl_putAcct {L : List Acct} (hL : AcctNodup L) {S : List Acct} {x : Acct} :
    x ∈ L.foldl putAcct S ↔ x ∈ L ∨ (x ∈ S ∧ ∀ l ∈ L, l.addr ≠ x.addr) := by
  induction L generalizing S with
  | nil => simp
  | cons l L ih =>
    have hl := nodup_cons.mp (show Nodup (l.addr :: L.map (·.addr)) from hL)
    have hL' : AcctNodup L := hl.2
    rw [foldl_cons, ih hL', mem_putAcct]
    constructor
    · rintro (h | ⟨h | ⟨hS, hne⟩, hall⟩)
      · exact Or.inl (mem_cons_of_mem _ h)
      · exact Or.inl (h ▸ mem_cons_self)
      · refine Or.inr ⟨hS, ?_⟩
        intro l' hl'
        rcases mem_cons.mp hl' with rfl | h'
        · exact fun e => hne e.symm
        · exact hall l' h'
    · rintro (h | ⟨hS, hall⟩)
      · rcases mem_cons.mp h with rfl | h'
        · refine Or.inr ⟨Or.inl rfl, ?_⟩
          intro l' hl' e
          exact hl.1 (mem_map.mpr ⟨l', hl', e⟩)
        · exact Or.inl h'
      · refine Or.inr ⟨Or.inr ⟨hS, fun e => hall l mem_cons_self e.symm⟩, ?_⟩
        intro l' hl'
        exact hall l' (mem_cons_of_mem _ hl')

theorem mem_registered {accts : List Acct} {x : Cand} :
    x ∈ registered accts ↔ ∃ y ∈ accts, y.flag = Flag.yes ∧ y.addr = x.addr ∧ y.votes = x.votes := by
  cases x with
  | mk a v =>
    simp only [registered, mem_map, mem_filter, beq_iff_eq, Cand.mk.injEq]
    constructor
    · rintro ⟨y, ⟨hy, hf⟩, h1, h2⟩; exact ⟨y, hy, hf, h1, h2⟩
    · rintro ⟨y, hy, hf, h1, h2⟩; exact ⟨y, ⟨hy, hf⟩, h1, h2⟩

theorem addrNodup_registered {accts : List Acct} (h : AcctNodup accts) : AddrNodup (registered accts) := by
  unfold AddrNodup registered
  rw [map_map]
  exact Nodup.sublist (filter_sublist.map _) h

theorem flagOf_eq_yes_iff {accts : List Acct} (h : AcctNodup accts) (a : Nat) :
    flagOf accts a = Flag.yes ↔ ∃ y ∈ accts, y.addr = a ∧ y.flag = Flag.yes := by
  induction accts with
  | nil => simp [flagOf, findAcct]
  | cons z zs ih =>
    have hz := nodup_cons.mp (show Nodup (z.addr :: zs.map (·.addr)) from h)
    by_cases hza : z.addr = a
    · have : flagOf (z :: zs) a = z.flag := by simp [flagOf, findAcct, hza]
      rw [this]
      constructor
      · intro hf; exact ⟨z, mem_cons_self, hza, hf⟩
      · rintro ⟨y, hy, hya, hyf⟩
        rcases mem_cons.mp hy with rfl | hy'
        · exact hyf
        · exact absurd (mem_map.mpr ⟨y, hy', hya.trans hza.symm⟩) hz.1
    · have : flagOf (z :: zs) a = flagOf zs a := by
        simp [flagOf, findAcct, find?_cons, hza]
      rw [this, ih hz.2]
      constructor
      · rintro ⟨y, hy, h1, h2⟩; exact ⟨y, mem_cons_of_mem _ hy, h1, h2⟩
      · rintro ⟨y, hy, h1, h2⟩
        rcases mem_cons.mp hy with rfl | hy'
        · exact absurd h1 hza
        · exact ⟨y, hy', h1, h2⟩

theorem dyeGo_eq_foldl {logs : List Cand} (hL : AddrNodup logs) (idx : List Cand) (seen : List Nat)
    (hs : ∀ l ∈ logs, l.addr ∉ seen) : dyeGo idx seen logs = logs.foldl putCand idx := by
  induction logs generalizing idx seen with
  | nil => simp [dyeGo]
  | cons l ls ih =>
    have hl := nodup_cons.mp (show Nodup (l.addr :: ls.map (·.addr)) from hL)
    have hnot : seen.contains l.addr = false := by
      have := hs l mem_cons_self
      simpa using this
    simp only [dyeGo, hnot, Bool.false_eq_true, if_false, foldl_cons]
    apply ih hl.2
    intro l' hl' hmem
    rcases mem_cons.mp hmem with e | h'
    · exact hl.1 (mem_map.mpr ⟨l', hl', e⟩)
    · exact hs l' (mem_cons_of_mem _ hl') h'

theorem dye_eq_foldl {logs : List Cand} (hL : AddrNodup logs) (idx : List Cand) :
    dye idx logs = logs.foldl putCand idx :=
  dyeGo_eq_foldl hL idx [] (by simp)

end LemoProofs.Ranking

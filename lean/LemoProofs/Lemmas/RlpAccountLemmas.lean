/-
  Helper lemmas for C14: `LemoModel.RlpAccount` (AccountData, blocks message): leaf fields, typed slices, the
  version-record map and the sort.
-/
import LemoModel.RlpAccount
import LemoProofs.Lemmas.RlpCustomLemmas
namespace LemoProofs.RlpAccountLemmas
open LemoModel.Rlp LemoModel.RlpSchema LemoModel.RlpCustom LemoModel.RlpAccount
open LemoProofs.RlpBytes LemoProofs.RlpSchemaLemmas LemoProofs.RlpCustomLemmas

/-! ### leaf fields -/

theorem decFixed_enc {n : Nat} {b : List UInt8} {x : Item} (h : encFixed n b = some x) : decFixed n x = some b := by
  unfold decFixed; rw [decodeS_encodeS true _ _ _ h]

theorem enc_decFixed {n : Nat} {b : List UInt8} {x : Item} (h : decFixed n x = some b) : encFixed n b = some x := by
  unfold decFixed at h
  split at h
  · rename_i m hm
    cases h
    exact encodeS_decodeS x (.fixed n) _ hm
  · cases h

theorem decUint_enc {bits n : Nat} {x : Item} (h : encUint bits n = some x) : decUint bits x = some n := by
  unfold decUint; rw [decodeS_encodeS true _ _ _ h]

theorem enc_decUint {bits n : Nat} {x : Item} (h : decUint bits x = some n) : encUint bits n = some x := by
  unfold decUint at h
  split at h
  · rename_i m hm
    cases h
    exact encodeS_decodeS x (.uint bits) _ hm
  · cases h

theorem encBigN_eq (n : Nat) : encodeS .big (.nat n) = some (encBigN n) := by simp [encodeS, encBigN]

theorem decBigN_enc (n : Nat) : decBigN (encBigN n) = some n := by
  unfold decBigN; rw [decodeS_encodeS true _ _ _ (encBigN_eq n)]

theorem enc_decBigN {n : Nat} {x : Item} (h : decBigN x = some n) : encBigN n = x := by
  unfold decBigN at h
  split at h
  · rename_i m hm
    cases h
    have := encodeS_decodeS x .big _ hm
    rw [encBigN_eq] at this
    exact Option.some.inj this
  · cases h

/-- TxCount = 0 is written as the empty string -/
theorem encUint_zero (bits : Nat) : encUint bits 0 = some (.bytes []) := by
  have : (0 : Nat) < 256 ^ (bits / 8) := Nat.pow_pos (by omega)
  simp [encUint, encodeS, toBE_zero, this]

theorem decUint_zero_iff {bits : Nat} {x : Item} {n : Nat} (h : decUint bits x = some n) : n = 0 ↔ x = .bytes [] := by
  constructor
  · intro h0
    subst h0
    have := enc_decUint h
    rw [encUint_zero] at this
    exact (Option.some.inj this).symm
  · intro hx
    subst hx
    have h1 := decUint_enc (encUint_zero bits)
    rw [h1] at h
    exact (Option.some.inj h).symm

/-! ### typed slices -/

theorem decList_encList {α : Type} {f : α → Option Item} {g : Item → Option α} :
    ∀ (l : List α) (xs : List Item), (∀ a ∈ l, ∀ x, f a = some x → g x = some a) →
      encList f l = some xs → decList g xs = some l
  | [], xs, _, h => by simp [encList] at h; subst h; rfl
  | a :: as, xs, hfg, h => by
    rw [encList] at h
    split at h
    · rename_i x xs' h1 h2
      cases h
      rw [decList, hfg a (List.mem_cons_self ..) x h1,
        decList_encList as xs' (fun b hb => hfg b (List.mem_cons_of_mem _ hb)) h2]
    · cases h

theorem encList_decList {α : Type} {f : α → Option Item} {g : Item → Option α}
    (hgf : ∀ x a, g x = some a → f a = some x) :
    ∀ (xs : List Item) (l : List α), decList g xs = some l → encList f l = some xs
  | [], l, h => by simp [decList] at h; subst h; rfl
  | x :: xs, l, h => by
    rw [decList] at h
    split at h
    · rename_i a as h1 h2
      cases h
      rw [encList, hgf x a h1, encList_decList hgf xs as h2]
    · cases h

theorem decListOf_encListOf {α : Type} {f : α → Option Item} {g : Item → Option α} {l : List α} {it : Item}
    (hfg : ∀ a ∈ l, ∀ x, f a = some x → g x = some a) (h : encListOf f l = some it) : decListOf g it = some l := by
  unfold encListOf at h
  cases he : encList f l with
  | none => simp [he] at h
  | some xs =>
    simp only [he, Option.map_some, Option.some.injEq] at h
    subst h
    exact decList_encList l xs hfg he

theorem encListOf_decListOf {α : Type} {f : α → Option Item} {g : Item → Option α} {l : List α} {it : Item}
    (hgf : ∀ x a, g x = some a → f a = some x) (h : decListOf g it = some l) : encListOf f l = some it := by
  cases it with
  | bytes b => simp [decListOf] at h
  | list xs =>
    simp only [decListOf] at h
    simp [encListOf, encList_decList hgf xs l h]

theorem decListOf_nil {α : Type} {g : Item → Option α} {it : Item} (h : decListOf g it = some []) : it = .list [] := by
  cases it with
  | bytes b => simp [decListOf] at h
  | list xs =>
    cases xs with
    | nil => rfl
    | cons x xs =>
      simp only [decListOf, decList] at h
      split at h
      · cases h
      · cases h

/-! ### version records, signers, candidate -/

theorem decRec_enc {r : Rec} {x : Item} (h : encRec r = some x) : decRec x = some r := by
  unfold encRec at h
  split at h
  · rename_i a b c ha hb hc
    cases h
    simp [decRec, decUint_enc ha, decUint_enc hb, decUint_enc hc]
  · cases h

theorem enc_decRec {r : Rec} {x : Item} (h : decRec x = some r) : encRec r = some x := by
  unfold decRec at h
  split at h
  · rename_i a b c
    split at h
    · rename_i t v hh ha hb hc
      cases h
      simp [encRec, enc_decUint ha, enc_decUint hb, enc_decUint hc]
    · cases h
  · cases h

theorem decSigner_enc {s : Signer} {x : Item} (h : encSigner s = some x) : decSigner x = some s := by
  unfold encSigner at h
  split at h
  · rename_i a w ha hw
    cases h
    simp [decSigner, decFixed_enc ha, decUint_enc hw]
  · cases h

theorem enc_decSigner {s : Signer} {x : Item} (h : decSigner x = some s) : encSigner s = some x := by
  unfold decSigner at h
  split at h
  · rename_i a w
    split at h
    · rename_i addr wt ha hw
      cases h
      simp [encSigner, enc_decFixed ha, enc_decUint hw]
    · cases h
  · cases h

theorem decCandidate_enc (votes : Nat) (ps : List KV) (h : Sorted ps) :
    decCandidate (encCandidate votes ps) = some (votes, ps) := by
  simp [decCandidate, encCandidate, decBigN_enc, decodeProfile_encodeProfile ps h]

theorem enc_decCandidate {x : Item} {c : Nat × List KV} (h : decCandidate x = some c) :
    encCandidate c.1 c.2 = x ∧ Sorted c.2 := by
  unfold decCandidate at h
  split at h
  · rename_i v p
    split at h
    · rename_i n ps hv hp
      cases h
      have hq := encodeProfile_decodeProfile hp
      exact ⟨by simp [encCandidate, enc_decBigN hv, hq.1], hq.2⟩
    · cases h
  · cases h

/-! ### the version-record map -/

/-- log types strictly increasing: the association list of a Go map -/
def StrictRecs (l : List Rec) : Prop := l.Pairwise (fun a b => a.1 < b.1)

theorem insertRec_all_lt (r : Rec) : ∀ (acc : List Rec), (∀ a ∈ acc, a.1 < r.1) → insertRec r acc = acc ++ [r]
  | [], _ => rfl
  | q :: qs, h => by
    have hq := h q (List.mem_cons_self ..)
    have hnq : ¬ r.1 < q.1 := by omega
    simp only [insertRec, hnq, hq, if_true, if_false, List.cons_append]
    rw [insertRec_all_lt r qs (fun a ha => h a (List.mem_cons_of_mem _ ha))]

theorem foldl_insertRec_sorted : ∀ (l acc : List Rec), (∀ a ∈ acc, ∀ b ∈ l, a.1 < b.1) → StrictRecs l →
    l.foldl (fun m r => insertRec r m) acc = acc ++ l
  | [], acc, _, _ => by simp
  | x :: l, acc, h, hs => by
    have hx : ∀ a ∈ acc, a.1 < x.1 := fun a ha => h a ha x (List.mem_cons_self ..)
    simp only [List.foldl_cons]
    rw [insertRec_all_lt x acc hx]
    have hs' := List.pairwise_cons.mp hs
    rw [foldl_insertRec_sorted l (acc ++ [x]) ?_ hs'.2]
    · simp
    · intro a ha b hb
      rcases List.mem_append.mp ha with h1 | h1
      · exact h a h1 b (List.mem_cons_of_mem _ hb)
      · have : a = x := by simpa using h1
        subst this
        exact hs'.1 b hb

/-- a record list that is already a map (strictly ascending) is read back as itself -/
theorem recsToMap_strict {l : List Rec} (h : StrictRecs l) : recsToMap l = l := by
  unfold recsToMap
  rw [foldl_insertRec_sorted l [] (by simp) h]
  rfl

theorem mem_insertRec {r : Rec} : ∀ {m : List Rec} {a : Rec}, a ∈ insertRec r m → a = r ∨ a ∈ m
  | [], a, h => by simp [insertRec] at h; exact Or.inl h
  | q :: qs, a, h => by
    unfold insertRec at h
    split at h
    · rcases List.mem_cons.mp h with h1 | h1
      · exact Or.inl h1
      · exact Or.inr h1
    · split at h
      · rcases List.mem_cons.mp h with h1 | h1
        · exact Or.inr (h1 ▸ List.mem_cons_self ..)
        · rcases mem_insertRec h1 with h2 | h2
          · exact Or.inl h2
          · exact Or.inr (List.mem_cons_of_mem _ h2)
      · rcases List.mem_cons.mp h with h1 | h1
        · exact Or.inl h1
        · exact Or.inr (List.mem_cons_of_mem _ h1)

/-- the map assignment keeps the association list a map -/
theorem insertRec_strict (r : Rec) : ∀ (m : List Rec), StrictRecs m → StrictRecs (insertRec r m)
  | [], _ => by simp [insertRec, StrictRecs]
  | q :: qs, h => by
    have h' := List.pairwise_cons.mp h
    unfold insertRec
    split
    · rename_i hlt
      refine List.pairwise_cons.mpr ⟨?_, h⟩
      intro b hb
      rcases List.mem_cons.mp hb with h1 | h1
      · subst h1; exact hlt
      · have := h'.1 b h1; omega
    · split
      · rename_i hnlt hgt
        refine List.pairwise_cons.mpr ⟨?_, insertRec_strict r qs h'.2⟩
        intro b hb
        rcases mem_insertRec hb with h1 | h1
        · subst h1; exact hgt
        · exact h'.1 b h1
      · rename_i hnlt hngt
        refine List.pairwise_cons.mpr ⟨?_, h'.2⟩
        intro b hb
        have := h'.1 b hb
        omega

theorem foldl_insertRec_strict : ∀ (l acc : List Rec), StrictRecs acc →
    StrictRecs (l.foldl (fun m r => insertRec r m) acc)
  | [], _, h => h
  | x :: l, acc, h => by
    simp only [List.foldl_cons]
    exact foldl_insertRec_strict l _ (insertRec_strict x acc h)

/-- whatever the wire order and the repetitions: the decoded records form a map -/
theorem recsToMap_isMap (rs : List Rec) : StrictRecs (recsToMap rs) :=
  foldl_insertRec_strict rs [] List.Pairwise.nil

theorem strict_of_ascRecs : ∀ (l : List Rec), ascRecs l = true → StrictRecs l
  | [], _ => List.Pairwise.nil
  | [p], _ => by simp [StrictRecs]
  | a :: b :: rest, h => by
    simp only [ascRecs, Bool.and_eq_true, decide_eq_true_eq] at h
    have ih := strict_of_ascRecs (b :: rest) h.2
    unfold StrictRecs at ih ⊢
    have ih' := List.pairwise_cons.mp ih
    refine List.pairwise_cons.mpr ⟨?_, ih⟩
    intro c hc
    rcases List.mem_cons.mp hc with hcb | hc'
    · subst hcb; exact h.1
    · have := ih'.1 c hc'; omega

theorem ascRecs_of_strict : ∀ (l : List Rec), StrictRecs l → ascRecs l = true
  | [], _ => rfl
  | [_], _ => rfl
  | a :: b :: rest, h => by
    unfold StrictRecs at h
    have h' := List.pairwise_cons.mp h
    simp only [ascRecs, Bool.and_eq_true, decide_eq_true_eq]
    exact ⟨h'.1 b (List.mem_cons_self ..), ascRecs_of_strict (b :: rest) h'.2⟩

/-- in a map two entries with the same key are the same entry -/
theorem strict_key_inj {l : List Rec} (h : StrictRecs l) : ∀ {a b : Rec}, a ∈ l → b ∈ l → a.1 = b.1 → a = b := by
  induction l with
  | nil => intro a b ha; cases ha
  | cons x xs ih =>
    intro a b ha hb hk
    have h' := List.pairwise_cons.mp h
    rcases List.mem_cons.mp ha with h1 | h1 <;> rcases List.mem_cons.mp hb with h2 | h2
    · rw [h1, h2]
    · subst h1; have := h'.1 b h2; omega
    · subst h2; have := h'.1 a h1; omega
    · exact ih h'.2 h1 h2 hk

/-! ### the sort -/

/-- what `sort.Slice(x, less)` promises: a permutation of the input in which no element is `less` than an earlier one -/
def SortSpec (srt : List Rec → List Rec) : Prop :=
  ∀ l, (srt l).Perm l ∧ (srt l).Pairwise (fun a b => a.1 ≤ b.1)

/-- THE reason why the encoding does not depend on the iteration order nor on the sorting algorithm: a sorted enumeration
    of a map is the map's association list -/
theorem sorted_perm_unique {l m : List Rec} (hp : l.Perm m) (hl : l.Pairwise (fun a b => a.1 ≤ b.1)) (hm : StrictRecs m) :
    l = m := by
  refine List.Perm.eq_of_pairwise (le := fun a b => a.1 ≤ b.1) ?_ hl ?_ hp
  · intro a b ha hb h1 h2
    exact strict_key_inj hm (hp.mem_iff.mp ha) hb (by omega)
  · exact hm.imp (fun h => by omega)

theorem insertSorted_perm (r : Rec) : ∀ (l : List Rec), (insertSorted r l).Perm (r :: l)
  | [] => List.Perm.refl _
  | q :: qs => by
    unfold insertSorted
    split
    · exact List.Perm.refl _
    · exact ((insertSorted_perm r qs).cons q).trans (List.Perm.swap r q qs)

theorem insertSorted_sorted (r : Rec) : ∀ (l : List Rec), l.Pairwise (fun a b => a.1 ≤ b.1) →
    (insertSorted r l).Pairwise (fun a b => a.1 ≤ b.1)
  | [], _ => by simp [insertSorted]
  | q :: qs, h => by
    have h' := List.pairwise_cons.mp h
    unfold insertSorted
    split
    · rename_i hlt
      refine List.pairwise_cons.mpr ⟨?_, h⟩
      intro b hb
      rcases List.mem_cons.mp hb with h1 | h1
      · subst h1; omega
      · have := h'.1 b h1; omega
    · rename_i hnlt
      refine List.pairwise_cons.mpr ⟨?_, insertSorted_sorted r qs h'.2⟩
      intro b hb
      rcases List.mem_cons.mp ((insertSorted_perm r qs).mem_iff.mp hb) with h1 | h1
      · subst h1; omega
      · exact h'.1 b h1

theorem sortRecs_spec : SortSpec sortRecs := by
  intro l
  induction l with
  | nil => exact ⟨List.Perm.refl _, List.Pairwise.nil⟩
  | cons x xs ih =>
    refine ⟨?_, ?_⟩
    · exact (insertSorted_perm x (sortRecs xs)).trans (ih.1.cons x)
    · exact insertSorted_sorted x (sortRecs xs) ih.2

/-- every sort of every enumeration of a map returns the map's association list -/
theorem sort_enum_eq {srt : List Rec → List Rec} (hs : SortSpec srt) {ord m : List Rec} (hp : ord.Perm m)
    (hm : StrictRecs m) : srt ord = m :=
  sorted_perm_unique ((hs ord).1.trans hp) (hs ord).2 hm

/-! ### the checked profile / record loops -/

theorem profileLoopChk_some : ∀ (ps : List KV) (prev : Option KV) (kvs : List KV),
    profileLoopChk prev ps (some kvs) =
      if ascB (match prev with | some q => q :: ps | none => ps) then
        Out.ok (some (ps.foldl (fun m p => insertKV p m) kvs))
      else Out.err
  | [], prev, kvs => by
    cases prev with
    | none => simp [profileLoopChk, ascB]
    | some q => simp [profileLoopChk, ascB]
  | p :: ps, prev, kvs => by
    have ih := profileLoopChk_some ps (some p) kvs
    cases prev with
    | none =>
      simp only [profileLoopChk, Bool.false_eq_true, if_false, List.foldl_cons]
      rw [profileLoopChk_some ps (some p) (insertKV p kvs)]
    | some q =>
      simp only [profileLoopChk, List.foldl_cons]
      by_cases hlt : ltBytes q.1 p.1 = true
      · simp only [hlt, Bool.not_true, Bool.false_eq_true, if_false, ascB, Bool.true_and]
        rw [profileLoopChk_some ps (some p) (insertKV p kvs)]
      · have hf : ltBytes q.1 p.1 = false := by
          cases hh : ltBytes q.1 p.1 with
          | true => exact absurd hh hlt
          | false => rfl
        simp [hf, ascB]

theorem profileDecodeChk_some (it : Item) :
    profileDecodeChk (some []) it = Out.ofOption ((decodeProfile true it).map some) := by
  cases it with
  | bytes b => simp [profileDecodeChk, decodeProfile, Out.ofOption]
  | list xs =>
    simp only [profileDecodeChk, decodeProfile, if_true]
    cases hp : asPairs xs with
    | none => simp [Out.ofOption]
    | some ps =>
      simp only [profileLoopChk_some ps none []]
      by_cases ha : ascB ps = true
      · simp [ha, Out.ofOption]
      · have hf : ascB ps = false := by
          cases hh : ascB ps with
          | true => exact absurd hh ha
          | false => rfl
        simp [hf, Out.ofOption]

theorem recsLoopChk_some : ∀ (rs kvs : List Rec),
    recsLoopChk rs (some kvs) = Out.ok (some (rs.foldl (fun m r => insertRec r m) kvs))
  | [], _ => rfl
  | r :: rs, kvs => by
    simp only [recsLoopChk, List.foldl_cons]
    exact recsLoopChk_some rs (insertRec r kvs)

end LemoProofs.RlpAccountLemmas

/-
  Helper lemmas for C14: big-endian byte strings (`toBE` / `fromBE`), header bytes.
-/
import LemoModel.Rlp
namespace LemoProofs.RlpBytes
open LemoModel.Rlp

theorem u8_ofNat_toNat {n : Nat} (h : n < 256) : (UInt8.ofNat n).toNat = n := by
  rw [UInt8.toNat_ofNat']; omega

theorem u8_eq_of_toNat {a : UInt8} {n : Nat} (h : a.toNat = n) : UInt8.ofNat n = a := by
  rw [← h]; exact UInt8.ofNat_toNat

/-! ### fromBE -/

theorem fromBE_nil : fromBE [] = 0 := rfl

theorem fromBE_concat (l : List UInt8) (b : UInt8) : fromBE (l ++ [b]) = fromBE l * 256 + b.toNat := by
  unfold fromBE; rw [List.foldl_append]; rfl

theorem foldl_shift (l : List UInt8) (a : Nat) :
    l.foldl (fun acc b => acc * 256 + b.toNat) a = a * 256 ^ l.length + l.foldl (fun acc b => acc * 256 + b.toNat) 0 := by
  induction l generalizing a with
  | nil => simp
  | cons x xs ih =>
    simp only [List.foldl_cons, List.length_cons]
    rw [ih (a * 256 + x.toNat), ih (0 * 256 + x.toNat)]
    rw [Nat.pow_succ, Nat.add_mul, Nat.zero_mul, Nat.zero_add]
    rw [Nat.mul_assoc a 256, Nat.mul_comm 256 (256 ^ xs.length)]
    omega

theorem fromBE_cons (a : UInt8) (l : List UInt8) : fromBE (a :: l) = a.toNat * 256 ^ l.length + fromBE l := by
  unfold fromBE
  simp only [List.foldl_cons]
  rw [foldl_shift]; simp

theorem fromBE_lt (l : List UInt8) : fromBE l < 256 ^ l.length := by
  induction l with
  | nil => simp [fromBE_nil]
  | cons a l ih =>
    rw [fromBE_cons, List.length_cons, Nat.pow_succ]
    have ha := UInt8.toNat_lt a
    have : a.toNat * 256 ^ l.length ≤ 255 * 256 ^ l.length := Nat.mul_le_mul_right _ (by omega)
    omega

theorem fromBE_pos_of_head {l : List UInt8} (hne : l ≠ []) (hh : l.head? ≠ some 0) : 256 ^ (l.length - 1) ≤ fromBE l := by
  match l, hne with
  | a :: l', _ =>
    rw [fromBE_cons]
    simp only [List.length_cons, Nat.add_sub_cancel]
    have ha : a.toNat ≠ 0 := by
      intro h0
      apply hh
      simp only [List.head?_cons, Option.some.injEq]
      exact UInt8.toNat_inj.mp (by simpa using h0)
    have : 1 * 256 ^ l'.length ≤ a.toNat * 256 ^ l'.length := Nat.mul_le_mul_right _ (by omega)
    omega

/-! ### toBE -/

theorem toBE_zero : toBE 0 = [] := by rw [toBE]; simp

theorem toBE_pos {n : Nat} (h : n ≠ 0) : toBE n = toBE (n / 256) ++ [UInt8.ofNat (n % 256)] := by
  rw [toBE]; simp [h]

theorem toBE_ne_nil {n : Nat} (h : n ≠ 0) : toBE n ≠ [] := by
  rw [toBE_pos h]; simp

theorem fromBE_toBE (n : Nat) : fromBE (toBE n) = n := by
  induction n using Nat.strongRecOn with
  | _ n ih =>
    by_cases h : n = 0
    · subst h; rw [toBE_zero]; rfl
    · rw [toBE_pos h, fromBE_concat, ih (n / 256) (by omega), u8_ofNat_toNat (by omega)]
      omega

theorem toBE_head (n : Nat) (h : n ≠ 0) : (toBE n).head? ≠ some 0 := by
  induction n using Nat.strongRecOn with
  | _ n ih =>
    rw [toBE_pos h]
    by_cases hq : n / 256 = 0
    · rw [hq, toBE_zero]
      simp only [List.nil_append, List.head?_cons, ne_eq, Option.some.injEq]
      intro h0
      have := congrArg UInt8.toNat h0
      rw [u8_ofNat_toNat (by omega)] at this
      simp at this
      omega
    · have hne := toBE_ne_nil hq
      have := ih (n / 256) (by omega) hq
      rw [List.head?_append]
      match hm : toBE (n / 256), hne with
      | a :: t, _ =>
        rw [hm] at this
        simpa using this

theorem toBE_length_le (k n : Nat) (h : n < 256 ^ k) : (toBE n).length ≤ k := by
  induction k generalizing n with
  | zero =>
    have : n = 0 := by simpa using h
    subst this; rw [toBE_zero]; simp
  | succ k ih =>
    by_cases h0 : n = 0
    · subst h0; rw [toBE_zero]; simp
    · rw [toBE_pos h0]
      have : n / 256 < 256 ^ k := by
        rw [Nat.pow_succ] at h
        exact Nat.div_lt_of_lt_mul (by rw [Nat.mul_comm]; exact h)
      have := ih (n / 256) this
      simp; omega

theorem toBE_length_pos {n : Nat} (h : n ≠ 0) : 0 < (toBE n).length := by
  have := toBE_ne_nil h
  exact List.length_pos_iff.mpr this

/-- a byte string without a leading zero is the minimal representation of its value -/
theorem toBE_fromBE (l : List UInt8) (hh : l.head? ≠ some 0) : toBE (fromBE l) = l := by
  induction hn : l.length generalizing l with
  | zero =>
    have : l = [] := List.length_eq_zero_iff.mp hn
    subst this; rw [fromBE_nil, toBE_zero]
  | succ k ih =>
    have hne : l ≠ [] := by intro h; subst h; simp at hn
    have hsplit := List.dropLast_concat_getLast hne
    generalize hd : l.dropLast = d at hsplit
    generalize hx : l.getLast hne = x at hsplit
    have hdl : d.length = k := by rw [← hd, List.length_dropLast]; omega
    rw [← hsplit, fromBE_concat]
    have hxlt := UInt8.toNat_lt x
    by_cases hdn : d = []
    · subst hdn
      have hx0 : x.toNat ≠ 0 := by
        intro h0
        apply hh
        rw [← hsplit]
        simp only [List.nil_append, List.head?_cons, Option.some.injEq]
        exact UInt8.toNat_inj.mp (by simpa using h0)
      simp only [fromBE_nil, Nat.zero_mul, Nat.zero_add, List.nil_append]
      rw [toBE_pos hx0]
      have h1 : x.toNat / 256 = 0 := by omega
      have h2 : x.toNat % 256 = x.toNat := by omega
      rw [h1, h2, toBE_zero, UInt8.ofNat_toNat]; rfl
    · have hdh : d.head? ≠ some 0 := by
        intro h
        apply hh
        rw [← hsplit, List.head?_append, h]; rfl
      have hpos := fromBE_pos_of_head hdn hdh
      have hp : 0 < 256 ^ (d.length - 1) := Nat.pow_pos (by omega)
      have hne0 : fromBE d * 256 + x.toNat ≠ 0 := by omega
      rw [toBE_pos hne0]
      have h1 : (fromBE d * 256 + x.toNat) / 256 = fromBE d := by omega
      have h2 : (fromBE d * 256 + x.toNat) % 256 = x.toNat := by omega
      rw [h1, h2, ih d hdh hdl, UInt8.ofNat_toNat]

theorem toBE_length_ge {n k : Nat} (h : 256 ^ k ≤ n) : k < (toBE n).length := by
  have h1 := fromBE_lt (toBE n)
  rw [fromBE_toBE] at h1
  by_cases hk : k < (toBE n).length
  · exact hk
  · have : 256 ^ (toBE n).length ≤ 256 ^ k := Nat.pow_le_pow_right (by omega) (by omega)
    omega

end LemoProofs.RlpBytes

/-
  Helper lemmas for C14: the hand-written codecs (`LemoModel.RlpCustom`): Profile as a sorted association
  list, payload decoders, header root positions.
-/
import LemoModel.RlpCustom
import LemoProofs.Lemmas.RlpSchemaLemmas
namespace LemoProofs.RlpCustomLemmas
open LemoModel.Rlp LemoModel.RlpSchema LemoModel.RlpCustom LemoProofs.RlpSchemaLemmas

/-! ### key order -/

theorem ltBytes_irrefl (a : List UInt8) : ltBytes a a = false := by
  induction a with
  | nil => rfl
  | cons x xs ih => simp [ltBytes, ih]

theorem ltBytes_asymm : ∀ (a b : List UInt8), ltBytes a b = true → ltBytes b a = false
  | [], [], h => by simp [ltBytes] at h
  | [], _ :: _, _ => by simp [ltBytes]
  | _ :: _, [], h => by simp [ltBytes] at h
  | x :: xs, y :: ys, h => by
    simp only [ltBytes] at h ⊢
    by_cases h1 : x.toNat < y.toNat
    · have : ¬ y.toNat < x.toNat := by omega
      simp [this, h1]
    · by_cases h2 : y.toNat < x.toNat
      · simp [h1, h2] at h
      · simp only [h1, h2, if_false] at h ⊢
        exact ltBytes_asymm xs ys h

/-- strictly increasing keys (`sort.Strings` of the distinct keys of a map) -/
def Sorted (ps : List KV) : Prop := ps.Pairwise (fun a b => ltBytes a.1 b.1 = true)

theorem insertKV_all_lt (p : KV) : ∀ (acc : List KV), (∀ a ∈ acc, ltBytes a.1 p.1 = true) → insertKV p acc = acc ++ [p]
  | [], _ => rfl
  | q :: qs, h => by
    have hq := h q (List.mem_cons_self ..)
    have hnq := ltBytes_asymm _ _ hq
    simp only [insertKV, hnq, hq, if_true, Bool.false_eq_true, if_false, List.cons_append]
    rw [insertKV_all_lt p qs (fun a ha => h a (List.mem_cons_of_mem _ ha))]

theorem foldl_insert_sorted : ∀ (l acc : List KV), (∀ a ∈ acc, ∀ b ∈ l, ltBytes a.1 b.1 = true) → Sorted l →
    l.foldl (fun m p => insertKV p m) acc = acc ++ l
  | [], acc, _, _ => by simp
  | x :: l, acc, h, hs => by
    have hx : ∀ a ∈ acc, ltBytes a.1 x.1 = true := fun a ha => h a ha x (List.mem_cons_self ..)
    simp only [List.foldl_cons]
    rw [insertKV_all_lt x acc hx]
    have hs' := List.pairwise_cons.mp hs
    rw [foldl_insert_sorted l (acc ++ [x]) ?_ hs'.2]
    · simp
    · intro a ha b hb
      rcases List.mem_append.mp ha with h1 | h1
      · exact h a h1 b (List.mem_cons_of_mem _ hb)
      · have : a = x := by simpa using h1
        subst this
        exact hs'.1 b hb

theorem asPairs_map (ps : List KV) : asPairs (ps.map pairItem) = some ps := by
  induction ps with
  | nil => rfl
  | cons p ps ih => simp [asPairs, pairItem, asPair, ih]

/-- a key-sorted profile decodes from its own encoding to itself -/
theorem decodeProfile_encodeProfile (ps : List KV) (h : Sorted ps) : decodeProfile (encodeProfile ps) = some ps := by
  unfold decodeProfile encodeProfile
  cases ps with
  | nil => rfl
  | cons p ps =>
    have : sizeZero (Item.list (List.map pairItem (p :: ps))) = false := rfl
    rw [this]
    simp only [Bool.false_eq_true, if_false, asPairs_map, Option.map_some]
    rw [foldl_insert_sorted (p :: ps) [] (by simp) h]
    rfl

/-! ### header root positions -/

theorem mapAt_id (f : Val → Val) : ∀ (i : Nat) (l : List Val), okAt (fun x => f x = x) i l → mapAt f i l = l
  | _, [], _ => rfl
  | i, x :: xs, h => by
    simp only [okAt] at h
    simp only [mapAt]
    rw [mapAt_id f (i + 1) xs h.2]
    by_cases hi : i = 3 ∨ i = 4
    · rw [if_pos hi, h.1 hi]
    · rw [if_neg hi]

theorem mapAt_mapAt (f g : Val → Val) : ∀ (i : Nat) (l : List Val), mapAt f i (mapAt g i l) = mapAt (f ∘ g) i l
  | _, [] => rfl
  | i, x :: xs => by
    simp only [mapAt]
    rw [mapAt_mapAt f g (i + 1) xs]
    by_cases hi : i = 3 ∨ i = 4 <;> simp [hi]

theorem okAt_mono {P Q : Val → Prop} (hpq : ∀ x, P x → Q x) : ∀ (i : Nat) (l : List Val), okAt P i l → okAt Q i l
  | _, [], _ => trivial
  | i, x :: xs, h => by
    simp only [okAt] at h ⊢
    exact ⟨fun hi => hpq x (h.1 hi), okAt_mono hpq (i + 1) xs h.2⟩

/-! ### payload decoders -/

theorem decodeS_ne_nil : ∀ (s : Schema) (it : Item), noOpt s = true → decodeS s it ≠ some .nil := by
  intro s it hn h
  cases s <;> cases it <;> simp [decodeS, noOpt] at h hn
  all_goals (try (split at h <;> simp at h))

/-- when a payload value is written by `runEnc` and read back by `runDec` -/
def RtOk : PDec → CVal → Item → Prop
  | .nilOr s, .v x, it => noOpt s = true ∧ (x = .nil ∨ sizeZero it = false)
  | .asset, .asset _ ps, _ => Sorted ps
  | .candidate, .prof ps, _ => Sorted ps ∧ ps ≠ []
  | .candidate, .raw it', _ => sizeZero it' = true
  | _, _, _ => True

theorem setBytesN_exact {n : Nat} {b : List UInt8} (h : b.length = n) : setBytesN n b = b := by
  unfold setBytesN; simp [h]

theorem encodeFields_length : ∀ (fs : List Schema) (vs : List Val) (xs : List Item),
    encodeFields fs vs = some xs → xs.length = fs.length
  | [], [], xs, h => by simp [encodeFields] at h; subst h; rfl
  | [], _ :: _, xs, h => by simp [encodeFields] at h
  | _ :: _, [], xs, h => by simp [encodeFields] at h
  | f :: fs, v :: vs, xs, h => by
    rw [encodeFields] at h
    split at h
    · rename_i x xs' h1 h2
      cases h
      simp [encodeFields_length fs vs xs' h2]
    · cases h

theorem decodeAsset_encodeAsset (fs : List Val) (ps : List KV) (it : Item) (hs : Sorted ps)
    (h : encodeAsset (fs, ps) = some it) : decodeAsset it = some (fs, ps) := by
  unfold encodeAsset at h
  split at h
  · rename_i hb
    cases he : encodeFields assetFields fs with
    | none => simp [he] at h
    | some xs =>
      simp only [he, Option.map_some, Option.some.injEq] at h
      subst h
      have hl := encodeFields_length _ _ _ he
      have hd := decodeFields_encodeFields fs assetFields xs he
      match xs, hl with
      | [a, b, c, d, e, f, g], _ =>
        simp only [List.cons_append, List.nil_append, decodeAsset, decodeAssetFields, hd, hb, if_true,
          decodeProfile_encodeProfile ps hs]
  · cases h

theorem runDec_runEnc (p : PDec) (v : CVal) (it : Item) (h : runEnc p v = some it) (hok : RtOk p v it) :
    runDec p it = some v := by
  cases p with
  | strict s =>
    cases v with
    | v x => simp only [runEnc] at h; simp [runDec, decodeS_encodeS x s it h]
    | prof _ => simp [runEnc] at h
    | asset _ _ => simp [runEnc] at h
    | raw _ => simp [runEnc] at h
  | emptyIface =>
    cases v with
    | v x =>
      cases x <;> simp [runEnc] at h
      subst h; rfl
    | prof _ => simp [runEnc] at h
    | asset _ _ => simp [runEnc] at h
    | raw _ => simp [runEnc] at h
  | loose n =>
    cases v with
    | v x =>
      cases x <;> simp [runEnc] at h
      obtain ⟨h1, h2⟩ := h
      subst h2
      simp [runDec, setBytesN_exact h1]
    | prof _ => simp [runEnc] at h
    | asset _ _ => simp [runEnc] at h
    | raw _ => simp [runEnc] at h
  | nilOr s =>
    cases v with
    | v x =>
      simp only [RtOk] at hok
      by_cases hx : x = .nil
      · subst hx
        simp only [runEnc, Option.some.injEq] at h
        subst h; rfl
      · have hz : sizeZero it = false := by
          cases hok.2 with
          | inl h1 => exact absurd h1 hx
          | inr h2 => exact h2
        have he : encodeS s x = some it := by
          cases x <;> simp_all [runEnc]
        simp [runDec, hz, decodeS_encodeS x s it he]
    | prof _ => simp [runEnc] at h
    | asset _ _ => simp [runEnc] at h
    | raw _ => simp [runEnc] at h
  | asset =>
    cases v with
    | v x =>
      cases x <;> simp [runEnc] at h
      subst h; rfl
    | asset fs ps =>
      simp only [RtOk] at hok
      simp only [runEnc] at h
      have hd := decodeAsset_encodeAsset fs ps it hok h
      have hz : sizeZero it = false := by
        unfold decodeAsset at hd
        split at hd <;> first | rfl | (cases hd)
      simp [runDec, hz, hd]
    | prof _ => simp [runEnc] at h
    | raw _ => simp [runEnc] at h
  | candidate =>
    cases v with
    | raw it' =>
      simp only [RtOk] at hok
      simp only [runEnc, Option.some.injEq] at h
      subst h
      simp [runDec, hok]
    | prof ps =>
      simp only [RtOk] at hok
      simp only [runEnc, Option.some.injEq] at h
      subst h
      have hz : sizeZero (encodeProfile ps) = false := by
        cases ps with
        | nil => exact absurd rfl hok.2
        | cons q qs => rfl
      simp [runDec, hz, decodeProfile_encodeProfile ps hok.1]
    | v _ => simp [runEnc] at h
    | asset _ _ => simp [runEnc] at h

/-- the wire forms of a payload on which its decoder is injective (everything else is the laxness refuted in C14.lean) -/
def Strict : PDec → Item → Prop
  | .strict s, _ => noOpt s = true
  | .emptyIface, it => it = .list []
  | .loose n, it => ∃ b, it = .bytes b ∧ b.length = n
  | .nilOr s, it => noOpt s = true ∧ (it = .list [] ∨ sizeZero it = false)
  | .asset, it => it = .list [] ∨ ∃ a b c d e f g qs, it = .list [a, b, c, d, e, f, g, encodeProfile qs] ∧ Sorted qs
  | .candidate, it => sizeZero it = true ∨ ∃ qs, Sorted qs ∧ it = encodeProfile qs

theorem runEnc_runDec (p : PDec) (v : CVal) (it : Item) (h : runDec p it = some v) (hs : Strict p it) :
    runEnc p v = some it := by
  cases p with
  | strict s =>
    simp only [Strict] at hs
    simp only [runDec, Option.map_eq_some_iff] at h
    obtain ⟨x, hx, hv⟩ := h
    subst hv
    exact encodeS_decodeS it s x hs hx
  | emptyIface =>
    simp only [Strict] at hs
    subst hs
    simp [runDec, sizeZero] at h
    subst h; rfl
  | loose n =>
    simp only [Strict] at hs
    obtain ⟨b, hb, hl⟩ := hs
    subst hb
    simp only [runDec, Option.some.injEq] at h
    subst h
    simp [runEnc, setBytesN_exact hl, hl]
  | nilOr s =>
    simp only [Strict] at hs
    cases hs.2 with
    | inl h1 =>
      subst h1
      simp [runDec, sizeZero] at h
      subst h; rfl
    | inr h2 =>
      simp only [runDec, h2, Bool.false_eq_true, if_false, Option.map_eq_some_iff] at h
      obtain ⟨x, hx, hv⟩ := h
      subst hv
      have hne := decodeS_ne_nil s it hs.1
      have he := encodeS_decodeS it s x hs.1 hx
      cases x with
      | nil => exact absurd hx hne
      | bytes _ => exact he
      | nat _ => exact he
      | list _ => exact he
  | asset =>
    simp only [Strict] at hs
    cases hs with
    | inl h1 =>
      subst h1
      simp [runDec, sizeZero] at h
      subst h; rfl
    | inr h2 =>
      obtain ⟨a, b, c, d, e, f, g, qs, hit, hq⟩ := h2
      subst hit
      have hz : sizeZero (Item.list [a, b, c, d, e, f, g, encodeProfile qs]) = false := rfl
      simp only [runDec, hz, Bool.false_eq_true, if_false, decodeAsset, decodeProfile_encodeProfile qs hq] at h
      cases hf : decodeAssetFields [a, b, c, d, e, f, g] with
      | none => simp [hf] at h
      | some fs =>
        simp only [hf, Option.map_some, Option.some.injEq] at h
        subst h
        unfold decodeAssetFields at hf
        split at hf
        · rename_i fs' hd
          split at hf
          · rename_i hb
            cases hf
            have he := encodeFields_decodeFields [a, b, c, d, e, f, g] assetFields fs (by decide) hd
            simp [runEnc, encodeAsset, hb, he]
          · cases hf
        · cases hf
  | candidate =>
    simp only [Strict] at hs
    cases hs with
    | inl h1 =>
      simp only [runDec, h1, if_true, Option.some.injEq] at h
      subst h; rfl
    | inr h2 =>
      obtain ⟨qs, hq, hit⟩ := h2
      subst hit
      by_cases hz : sizeZero (encodeProfile qs) = true
      · simp only [runDec, hz, if_true, Option.some.injEq] at h
        subst h; rfl
      · simp only [runDec, hz, Bool.false_eq_true, if_false, decodeProfile_encodeProfile qs hq,
          Option.map_some, Option.some.injEq] at h
        subst h; rfl

end LemoProofs.RlpCustomLemmas

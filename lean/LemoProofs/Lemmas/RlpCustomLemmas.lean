/-
  Helper lemmas for C14: the hand-written codecs (`LemoModel.RlpCustom`): Profile as a sorted association
  list, payload decoders, header root positions.
-/
import LemoModel.RlpCustom
import LemoProofs.Lemmas.RlpSchemaLemmas
namespace LemoProofs.RlpCustomLemmas
open LemoModel.Rlp LemoModel.RlpSchema LemoModel.RlpCustom LemoProofs.RlpSchemaLemmas

/-! ### key order -/

theorem ltBytes_irrefl (a : List UInt8) : ltBytes a a = false := by
  induction a with
  | nil => rfl
  | cons x xs ih => simp [ltBytes, ih]

theorem ltBytes_asymm : ∀ (a b : List UInt8), ltBytes a b = true → ltBytes b a = false
  | [], [], h => by simp [ltBytes] at h
  | [], _ :: _, _ => by simp [ltBytes]
  | _ :: _, [], h => by simp [ltBytes] at h
  | x :: xs, y :: ys, h => by
    simp only [ltBytes] at h ⊢
    by_cases h1 : x.toNat < y.toNat
    · have : ¬ y.toNat < x.toNat := by omega
      simp [this, h1]
    · by_cases h2 : y.toNat < x.toNat
      · simp [h1, h2] at h
      · simp only [h1, h2, if_false] at h ⊢
        exact ltBytes_asymm xs ys h

/-- strictly increasing keys (`sort.Strings` of the distinct keys of a map) -/
def Sorted (ps : List KV) : Prop := ps.Pairwise (fun a b => ltBytes a.1 b.1 = true)

theorem insertKV_all_lt (p : KV) : ∀ (acc : List KV), (∀ a ∈ acc, ltBytes a.1 p.1 = true) → insertKV p acc = acc ++ [p]
  | [], _ => rfl
  | q :: qs, h => by
    have hq := h q (List.mem_cons_self ..)
    have hnq := ltBytes_asymm _ _ hq
    simp only [insertKV, hnq, hq, if_true, Bool.false_eq_true, if_false, List.cons_append]
    rw [insertKV_all_lt p qs (fun a ha => h a (List.mem_cons_of_mem _ ha))]

theorem foldl_insert_sorted : ∀ (l acc : List KV), (∀ a ∈ acc, ∀ b ∈ l, ltBytes a.1 b.1 = true) → Sorted l →
    l.foldl (fun m p => insertKV p m) acc = acc ++ l
  | [], acc, _, _ => by simp
  | x :: l, acc, h, hs => by
    have hx : ∀ a ∈ acc, ltBytes a.1 x.1 = true := fun a ha => h a ha x (List.mem_cons_self ..)
    simp only [List.foldl_cons]
    rw [insertKV_all_lt x acc hx]
    have hs' := List.pairwise_cons.mp hs
    rw [foldl_insert_sorted l (acc ++ [x]) ?_ hs'.2]
    · simp
    · intro a ha b hb
      rcases List.mem_append.mp ha with h1 | h1
      · exact h a h1 b (List.mem_cons_of_mem _ hb)
      · have : a = x := by simpa using h1
        subst this
        exact hs'.1 b hb

theorem ltBytes_trans : ∀ (a b c : List UInt8), ltBytes a b = true → ltBytes b c = true → ltBytes a c = true
  | [], [], _, h, _ => by simp [ltBytes] at h
  | [], _ :: _, [], _, h => by simp [ltBytes] at h
  | [], _ :: _, _ :: _, _, _ => by simp [ltBytes]
  | _ :: _, [], _, h, _ => by simp [ltBytes] at h
  | _ :: _, _ :: _, [], _, h => by simp [ltBytes] at h
  | x :: xs, y :: ys, z :: zs, h1, h2 => by
    simp only [ltBytes] at h1 h2 ⊢
    by_cases hxy : x.toNat < y.toNat
    · by_cases hyz : y.toNat < z.toNat
      · have : x.toNat < z.toNat := by omega
        simp [this]
      · by_cases hzy : z.toNat < y.toNat
        · simp [hyz, hzy] at h2
        · have : x.toNat < z.toNat := by omega
          simp [this]
    · by_cases hyx : y.toNat < x.toNat
      · simp [hxy, hyx] at h1
      · simp only [hxy, hyx, if_false] at h1
        by_cases hyz : y.toNat < z.toNat
        · have : x.toNat < z.toNat := by omega
          simp [this]
        · by_cases hzy : z.toNat < y.toNat
          · simp [hyz, hzy] at h2
          · simp only [hyz, hzy, if_false] at h2
            have h3 : ¬ x.toNat < z.toNat := by omega
            have h4 : ¬ z.toNat < x.toNat := by omega
            simp only [h3, h4, if_false]
            exact ltBytes_trans xs ys zs h1 h2

/-- the decoder's test of adjacent keys is the test of all pairs -/
theorem sorted_of_ascB : ∀ (ps : List KV), ascB ps = true → Sorted ps
  | [], _ => List.Pairwise.nil
  | [p], _ => by simp [Sorted]
  | a :: b :: rest, h => by
    simp only [ascB, Bool.and_eq_true] at h
    have ih := sorted_of_ascB (b :: rest) h.2
    unfold Sorted at ih ⊢
    have ih' := List.pairwise_cons.mp ih
    refine List.pairwise_cons.mpr ⟨?_, ih⟩
    intro c hc
    rcases List.mem_cons.mp hc with hcb | hc'
    · subst hcb; exact h.1
    · exact ltBytes_trans _ _ _ h.1 (ih'.1 c hc')

theorem ascB_of_sorted : ∀ (ps : List KV), Sorted ps → ascB ps = true
  | [], _ => rfl
  | [_], _ => rfl
  | a :: b :: rest, h => by
    unfold Sorted at h
    have h' := List.pairwise_cons.mp h
    simp only [ascB, Bool.and_eq_true]
    exact ⟨h'.1 b (List.mem_cons_self ..), ascB_of_sorted (b :: rest) h'.2⟩

theorem asPairs_map (ps : List KV) : asPairs (ps.map pairItem) = some ps := by
  induction ps with
  | nil => rfl
  | cons p ps ih => simp [asPairs, pairItem, asPair, ih]

theorem asPair_inv {x : Item} {p : KV} (h : asPair x = some p) : x = pairItem p := by
  unfold asPair at h
  split at h
  · cases h; rfl
  · cases h

theorem asPairs_inv : ∀ (xs : List Item) (ps : List KV), asPairs xs = some ps → xs = ps.map pairItem
  | [], ps, h => by simp [asPairs] at h; subst h; rfl
  | x :: xs, ps, h => by
    rw [asPairs] at h
    split at h
    · rename_i p ps' h1 h2
      cases h
      rw [List.map_cons, ← asPair_inv h1, ← asPairs_inv xs ps' h2]
    · cases h

/-- a key-sorted profile decodes from its own encoding to itself (the code as it is, and the code before 8a6b205) -/
theorem decodeProfile_encodeProfile (ps : List KV) (h : Sorted ps) : decodeProfile true (encodeProfile ps) = some ps := by
  unfold decodeProfile encodeProfile
  simp only [if_true, asPairs_map, ascB_of_sorted ps h]
  rw [foldl_insert_sorted ps [] (by simp) h]
  rfl

/-- **canonicity of the Profile codec**: what `Profile.DecodeRLP` accepts is the encoding of the decoded map -/
theorem encodeProfile_decodeProfile {it : Item} {ps : List KV} (h : decodeProfile true it = some ps) :
    encodeProfile ps = it ∧ Sorted ps := by
  unfold decodeProfile at h
  simp only [if_true] at h
  cases it with
  | bytes b => simp at h
  | list xs =>
    simp only at h
    cases hp : asPairs xs with
    | none => simp [hp] at h
    | some qs =>
      simp only [hp] at h
      split at h
      · rename_i ha
        cases h
        have hs := sorted_of_ascB qs ha
        rw [foldl_insert_sorted qs [] (by simp) hs]
        simp only [List.nil_append]
        refine ⟨?_, hs⟩
        unfold encodeProfile
        rw [← asPairs_inv xs qs hp]
      · cases h

/-! ### header root positions -/

theorem mapAt_id (f : Val → Val) : ∀ (i : Nat) (l : List Val), okAt (fun x => f x = x) i l → mapAt f i l = l
  | _, [], _ => rfl
  | i, x :: xs, h => by
    simp only [okAt] at h
    simp only [mapAt]
    rw [mapAt_id f (i + 1) xs h.2]
    by_cases hi : i = 3 ∨ i = 4
    · rw [if_pos hi, h.1 hi]
    · rw [if_neg hi]

theorem mapAt_mapAt (f g : Val → Val) : ∀ (i : Nat) (l : List Val), mapAt f i (mapAt g i l) = mapAt (f ∘ g) i l
  | _, [] => rfl
  | i, x :: xs => by
    simp only [mapAt]
    rw [mapAt_mapAt f g (i + 1) xs]
    by_cases hi : i = 3 ∨ i = 4 <;> simp [hi]

theorem okAt_mono {P Q : Val → Prop} (hpq : ∀ x, P x → Q x) : ∀ (i : Nat) (l : List Val), okAt P i l → okAt Q i l
  | _, [], _ => trivial
  | i, x :: xs, h => by
    simp only [okAt] at h ⊢
    exact ⟨fun hi => hpq x (h.1 hi), okAt_mono hpq (i + 1) xs h.2⟩


/-- the wire forms of a header root that `decodeRoot` accepts -/
def wireRootOk (E : List UInt8) : Val → Prop
  | .bytes b => b = [] ∨ (b.length = 32 ∧ b ≠ E)
  | _ => True

theorem rootOk_iff {E b : List UInt8} (h : rootOk E b = true) : b = [] ∨ (b.length = 32 ∧ b ≠ E) := by
  unfold rootOk at h
  split at h
  · rename_i he
    left
    cases b with
    | nil => rfl
    | cons a t => simp at he
  · right; exact of_decide_eq_true h

theorem okAt_of_rootsOk (E : List UInt8) : ∀ (i : Nat) (l : List Val), rootsOk E i l = true → okAt (wireRootOk E) i l
  | _, [], _ => trivial
  | i, x :: xs, h => by
    simp only [rootsOk, Bool.and_eq_true] at h
    simp only [okAt]
    refine ⟨?_, okAt_of_rootsOk E (i + 1) xs h.2⟩
    intro hi
    have h1 := h.1
    rw [if_pos hi] at h1
    cases x with
    | bytes r => exact rootOk_iff h1
    | nat _ => trivial
    | list _ => trivial
    | nil => trivial

/-! ### payload decoders (the code as it is, `fx = true`) -/

theorem emptyList_iff {it : Item} : emptyList it = true ↔ it = .list [] := by
  constructor
  · intro h
    unfold emptyList at h
    split at h
    · rfl
    · cases h
  · intro h; subst h; rfl

theorem nilForm_true (it : Item) : nilForm true it = emptyList it := rfl

theorem decodeS_struct_list {fx : Bool} {fs : List Schema} {it : Item} {v : Val}
    (h : decodeS fx (.struct fs) it = some v) : ∃ xs vs, it = .list xs ∧ v = .list vs := by
  cases it with
  | bytes b => simp [decodeS] at h
  | list xs =>
    simp only [decodeS, Option.map_eq_some_iff] at h
    obtain ⟨vs, _, hv⟩ := h
    exact ⟨xs, vs, rfl, hv.symm⟩

theorem decodeS_listOf_list {fx : Bool} {s : Schema} {it : Item} {v : Val}
    (h : decodeS fx (.listOf s) it = some v) : ∃ vs, v = .list vs := by
  cases it with
  | bytes b => simp [decodeS] at h
  | list xs =>
    simp only [decodeS, Option.map_eq_some_iff] at h
    obtain ⟨vs, _, hv⟩ := h
    exact ⟨vs, hv.symm⟩

/-- representation invariants of a payload VALUE - not guards on the wire: a Profile is a Go map, kept as a key-sorted
    association list; a `Signers` payload is a slice (the nil slice is identified with the empty one, both are written
    0xC0); the raw item of the code before 29ca096 does not occur; a `nilOr` decoder belongs to a struct with at least one
    field (true of the two that are registered: AssetEquity, ProfileChangeLogExtra). -/
def Wf : PDec → CVal → Prop
  | .asset, .asset _ ps => Sorted ps
  | .candidate, .prof ps => Sorted ps
  | .candidate, .raw _ => False
  | .signers, .v x => x ≠ .nil
  | .nilOr fs, .v x => x = .nil ∨ fs ≠ []
  | _, _ => True

theorem setBytesN_exact {n : Nat} {b : List UInt8} (h : b.length = n) : setBytesN n b = b := by
  unfold setBytesN; simp [h]

theorem encodeFields_length : ∀ (fs : List Schema) (vs : List Val) (xs : List Item),
    encodeFields fs vs = some xs → xs.length = fs.length
  | [], [], xs, h => by simp [encodeFields] at h; subst h; rfl
  | [], _ :: _, xs, h => by simp [encodeFields] at h
  | _ :: _, [], xs, h => by simp [encodeFields] at h
  | f :: fs, v :: vs, xs, h => by
    rw [encodeFields] at h
    split at h
    · rename_i x xs' h1 h2
      cases h
      simp [encodeFields_length fs vs xs' h2]
    · cases h

theorem decodeAsset_encodeAsset (fs : List Val) (ps : List KV) (it : Item) (hs : Sorted ps)
    (h : encodeAsset (fs, ps) = some it) : decodeAsset true it = some (fs, ps) := by
  unfold encodeAsset at h
  split at h
  · rename_i hb
    cases he : encodeFields assetFields fs with
    | none => simp [he] at h
    | some xs =>
      simp only [he, Option.map_some, Option.some.injEq] at h
      subst h
      have hl := encodeFields_length _ _ _ he
      have hd := decodeFields_encodeFields true fs assetFields xs he
      match xs, hl with
      | [a, b, c, d, e, f, g], _ =>
        simp only [List.cons_append, List.nil_append, decodeAsset, decodeAssetFields, hd, hb, if_true,
          decodeProfile_encodeProfile ps hs]
  · cases h

/-- **canonicity of the Asset codec** -/
theorem encodeAsset_decodeAsset {it : Item} {fs : List Val} {ps : List KV} (h : decodeAsset true it = some (fs, ps)) :
    encodeAsset (fs, ps) = some it ∧ Sorted ps := by
  unfold decodeAsset at h
  split at h
  · simp at h
  · rename_i a b c d e f g p
    cases hf : decodeAssetFields true [a, b, c, d, e, f, g] with
    | none => simp [hf] at h
    | some fs' =>
      cases hp : decodeProfile true p with
      | none => simp [hf, hp] at h
      | some ps' =>
        simp only [hf, hp, Option.some.injEq, Prod.mk.injEq] at h
        obtain ⟨h1, h2⟩ := h
        subst h1 h2
        have hq := encodeProfile_decodeProfile hp
        unfold decodeAssetFields at hf
        split at hf
        · rename_i fs'' hd
          split at hf
          · rename_i hb
            cases hf
            have he := encodeFields_decodeFields [a, b, c, d, e, f, g] assetFields fs' hd
            refine ⟨?_, hq.2⟩
            simp [encodeAsset, hb, he, hq.1]
          · cases hf
        · cases hf
  · cases h

/-- **payload round trip**: every well-formed payload value written by the encoder is read back by the registered decoder -/
theorem runDec_runEnc (p : PDec) (v : CVal) (it : Item) (h : runEnc p v = some it) (hok : Wf p v) :
    runDec true p it = some v := by
  cases p with
  | strict s =>
    cases v with
    | v x => simp only [runEnc] at h; simp [runDec, decodeS_encodeS true x s it h]
    | prof _ => simp [runEnc] at h
    | asset _ _ => simp [runEnc] at h
    | raw _ => simp [runEnc] at h
  | emptyIface =>
    cases v with
    | v x =>
      cases x <;> simp [runEnc] at h
      subst h; rfl
    | prof _ => simp [runEnc] at h
    | asset _ _ => simp [runEnc] at h
    | raw _ => simp [runEnc] at h
  | fixedN n =>
    cases v with
    | v x =>
      cases x <;> simp [runEnc] at h
      obtain ⟨h1, h2⟩ := h
      subst h2
      simp [runDec, h1]
    | prof _ => simp [runEnc] at h
    | asset _ _ => simp [runEnc] at h
    | raw _ => simp [runEnc] at h
  | nilOr fs =>
    cases v with
    | v x =>
      simp only [Wf] at hok
      by_cases hx : x = .nil
      · subst hx
        simp only [runEnc, Option.some.injEq] at h
        subst h; rfl
      · have hfs : fs ≠ [] := by
          cases hok with
          | inl h1 => exact absurd h1 hx
          | inr h2 => exact h2
        have he : encodeS (.struct fs) x = some it := by
          cases x <;> simp_all [runEnc]
        have hd := decodeS_encodeS true x (.struct fs) it he
        obtain ⟨xs, vs, hit, hv⟩ := decodeS_struct_list hd
        subst hit hv
        have hne : xs ≠ [] := by
          simp only [encodeS, Option.map_eq_some_iff] at he
          obtain ⟨ys, hy, hyx⟩ := he
          cases hyx
          have hl := encodeFields_length _ _ _ hy
          intro hxs; subst hxs
          cases fs with
          | nil => exact hfs rfl
          | cons f fs' => simp at hl
        have hz : nilForm true (Item.list xs) = false := by
          cases xs with
          | nil => exact absurd rfl hne
          | cons a t => rfl
        simp [runDec, hz, hd]
    | prof _ => simp [runEnc] at h
    | asset _ _ => simp [runEnc] at h
    | raw _ => simp [runEnc] at h
  | signers =>
    cases v with
    | v x =>
      simp only [Wf] at hok
      have he : encodeS signersSchema x = some it := by
        cases x <;> simp_all [runEnc]
      simp [runDec, decodeS_encodeS true x signersSchema it he]
    | prof _ => simp [runEnc] at h
    | asset _ _ => simp [runEnc] at h
    | raw _ => simp [runEnc] at h
  | asset =>
    cases v with
    | v x =>
      cases x <;> simp [runEnc] at h
      subst h; rfl
    | asset fs ps =>
      simp only [Wf] at hok
      simp only [runEnc] at h
      have hd := decodeAsset_encodeAsset fs ps it hok h
      have hz : nilForm true it = false := by
        unfold decodeAsset at hd
        split at hd <;> first | rfl | (cases hd)
      simp [runDec, hz, hd]
    | prof _ => simp [runEnc] at h
    | raw _ => simp [runEnc] at h
  | candidate =>
    cases v with
    | raw it' => exact absurd hok (by simp [Wf])
    | prof ps =>
      simp only [Wf] at hok
      simp only [runEnc, Option.some.injEq] at h
      subst h
      simp [runDec, decodeProfile_encodeProfile ps hok]
    | v _ => simp [runEnc] at h
    | asset _ _ => simp [runEnc] at h

/-- **payload canonicity**: whatever a registered payload decoder accepts is the encoding of the decoded value -
    for every decoder and every item, no guard -/
theorem runEnc_runDec (p : PDec) (v : CVal) (it : Item) (h : runDec true p it = some v) :
    runEnc p v = some it := by
  cases p with
  | strict s =>
    simp only [runDec, Option.map_eq_some_iff] at h
    obtain ⟨x, hx, hv⟩ := h
    subst hv
    exact encodeS_decodeS it s x hx
  | emptyIface =>
    simp only [runDec] at h
    by_cases hz : nilForm true it = true
    · rw [if_pos hz] at h
      cases h
      have hz' : emptyList it = true := hz
      rw [emptyList_iff.mp hz']; rfl
    · rw [if_neg hz] at h
      cases h
  | fixedN n =>
    cases it with
    | bytes b =>
      simp only [runDec, if_true] at h
      split at h
      · rename_i hl
        cases h
        simp [runEnc, hl]
      · cases h
    | list xs => simp [runDec] at h
  | nilOr fs =>
    simp only [runDec] at h
    by_cases hz : nilForm true it = true
    · rw [if_pos hz] at h
      cases h
      have hz' : emptyList it = true := hz
      rw [emptyList_iff.mp hz']; rfl
    · rw [if_neg hz] at h
      simp only [Option.map_eq_some_iff] at h
      obtain ⟨x, hx, hv⟩ := h
      subst hv
      obtain ⟨xs, vs, hit, hxv⟩ := decodeS_struct_list hx
      subst hxv
      exact encodeS_decodeS it (.struct fs) _ hx
  | signers =>
    simp only [runDec, if_true, Option.map_eq_some_iff] at h
    obtain ⟨x, hx, hv⟩ := h
    subst hv
    obtain ⟨vs, hxv⟩ := decodeS_listOf_list (s := .struct [.fixed 20, .uint 8]) hx
    subst hxv
    exact encodeS_decodeS it signersSchema _ hx
  | asset =>
    simp only [runDec] at h
    by_cases hz : nilForm true it = true
    · rw [if_pos hz] at h
      cases h
      have hz' : emptyList it = true := hz
      rw [emptyList_iff.mp hz']; rfl
    · rw [if_neg hz] at h
      simp only [Option.map_eq_some_iff] at h
      obtain ⟨a, ha, hv⟩ := h
      subst hv
      obtain ⟨fs, ps⟩ := a
      exact (encodeAsset_decodeAsset ha).1
  | candidate =>
    simp only [runDec, if_true, Option.map_eq_some_iff] at h
    obtain ⟨ps, hp, hv⟩ := h
    subst hv
    simp [runEnc, (encodeProfile_decodeProfile hp).1]

/-- a decoded payload value satisfies the representation invariants (so it round-trips again) -/
theorem runDec_wf (p : PDec) (v : CVal) (it : Item) (h : runDec true p it = some v) (hp : ∀ fs, p = .nilOr fs → fs ≠ []) :
    Wf p v := by
  cases p with
  | strict s => simp only [runDec, Option.map_eq_some_iff] at h; obtain ⟨x, _, hv⟩ := h; subst hv; trivial
  | emptyIface =>
    simp only [runDec] at h
    split at h
    · cases h; trivial
    · cases h
  | fixedN n =>
    cases it with
    | bytes b =>
      simp only [runDec, if_true] at h
      split at h
      · cases h; trivial
      · cases h
    | list xs => simp [runDec] at h
  | nilOr fs =>
    simp only [runDec] at h
    split at h
    · cases h; exact Or.inl rfl
    · simp only [Option.map_eq_some_iff] at h
      obtain ⟨x, _, hv⟩ := h
      subst hv
      exact Or.inr (hp fs rfl)
  | signers =>
    simp only [runDec, if_true, Option.map_eq_some_iff] at h
    obtain ⟨x, hx, hv⟩ := h
    subst hv
    obtain ⟨vs, hxv⟩ := decodeS_listOf_list (s := .struct [.fixed 20, .uint 8]) hx
    subst hxv
    simp [Wf]
  | asset =>
    simp only [runDec] at h
    split at h
    · cases h; trivial
    · simp only [Option.map_eq_some_iff] at h
      obtain ⟨a, ha, hv⟩ := h
      subst hv
      obtain ⟨fs, ps⟩ := a
      exact (encodeAsset_decodeAsset ha).2
  | candidate =>
    simp only [runDec, if_true, Option.map_eq_some_iff] at h
    obtain ⟨ps, hp', hv⟩ := h
    subst hv
    exact (encodeProfile_decodeProfile hp').2

end LemoProofs.RlpCustomLemmas

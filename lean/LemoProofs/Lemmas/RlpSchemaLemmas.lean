/-
  Helper lemmas for C14: the typed layer (`LemoModel.RlpSchema`) against the generic item tree.
-/
import LemoModel.RlpSchema
import LemoProofs.Lemmas.RlpBytes
namespace LemoProofs.RlpSchemaLemmas
open LemoModel.Rlp LemoModel.RlpSchema LemoProofs.RlpBytes

theorem noLeadZero_toBE (v : Nat) : noLeadZero (toBE v) = true := by
  unfold noLeadZero
  by_cases h : v = 0
  · subst h; rw [toBE_zero]; rfl
  · have := toBE_head v h
    simpa using this

theorem noLeadZero_iff {b : List UInt8} : noLeadZero b = true ↔ b.head? ≠ some 0 := by
  unfold noLeadZero; simp

mutual
  theorem decodeS_encodeS (fx : Bool) : ∀ (v : Val) (s : Schema) (it : Item), encodeS s v = some it → decodeS fx s it = some v
    | .bytes b, s, it, h => by
      cases s with
      | bytes => simp [encodeS] at h; subst h; simp [decodeS]
      | fixed n =>
        simp [encodeS] at h
        obtain ⟨h1, h2⟩ := h
        subst h2; simp [decodeS, h1]
      | optFixed n =>
        simp [encodeS] at h
        obtain ⟨⟨h1, h3⟩, h2⟩ := h
        subst h2
        have : b ≠ [] := by intro hb; subst hb; simp at h1; omega
        simp [decodeS, h1, this]
      | uint _ => simp [encodeS] at h
      | big => simp [encodeS] at h
      | listOf _ => simp [encodeS] at h
      | struct _ => simp [encodeS] at h
    | .nat n, s, it, h => by
      cases s with
      | uint bits =>
        simp [encodeS] at h
        obtain ⟨h1, h2⟩ := h
        subst h2
        have hl := toBE_length_le (bits / 8) n h1
        simp [decodeS, noLeadZero_toBE, hl, fromBE_toBE]
      | big =>
        simp [encodeS] at h
        subst h
        simp [decodeS, noLeadZero_toBE, fromBE_toBE]
      | bytes => simp [encodeS] at h
      | fixed _ => simp [encodeS] at h
      | optFixed _ => simp [encodeS] at h
      | listOf _ => simp [encodeS] at h
      | struct _ => simp [encodeS] at h
    | .list vs, s, it, h => by
      cases s with
      | listOf s' =>
        simp [encodeS] at h
        obtain ⟨xs, h1, h2⟩ := h
        subst h2
        simp [decodeS, decodeAll_encodeAll fx vs s' xs h1]
      | struct fs =>
        simp [encodeS] at h
        obtain ⟨xs, h1, h2⟩ := h
        subst h2
        simp [decodeS, decodeFields_encodeFields fx vs fs xs h1]
      | bytes => simp [encodeS] at h
      | fixed _ => simp [encodeS] at h
      | optFixed _ => simp [encodeS] at h
      | uint _ => simp [encodeS] at h
      | big => simp [encodeS] at h
    | .nil, s, it, h => by
      cases s with
      | optFixed n => simp [encodeS] at h; subst h; simp [decodeS]
      | bytes => simp [encodeS] at h
      | fixed _ => simp [encodeS] at h
      | uint _ => simp [encodeS] at h
      | big => simp [encodeS] at h
      | listOf _ => simp [encodeS] at h
      | struct _ => simp [encodeS] at h
  theorem decodeAll_encodeAll (fx : Bool) : ∀ (vs : List Val) (s : Schema) (xs : List Item),
      encodeAll s vs = some xs → decodeAll fx s xs = some vs
    | [], s, xs, h => by simp [encodeAll] at h; subst h; simp [decodeAll]
    | v :: vs, s, xs, h => by
      rw [encodeAll] at h
      split at h
      · rename_i x xs' h1 h2
        cases h
        rw [decodeAll, decodeS_encodeS fx v s x h1, decodeAll_encodeAll fx vs s xs' h2]
      · cases h
  theorem decodeFields_encodeFields (fx : Bool) : ∀ (vs : List Val) (fs : List Schema) (xs : List Item),
      encodeFields fs vs = some xs → decodeFields fx fs xs = some vs
    | [], fs, xs, h => by
      cases fs with
      | nil => simp [encodeFields] at h; subst h; simp [decodeFields]
      | cons f fs => simp [encodeFields] at h
    | v :: vs, fs, xs, h => by
      cases fs with
      | nil => simp [encodeFields] at h
      | cons f fs =>
        rw [encodeFields] at h
        split at h
        · rename_i x xs' h1 h2
          cases h
          rw [decodeFields, decodeS_encodeS fx v f x h1, decodeFields_encodeFields fx vs fs xs' h2]
        · cases h
end

/-! canonicity of the typed layer, for the code as it is (`fx = true`): EVERY schema, `rlp:"nil"` pointers included -/
mutual
  theorem encodeS_decodeS : ∀ (it : Item) (s : Schema) (v : Val),
      decodeS true s it = some v → encodeS s v = some it
    | .bytes b, s, v, h => by
      cases s with
      | bytes => simp [decodeS] at h; subst h; simp [encodeS]
      | fixed n =>
        simp [decodeS] at h
        obtain ⟨h1, h2⟩ := h
        subst h2; simp [encodeS, h1]
      | uint bits =>
        simp [decodeS] at h
        obtain ⟨⟨h1, h3⟩, h2⟩ := h
        subst h2
        have hlt := fromBE_lt b
        have hle : 256 ^ b.length ≤ 256 ^ (bits / 8) := Nat.pow_le_pow_right (by omega) h3
        have hb := toBE_fromBE b (noLeadZero_iff.mp h1)
        simp [encodeS, hb]; omega
      | big =>
        simp [decodeS] at h
        obtain ⟨h1, h2⟩ := h
        subst h2
        simp [encodeS, toBE_fromBE b (noLeadZero_iff.mp h1)]
      | optFixed n =>
        simp only [decodeS] at h
        split at h
        · rename_i hb
          cases h
          have : b = [] := by cases b with
            | nil => rfl
            | cons a t => simp at hb
          subst this; simp [encodeS]
        · rename_i hb
          split at h
          · rename_i hl
            cases h
            have hpos : 0 < n := by
              cases b with
              | nil => simp at hb
              | cons a t => simp at hl; omega
            simp [encodeS, hl, hpos]
          · cases h
      | listOf _ => simp [decodeS] at h
      | struct _ => simp [decodeS] at h
    | .list xs, s, v, h => by
      cases s with
      | listOf s' =>
        simp [decodeS] at h
        obtain ⟨vs, h1, h2⟩ := h
        subst h2
        simp [encodeS, encodeAll_decodeAll xs s' vs h1]
      | struct fs =>
        simp [decodeS] at h
        obtain ⟨vs, h1, h2⟩ := h
        subst h2
        simp [encodeS, encodeFields_decodeFields xs fs vs h1]
      | optFixed n => simp [decodeS] at h
      | bytes => simp [decodeS] at h
      | fixed _ => simp [decodeS] at h
      | uint _ => simp [decodeS] at h
      | big => simp [decodeS] at h
  theorem encodeAll_decodeAll : ∀ (xs : List Item) (s : Schema) (vs : List Val),
      decodeAll true s xs = some vs → encodeAll s vs = some xs
    | [], s, vs, h => by simp [decodeAll] at h; subst h; simp [encodeAll]
    | x :: xs, s, vs, h => by
      rw [decodeAll] at h
      split at h
      · rename_i v vs' h1 h2
        cases h
        rw [encodeAll, encodeS_decodeS x s v h1, encodeAll_decodeAll xs s vs' h2]
      · cases h
  theorem encodeFields_decodeFields : ∀ (xs : List Item) (fs : List Schema) (vs : List Val),
      decodeFields true fs xs = some vs → encodeFields fs vs = some xs
    | [], fs, vs, h => by
      cases fs with
      | nil => simp [decodeFields] at h; subst h; simp [encodeFields]
      | cons f fs => simp [decodeFields] at h
    | x :: xs, fs, vs, h => by
      cases fs with
      | nil => simp [decodeFields] at h
      | cons f fs =>
        rw [decodeFields] at h
        split at h
        · rename_i v vs' h1 h2
          cases h
          rw [encodeFields, encodeS_decodeS x f v h1, encodeFields_decodeFields xs fs vs' h2]
        · cases h
end

end LemoProofs.RlpSchemaLemmas

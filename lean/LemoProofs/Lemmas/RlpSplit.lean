/-
  Helper lemmas for C14: the header reader (`readHead` / `split`) against the header writer (`encLen`).
-/
import LemoModel.Rlp
import LemoProofs.Lemmas.RlpBytes
namespace LemoProofs.RlpSplit
open LemoModel.Rlp LemoProofs.RlpBytes

theorem pow64 : (2 : Nat) ^ 64 = 256 ^ 8 := by decide

theorem toBE_len_8 {n : Nat} (h : n < 2 ^ 64) : (toBE n).length ≤ 8 :=
  toBE_length_le 8 n (by rw [← pow64]; exact h)

theorem encLen_length_pos (off n : Nat) : 0 < (encLen off n).length := by
  unfold encLen; split <;> simp

theorem encLen_ne_nil (off n : Nat) : encLen off n ≠ [] := by
  unfold encLen; split <;> simp

/-! ### encoder → decoder -/

theorem readSize_toBE (top : Bool) (n : Nat) (rest : List UInt8) (h56 : 56 ≤ n) :
    readSize top (toBE n).length (toBE n ++ rest) = .ok (n, rest) := by
  unfold readSize
  have h1 : ¬ (toBE n ++ rest).length < (toBE n).length := by simp
  rw [if_neg h1, List.take_left, List.drop_left, fromBE_toBE]
  rw [if_neg (toBE_head n (by omega)), if_neg (by omega)]

theorem readHead_encLen_str (top : Bool) (n : Nat) (rest : List UInt8) (hn : n < 2 ^ 64)
    (hlen : n ≤ rest.length) : readHead top (encLen 128 n ++ rest) = .ok (.str n, rest) := by
  unfold encLen
  by_cases h : n < 56
  · rw [if_pos h]
    have hb : (UInt8.ofNat (128 + n)).toNat = 128 + n := u8_ofNat_toNat (by omega)
    simp only [List.cons_append, List.nil_append, readHead, hb]
    rw [if_neg (by omega), if_pos (by omega), if_neg (by omega)]
    have : 128 + n - 128 = n := by omega
    rw [this]
  · rw [if_neg h]
    have h8 := toBE_len_8 hn
    have h1 := toBE_length_pos (n := n) (by omega)
    have hb : (UInt8.ofNat (128 + 55 + (toBE n).length)).toNat = 183 + (toBE n).length := by
      rw [u8_ofNat_toNat (by omega)]
    simp only [List.cons_append, readHead, hb]
    rw [if_neg (by omega), if_neg (by omega), if_pos (by omega)]
    have : 183 + (toBE n).length - 183 = (toBE n).length := by omega
    rw [this, readSize_toBE top n rest (by omega)]
    simp only
    rw [if_neg (by omega)]

theorem readHead_encLen_lst (top : Bool) (n : Nat) (rest : List UInt8) (hn : n < 2 ^ 64)
    (hlen : n ≤ rest.length) : readHead top (encLen 192 n ++ rest) = .ok (.lst n, rest) := by
  unfold encLen
  by_cases h : n < 56
  · rw [if_pos h]
    have hb : (UInt8.ofNat (192 + n)).toNat = 192 + n := u8_ofNat_toNat (by omega)
    simp only [List.cons_append, List.nil_append, readHead, hb]
    rw [if_neg (by omega), if_neg (by omega), if_neg (by omega), if_pos (by omega), if_neg (by omega)]
    have : 192 + n - 192 = n := by omega
    rw [this]
  · rw [if_neg h]
    have h8 := toBE_len_8 hn
    have h1 := toBE_length_pos (n := n) (by omega)
    have hb : (UInt8.ofNat (192 + 55 + (toBE n).length)).toNat = 247 + (toBE n).length := by
      rw [u8_ofNat_toNat (by omega)]
    simp only [List.cons_append, readHead, hb]
    rw [if_neg (by omega), if_neg (by omega), if_neg (by omega), if_neg (by omega)]
    have : 247 + (toBE n).length - 247 = (toBE n).length := by omega
    rw [this, readSize_toBE top n rest (by omega)]
    simp only
    rw [if_neg (by omega)]

theorem encodeBytes_of_not_singleLow {p : List UInt8} (h : singleLow p = false) :
    encodeBytes p = encLen 128 p.length ++ p := by
  unfold encodeBytes
  split
  · rename_i x
    have : ¬ x.toNat < 128 := by simpa [singleLow] using h
    rw [if_neg this]; rfl
  · rfl

theorem encodeBytes_single_low {x : UInt8} (h : x.toNat < 128) : encodeBytes [x] = [x] := by
  unfold encodeBytes; simp [h]

theorem split_encodeBytes (top : Bool) (b tail : List UInt8) (h : b.length < 2 ^ 64) :
    split top (encodeBytes b ++ tail) = .ok (false, b, tail) := by
  by_cases hs : singleLow b = true
  · -- b = [x], x < 128
    match b, hs with
    | [x], hs =>
      have hx : x.toNat < 128 := by simpa [singleLow] using hs
      rw [encodeBytes_single_low hx]
      simp only [List.cons_append, List.nil_append, split, readHead]
      rw [if_pos hx]
  · have hs' : singleLow b = false := by simpa using hs
    rw [encodeBytes_of_not_singleLow hs', List.append_assoc]
    unfold split
    rw [readHead_encLen_str top b.length (b ++ tail) h (by simp)]
    simp only [List.take_left, List.drop_left, hs']
    rfl

theorem split_encLst (top : Bool) (p tail : List UInt8) (h : p.length < 2 ^ 64) :
    split top (encLen 192 p.length ++ p ++ tail) = .ok (true, p, tail) := by
  rw [List.append_assoc]
  unfold split
  rw [readHead_encLen_lst top p.length (p ++ tail) h (by simp)]
  simp only [List.take_left, List.drop_left]

/-! ### decoder → encoder (canonicity of headers) -/

theorem readSize_canon {top : Bool} {k : Nat} {inp : List UInt8} {n : Nat} {r : List UInt8}
    (h : readSize top k inp = .ok (n, r)) :
    inp = toBE n ++ r ∧ (toBE n).length = k ∧ 56 ≤ n := by
  unfold readSize at h
  split at h
  · cases h
  · rename_i hlen
    split at h
    · cases h
    · rename_i hhead
      split at h
      · cases h
      · rename_i h56
        cases h
        rw [toBE_fromBE _ hhead]
        refine ⟨(List.take_append_drop k inp).symm, ?_, by omega⟩
        rw [List.length_take]; omega

theorem encLen_long {off n : Nat} (h : 56 ≤ n) :
    encLen off n = UInt8.ofNat (off + 55 + (toBE n).length) :: toBE n := by
  unfold encLen; rw [if_neg (by omega)]

theorem encLen_short {off n : Nat} (h : n < 56) : encLen off n = [UInt8.ofNat (off + n)] := by
  unfold encLen; rw [if_pos h]

/-- what an accepted header looks like on the wire: exactly the bytes the encoder writes -/
theorem readHead_canon {top : Bool} {inp : List UInt8} {hd : Head} {rest : List UInt8}
    (h : readHead top inp = .ok (hd, rest)) :
    match hd with
    | .byte b => inp = b :: rest ∧ b.toNat < 128
    | .str n => inp = encLen 128 n ++ rest ∧ n ≤ rest.length
    | .lst n => inp = encLen 192 n ++ rest ∧ n ≤ rest.length := by
  unfold readHead at h
  match inp, h with
  | [], h => cases h
  | b :: tl, h =>
    simp only at h
    split at h
    · rename_i hb
      cases h
      exact ⟨rfl, hb⟩
    · rename_i hb1
      split at h
      · rename_i hb2
        split at h
        · cases h
        · rename_i hl
          cases h
          refine ⟨?_, by omega⟩
          rw [encLen_short (by omega)]
          have : 128 + (b.toNat - 128) = b.toNat := by omega
          rw [this, UInt8.ofNat_toNat]; rfl
      · rename_i hb2
        split at h
        · rename_i hb3
          split at h
          · cases h
          · rename_i n r hs
            split at h
            · cases h
            · rename_i hl
              cases h
              obtain ⟨e1, e2, e3⟩ := readSize_canon hs
              refine ⟨?_, by omega⟩
              rw [encLen_long e3, e2]
              have : 128 + 55 + (b.toNat - 183) = b.toNat := by omega
              rw [this, UInt8.ofNat_toNat, e1]; rfl
        · rename_i hb3
          split at h
          · rename_i hb4
            split at h
            · cases h
            · rename_i hl
              cases h
              refine ⟨?_, by omega⟩
              rw [encLen_short (by omega)]
              have : 192 + (b.toNat - 192) = b.toNat := by omega
              rw [this, UInt8.ofNat_toNat]; rfl
          · rename_i hb4
            split at h
            · cases h
            · rename_i n r hs
              split at h
              · cases h
              · rename_i hl
                cases h
                obtain ⟨e1, e2, e3⟩ := readSize_canon hs
                refine ⟨?_, by omega⟩
                have hb5 := UInt8.toNat_lt b
                rw [encLen_long e3, e2]
                have : 192 + 55 + (b.toNat - 247) = b.toNat := by omega
                rw [this, UInt8.ofNat_toNat, e1]; rfl

/-- an accepted value is, on the wire, exactly its canonical encoding followed by the unread rest -/
theorem split_canon {top : Bool} {inp : List UInt8} {isL : Bool} {p r : List UInt8}
    (h : split top inp = .ok (isL, p, r)) :
    inp = (if isL then encLen 192 p.length ++ p else encodeBytes p) ++ r := by
  unfold split at h
  split at h
  · cases h
  · rename_i b rest hh
    cases h
    have := readHead_canon hh
    simp only at this
    simp [encodeBytes_single_low this.2, this.1]
  · rename_i n rest hh
    split at h
    · cases h
    · rename_i hs
      cases h
      have hc := readHead_canon hh
      simp only at hc
      have hs' : singleLow (List.take n rest) = false := by simpa using hs
      have hl : (List.take n rest).length = n := by rw [List.length_take]; omega
      simp only [Bool.false_eq_true, if_false]
      rw [encodeBytes_of_not_singleLow hs', hl, List.append_assoc, List.take_append_drop]
      exact hc.1
  · rename_i n rest hh
    cases h
    have hc := readHead_canon hh
    simp only at hc
    have hl : (List.take n rest).length = n := by rw [List.length_take]; omega
    simp only [if_true]
    rw [hl, List.append_assoc, List.take_append_drop]
    exact hc.1

end LemoProofs.RlpSplit

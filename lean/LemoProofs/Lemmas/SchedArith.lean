/-
  Helper lemmas for C13: integer slot arithmetic.
-/
import Mathlib.Tactic.Linarith
import Mathlib.Tactic.Ring
namespace LemoProofs.SchedArith

/-- the slot number computed by `GetCorrectMiner` (Euclidean form). -/
def dist (n T pt t : Int) : Int := ((t - pt) % (n * T)) / T + 1

theorem mul_pos' {n T : Int} (hn : 0 < n) (hT : 0 < T) : 0 < n * T := Int.mul_pos hn hT

/-- decomposition lemma: an instant `q` whole rounds, `d-1` whole slots and `r < T` after the parent is slot `d`. -/
theorem dist_of_decomp (n T q d r : Int) (hT : 0 < T) (hd1 : 1 ≤ d) (hdn : d ≤ n)
    (hr0 : 0 ≤ r) (hrT : r < T) :
    ((q * (n * T) + ((d - 1) * T + r)) % (n * T)) / T + 1 = d := by
  have hn : 0 < n := by linarith
  have hL : 0 < n * T := mul_pos' hn hT
  have hx0 : 0 ≤ (d - 1) * T + r := by
    have : 0 ≤ (d - 1) * T := Int.mul_nonneg (by linarith) (le_of_lt hT)
    linarith
  have hxL : (d - 1) * T + r < n * T := by
    have : (d - 1) * T ≤ (n - 1) * T := Int.mul_le_mul_of_nonneg_right (by linarith) (le_of_lt hT)
    have e : (n - 1) * T = n * T - T := by ring
    linarith
  have h1 : (q * (n * T) + ((d - 1) * T + r)) % (n * T) = (d - 1) * T + r := by
    rw [Int.add_comm, Int.add_mul_emod_self_right]
    exact Int.emod_eq_of_lt hx0 hxL
  rw [h1]
  have h2 : ((d - 1) * T + r) / T = d - 1 := by
    rw [Int.add_comm, Int.add_mul_ediv_right _ _ (ne_of_gt hT), Int.ediv_eq_zero_of_lt hr0 hrT]
    ring
  rw [h2]; ring

/-- Euclidean decomposition of the elapsed time. -/
theorem decomp (n T x : Int) (hn : 0 < n) (hT : 0 < T) (hx : 0 ≤ x) :
    ∃ q d r : Int, 0 ≤ q ∧ 1 ≤ d ∧ d ≤ n ∧ 0 ≤ r ∧ r < T ∧ x = q * (n * T) + ((d - 1) * T + r) := by
  have hL : 0 < n * T := mul_pos' hn hT
  refine ⟨x / (n * T), (x % (n * T)) / T + 1, (x % (n * T)) % T, ?_, ?_, ?_, ?_, ?_, ?_⟩
  · exact Int.ediv_nonneg hx (le_of_lt hL)
  · have : 0 ≤ (x % (n * T)) / T := Int.ediv_nonneg (Int.emod_nonneg _ (ne_of_gt hL)) (le_of_lt hT)
    linarith
  · have h1 : x % (n * T) < n * T := Int.emod_lt_of_pos _ hL
    have h2 : (x % (n * T)) / T < n := by
      apply Int.ediv_lt_of_lt_mul hT
      linarith
    linarith
  · exact Int.emod_nonneg _ (ne_of_gt hT)
  · exact Int.emod_lt_of_pos _ hT
  · have e1 := Int.emod_add_mul_ediv x (n * T)
    have e2 := Int.emod_add_mul_ediv (x % (n * T)) T
    have : (x % (n * T) / T + 1 - 1) * T = T * (x % (n * T) / T) := by ring
    rw [this]
    have e3 : x / (n * T) * (n * T) = n * T * (x / (n * T)) := by ring
    rw [e3]
    linarith

theorem dist_range (n T pt t : Int) (hn : 0 < n) (hT : 0 < T) (_ht : pt ≤ t) :
    1 ≤ dist n T pt t ∧ dist n T pt t ≤ n := by
  unfold dist
  have hL : 0 < n * T := mul_pos' hn hT
  have h0 : 0 ≤ (t - pt) % (n * T) := Int.emod_nonneg _ (ne_of_gt hL)
  have h1 : (t - pt) % (n * T) < n * T := Int.emod_lt_of_pos _ hL
  have h2 : 0 ≤ ((t - pt) % (n * T)) / T := Int.ediv_nonneg h0 (le_of_lt hT)
  have h3 : ((t - pt) % (n * T)) / T < n := by
    apply Int.ediv_lt_of_lt_mul hT; linarith
  constructor <;> linarith

end LemoProofs.SchedArith

/-
  Helper lemmas for C03 (finality): shape invariant of the unconfirmed tree, the pruning pass,
  the commit path, fork choice.  Core Lean only.
-/
import LemoModel.Stable
namespace LemoProofs.StableLemmas
open LemoModel LemoModel.Stable

/-- Shape of the unconfirmed tree (newest first) above the stable block `(root, rh)`:
    ids are pairwise different and different from the root's, and the parent of every block is the
    root or an OLDER block of the tree, one level below. -/
def WF (root rh : Nat) : List Blk → Prop
  | [] => True
  | x :: rest => WF root rh rest ∧ x.id ≠ root ∧ (∀ y ∈ rest, y.id ≠ x.id) ∧
      ((x.parent = root ∧ x.height = rh + 1) ∨ ∃ y ∈ rest, y.id = x.parent ∧ x.height = y.height + 1)

/-- `Desc t a x`: block `x` of `t` is a proper descendant of the block with id `a` (parent links
    inside `t`). Independent of the pruning pass `descOf`. -/
inductive Desc (t : List Blk) (a : Nat) : Blk → Prop
  | child {x : Blk} : x ∈ t → x.parent = a → Desc t a x
  | step {x y : Blk} : x ∈ t → Desc t a y → x.parent = y.id → Desc t a x

theorem Desc.mem {t a x} (h : Desc t a x) : x ∈ t := by
  cases h with
  | child hm _ => exact hm
  | step hm _ _ => exact hm

theorem Desc.mono {t t' : List Blk} {a x} (hs : ∀ z ∈ t, z ∈ t') (h : Desc t a x) : Desc t' a x := by
  induction h with
  | child hm hp => exact .child (hs _ hm) hp
  | step hm _ hp ih => exact .step (hs _ hm) ih hp

theorem WF.ids_ne_root {root rh : Nat} : ∀ {t : List Blk}, WF root rh t → ∀ x ∈ t, x.id ≠ root
  | [], _, x, hx => by cases hx
  | y :: rest, h, x, hx => by
    rcases List.mem_cons.1 hx with rfl | hx
    · exact h.2.1
    · exact WF.ids_ne_root h.1 x hx

theorem WF.unique {root rh : Nat} : ∀ {t : List Blk}, WF root rh t → ∀ a ∈ t, ∀ b ∈ t, a.id = b.id → a = b
  | [], _, a, ha, _, _, _ => by cases ha
  | y :: rest, h, a, ha, b, hb, hab => by
    rcases List.mem_cons.1 ha with ha' | ha' <;> rcases List.mem_cons.1 hb with hb' | hb'
    · rw [ha', hb']
    · subst ha'; exact absurd hab.symm (h.2.2.1 b hb')
    · subst hb'; exact absurd hab (h.2.2.1 a ha')
    · exact WF.unique h.1 a ha' b hb' hab

theorem WF.height_gt {root rh : Nat} : ∀ {t : List Blk}, WF root rh t → ∀ x ∈ t, rh < x.height
  | [], _, x, hx => by cases hx
  | y :: rest, h, x, hx => by
    rcases List.mem_cons.1 hx with rfl | hx
    · rcases h.2.2.2 with ⟨_, hh⟩ | ⟨z, hz, _, hh⟩
      · omega
      · have := WF.height_gt h.1 z hz; omega
    · exact WF.height_gt h.1 x hx

/-- every block of a well-formed tree descends from the stable block. -/
theorem WF.desc {root rh : Nat} : ∀ {t : List Blk}, WF root rh t → ∀ x ∈ t, Desc t root x
  | [], _, x, hx => by cases hx
  | y :: rest, h, x, hx => by
    rcases List.mem_cons.1 hx with rfl | hx
    · rcases h.2.2.2 with ⟨hp, _⟩ | ⟨z, hz, hzp, _⟩
      · exact .child (List.mem_cons_self) hp
      · exact .step (List.mem_cons_self)
          ((WF.desc h.1 z hz).mono (fun w hw => List.mem_cons_of_mem _ hw)) hzp.symm
    · exact (WF.desc h.1 x hx).mono (fun w hw => List.mem_cons_of_mem _ hw)

/-- the invariant only looks at (id, parent, height). -/
theorem WF.map {root rh : Nat} (f : Blk → Blk) :
    ∀ {t : List Blk}, (∀ x ∈ t, (f x).id = x.id ∧ (f x).parent = x.parent ∧ (f x).height = x.height) →
      WF root rh t → WF root rh (t.map f)
  | [], _, _ => trivial
  | y :: rest, hf, h => by
    have hy := hf y List.mem_cons_self
    have hrest : ∀ x ∈ rest, (f x).id = x.id ∧ (f x).parent = x.parent ∧ (f x).height = x.height :=
      fun x hx => hf x (List.mem_cons_of_mem _ hx)
    refine ⟨WF.map f hrest h.1, ?_, ?_, ?_⟩
    · rw [hy.1]; exact h.2.1
    · intro z hz
      rcases List.mem_map.1 hz with ⟨w, hw, rfl⟩
      rw [(hrest w hw).1, hy.1]; exact h.2.2.1 w hw
    · rcases h.2.2.2 with ⟨hp, hh⟩ | ⟨z, hz, hzp, hh⟩
      · left; rw [hy.2.1, hy.2.2]; exact ⟨hp, hh⟩
      · right
        refine ⟨f z, List.mem_map.2 ⟨z, hz, rfl⟩, ?_, ?_⟩
        · rw [(hrest z hz).1, hy.2.1]; exact hzp
        · rw [(hrest z hz).2.2, hy.2.2]; exact hh

/-! ### findBlk -/

theorem findBlk_some {l : List Blk} {id : Nat} {b : Blk} (h : findBlk l id = some b) : b ∈ l ∧ b.id = id := by
  unfold findBlk at h
  refine ⟨List.mem_of_find?_eq_some h, ?_⟩
  have := List.find?_some h
  simpa using this

theorem findBlk_none {l : List Blk} {id : Nat} (h : findBlk l id = none) : ∀ b ∈ l, b.id ≠ id := by
  unfold findBlk at h
  intro b hb
  have := List.find?_eq_none.1 h b hb
  simpa using this

theorem getBlock_none {s : St} {id : Nat} (h : (getBlock s id).isSome = false) :
    (∀ b ∈ s.tree, b.id ≠ id) ∧ (∀ b ∈ s.committed, b.id ≠ id) := by
  unfold getBlock at h
  cases ht : findBlk s.tree id with
  | some b => rw [ht] at h; simp at h
  | none =>
    rw [ht] at h
    cases hc : findBlk s.committed id with
    | some b => rw [hc] at h; simp at h
    | none => exact ⟨findBlk_none ht, findBlk_none hc⟩

/-! ### the pruning pass -/

theorem descOf_sub (a : Nat) : ∀ (t : List Blk), ∀ x ∈ descOf a t, x ∈ t
  | [], x, hx => by cases hx
  | y :: rest, x, hx => by
    simp only [descOf] at hx
    split at hx
    · rcases List.mem_cons.1 hx with rfl | hx
      · exact List.mem_cons_self
      · exact List.mem_cons_of_mem _ (descOf_sub a rest x hx)
    · exact List.mem_cons_of_mem _ (descOf_sub a rest x hx)

theorem any_id {k : List Blk} {p : Nat} : (k.any (fun y => y.id == p)) = true ↔ ∃ z ∈ k, z.id = p := by
  simp [List.any_eq_true]

/-- what survives `SetStableBlock(c)` is again a well-formed tree, now above `c`. -/
theorem WF.descOf {root rh cid ch : Nat} (hne : cid ≠ root) :
    ∀ {t : List Blk}, WF root rh t → (∀ y ∈ t, y.id = cid → y.height = ch) →
      WF cid ch ((descOf cid t).filter (fun x => x.id != cid))
  | [], _, _ => trivial
  | x :: rest, h, hc => by
    have ih := WF.descOf hne h.1 (fun y hy => hc y (List.mem_cons_of_mem _ hy))
    simp only [Stable.descOf]
    split
    · rename_i hkeep
      rw [List.filter_cons]
      split
      · rename_i hxid
        have hxid' : x.id ≠ cid := by simpa using hxid
        refine ⟨ih, hxid', ?_, ?_⟩
        · intro y hy
          have hy' := descOf_sub cid rest y (List.mem_filter.1 hy).1
          exact h.2.2.1 y hy'
        · rcases hkeep with hp | hany
          · left
            refine ⟨hp, ?_⟩
            rcases h.2.2.2 with ⟨hpr, _⟩ | ⟨y, hy, hyp, hh⟩
            · exact absurd (hp.symm.trans hpr) hne
            · have := hc y (List.mem_cons_of_mem _ hy) (hyp.trans hp); omega
          · rcases any_id.1 hany with ⟨z, hz, hzp⟩
            have hzr := descOf_sub cid rest z hz
            by_cases hzc : z.id = cid
            · left
              refine ⟨hzp.symm.trans hzc, ?_⟩
              rcases h.2.2.2 with ⟨hpr, _⟩ | ⟨y, hy, hyp, hh⟩
              · exact absurd (hzp.trans hpr) (WF.ids_ne_root h.1 z hzr)
              · have := hc y (List.mem_cons_of_mem _ hy) (hyp.trans (hzp.symm.trans hzc)); omega
            · right
              rcases h.2.2.2 with ⟨hpr, _⟩ | ⟨y, hy, hyp, hh⟩
              · exact absurd (hzp.trans hpr) (WF.ids_ne_root h.1 z hzr)
              · have hzy : z = y := WF.unique h.1 z hzr y hy (hzp.trans hyp.symm)
                refine ⟨z, List.mem_filter.2 ⟨hz, by simpa using hzc⟩, hzp, ?_⟩
                rw [hzy]; exact hh
      · exact ih
    · exact ih

theorem mem_descOf_of_parent {a : Nat} : ∀ {t : List Blk} {x : Blk}, x ∈ t → x.parent = a → x ∈ descOf a t
  | y :: rest, x, hx, hp => by
    simp only [descOf]
    rcases List.mem_cons.1 hx with rfl | hx
    · rw [if_pos (Or.inl hp)]; exact List.mem_cons_self
    · have := mem_descOf_of_parent hx hp
      split
      · exact List.mem_cons_of_mem _ this
      · exact this

theorem mem_descOf_desc {a : Nat} : ∀ {t : List Blk} {x : Blk}, x ∈ descOf a t → Desc t a x
  | y :: rest, x, hx => by
    simp only [descOf] at hx
    have up : ∀ z, Desc rest a z → Desc (y :: rest) a z :=
      fun z hz => hz.mono (fun w hw => List.mem_cons_of_mem _ hw)
    split at hx
    · rename_i hkeep
      rcases List.mem_cons.1 hx with rfl | hx
      · rcases hkeep with hp | hany
        · exact .child List.mem_cons_self hp
        · rcases any_id.1 hany with ⟨z, hz, hzp⟩
          exact .step List.mem_cons_self (up z (mem_descOf_desc hz)) hzp.symm
      · exact up x (mem_descOf_desc hx)
    · exact up x (mem_descOf_desc hx)

/-- in a well-formed tree no older block has a newer block as its parent. -/
theorem WF.parent_ne_newer {root rh : Nat} {y : Blk} {rest : List Blk} (h : WF root rh (y :: rest)) :
    ∀ x ∈ rest, x.parent ≠ y.id := by
  intro x hx hp
  have hd := WF.desc h.1 x hx
  cases hd with
  | child _ hpr => exact h.2.1 (hp.symm.trans hpr)
  | step _ hz hpz => exact h.2.2.1 _ hz.mem (hpz.symm.trans hp)

theorem desc_step_mem_descOf {root rh a : Nat} : ∀ {t : List Blk}, WF root rh t →
    ∀ {x y : Blk}, x ∈ t → y ∈ descOf a t → x.parent = y.id → x ∈ descOf a t
  | x0 :: rest, h, x, y, hx, hy, hp => by
    simp only [descOf] at hy ⊢
    rcases List.mem_cons.1 hx with rfl | _
    · -- x is the newest block: its parent y must be among the survivors of `rest`
      have hyk : y ∈ descOf a rest := by
        split at hy
        · rcases List.mem_cons.1 hy with rfl | hy
          · -- y = x: a block is not its own parent
            exfalso
            rcases h.2.2.2 with ⟨hpr, _⟩ | ⟨z, hz, hzp, _⟩
            · exact h.2.1 (hp.symm.trans hpr)
            · exact h.2.2.1 z hz (hzp.trans hp)
          · exact hy
        · exact hy
      rw [if_pos (Or.inr (any_id.2 ⟨y, hyk, hp.symm⟩))]
      exact List.mem_cons_self
    · rename_i hxr
      have hyk : y ∈ descOf a rest := by
        split at hy
        · rcases List.mem_cons.1 hy with hy' | hy'
          · subst hy'; exact absurd hp (WF.parent_ne_newer h x hxr)
          · exact hy'
        · exact hy
      have := desc_step_mem_descOf h.1 hxr hyk hp
      split
      · exact List.mem_cons_of_mem _ this
      · exact this

theorem desc_mem_descOf {root rh a : Nat} {t : List Blk} (h : WF root rh t) {x : Blk}
    (hd : Desc t a x) : x ∈ descOf a t := by
  induction hd with
  | child hm hp => exact mem_descOf_of_parent hm hp
  | step hm _ hp ih => exact desc_step_mem_descOf h hm ih hp

/-! ### the commit path -/

theorem pathUp_nil : ∀ {t : List Blk} {w : Nat}, (∀ z ∈ t, z.id ≠ w) → pathUp t w = []
  | [], _, _ => rfl
  | x :: rest, w, h => by
    simp only [pathUp]
    rw [if_neg (h x List.mem_cons_self)]
    exact pathUp_nil (fun z hz => h z (List.mem_cons_of_mem _ hz))

theorem pathUp_head {root rh : Nat} : ∀ {t : List Blk}, WF root rh t → ∀ y ∈ t, ∃ p, pathUp t y.id = y :: p
  | x :: rest, h, y, hy => by
    simp only [pathUp]
    by_cases hxy : x.id = y.id
    · rw [if_pos hxy]
      rcases List.mem_cons.1 hy with rfl | hy
      · exact ⟨_, rfl⟩
      · exact absurd hxy.symm (h.2.2.1 y hy)
    · rw [if_neg hxy]
      rcases List.mem_cons.1 hy with rfl | hy
      · exact absurd rfl hxy
      · exact pathUp_head h.1 y hy

/-- a chain of blocks, each the child of the next, ending in a child of the stable block. -/
def ToRoot (root rh : Nat) : List Blk → Prop
  | [] => False
  | [x] => x.parent = root ∧ x.height = rh + 1
  | x :: y :: rest => x.parent = y.id ∧ x.height = y.height + 1 ∧ ToRoot root rh (y :: rest)

theorem pathUp_toRoot {root rh : Nat} : ∀ {t : List Blk}, WF root rh t → ∀ y ∈ t, ToRoot root rh (pathUp t y.id)
  | x :: rest, h, y, hy => by
    simp only [pathUp]
    by_cases hxy : x.id = y.id
    · rw [if_pos hxy]
      rcases h.2.2.2 with ⟨hpr, hh⟩ | ⟨z, hz, hzp, hh⟩
      · rw [hpr, pathUp_nil (fun w hw => WF.ids_ne_root h.1 w hw)]
        exact ⟨hpr, hh⟩
      · rcases pathUp_head h.1 z hz with ⟨p, hp⟩
        have ih := pathUp_toRoot h.1 z hz
        rw [← hzp, hp]
        rw [hp] at ih
        exact ⟨hzp.symm, hh, ih⟩
    · rw [if_neg hxy]
      rcases List.mem_cons.1 hy with rfl | hy
      · exact absurd rfl hxy
      · exact pathUp_toRoot h.1 y hy

/-- the committed blocks, newest first: each is the child of the next one. -/
def Linked : List Blk → Prop
  | [] => True
  | [_] => True
  | x :: y :: rest => x.parent = y.id ∧ x.height = y.height + 1 ∧ Linked (y :: rest)

theorem Linked.append_toRoot {root rh : Nat} {c0 : Blk} {crest : List Blk}
    (hc : Linked (c0 :: crest)) (hid : c0.id = root) (hh : c0.height = rh) :
    ∀ {p : List Blk}, ToRoot root rh p → Linked (p ++ c0 :: crest)
  | [x], h => by
    simp only [ToRoot] at h
    exact ⟨h.1.trans hid.symm, by rw [h.2, hh], hc⟩
  | x :: y :: rest, h => by
    simp only [ToRoot] at h
    exact ⟨h.1, h.2.1, Linked.append_toRoot hc hid hh h.2.2⟩

theorem Linked.map (f : Blk → Blk) : ∀ {l : List Blk},
    (∀ x ∈ l, (f x).id = x.id ∧ (f x).parent = x.parent ∧ (f x).height = x.height) → Linked l → Linked (l.map f)
  | [], _, _ => trivial
  | [_], _, _ => trivial
  | x :: y :: rest, hf, h => by
    have hx := hf x List.mem_cons_self
    have hy := hf y (List.mem_cons_of_mem _ List.mem_cons_self)
    refine ⟨?_, ?_, Linked.map f (fun z hz => hf z (List.mem_cons_of_mem _ hz)) h.2.2⟩
    · rw [hx.2.1, hy.1]; exact h.1
    · rw [hx.2.2, hy.2.2]; exact h.2.1

/-! ### fork choice -/

theorem chooseNewFork_mem (st : Blk) : ∀ (t : List Blk), chooseNewFork st t = st ∨ chooseNewFork st t ∈ t
  | [] => Or.inl rfl
  | x :: rest => by
    unfold chooseNewFork
    simp only [List.foldr_cons]
    split
    · exact Or.inr List.mem_cons_self
    · rcases chooseNewFork_mem st rest with h | h
      · exact Or.inl h
      · exact Or.inr (List.mem_cons_of_mem _ h)

/-! ### appendConfirm only touches the confirm list -/

theorem appendConfirm_shape : ∀ (valid : List Sig) (b : Blk),
    (appendConfirm b valid).id = b.id ∧ (appendConfirm b valid).parent = b.parent ∧
    (appendConfirm b valid).height = b.height ∧ (appendConfirm b valid).miner = b.miner ∧
    (appendConfirm b valid).hdr = b.hdr
  | [], b => ⟨rfl, rfl, rfl, rfl, rfl⟩
  | s :: rest, b => by
    simp only [appendConfirm]
    split
    · exact appendConfirm_shape rest b
    · exact appendConfirm_shape rest _

end LemoProofs.StableLemmas

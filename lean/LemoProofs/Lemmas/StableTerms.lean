/-
  Helper lemmas for C03, part 2: term snapshots (`saveSnapshots` along a commit path / along the
  committed chain), fork choice heights.  Core Lean only.
-/
import LemoModel.Stable
import LemoProofs.Lemmas.Stable
namespace LemoProofs.StableLemmas
open LemoModel LemoModel.Stable

/-! ### arithmetic of snapshot heights -/

theorem succ_div_of_not_dvd {T h : Nat} (hT : 0 < T) (hm : (h + 1) % T ≠ 0) : (h + 1) / T = h / T := by
  have e : T * (h / T) + h % T = h := Nat.div_add_mod h T
  have hr : h % T < T := Nat.mod_lt h hT
  have e1 : h + 1 = T * (h / T) + (h % T + 1) := by omega
  by_cases hlt : h % T + 1 < T
  · rw [e1, Nat.mul_add_div hT, Nat.div_eq_of_lt hlt, Nat.add_zero]
  · have heq : h % T + 1 = T := by omega
    exfalso; apply hm
    rw [e1, Nat.mul_add_mod, heq, Nat.mod_self]

theorem succ_div_of_dvd {T h : Nat} (hT : 0 < T) (hm : (h + 1) % T = 0) : (h + 1) / T = h / T + 1 := by
  have e : T * (h / T) + h % T = h := Nat.div_add_mod h T
  have hr : h % T < T := Nat.mod_lt h hT
  have e1 : h + 1 = T * (h / T) + (h % T + 1) := by omega
  by_cases hlt : h % T + 1 < T
  · exfalso
    rw [e1, Nat.mul_add_mod, Nat.mod_eq_of_lt hlt] at hm
    omega
  · have heq : h % T + 1 = T := by omega
    rw [e1, Nat.mul_add_div hT, heq, Nat.div_self hT]

/-! ### one snapshot step -/

/-- saving the (possible) snapshot of the block one above height `h`, when the term list has exactly
    the terms up to height `h`: either a panic (bad deputy list) or the list grows at its end and has
    exactly the terms up to the new height. -/
theorem snap_step {T h : Nat} (hT : 0 < T) {terms : List (List Nat)} {x : Blk}
    (hx : x.height = h + 1) (hl : terms.length = h / T + 1) {t : List (List Nat)}
    (e : (if LemoGen.Schedule.IsSnapshotBlock x.height T then saveSnapshot T terms x else some terms) = some t) :
    (∃ ext, t = terms ++ ext) ∧ t.length = x.height / T + 1 := by
  unfold LemoGen.Schedule.IsSnapshotBlock at e
  by_cases hs : x.height % T = 0
  · have hs' : ((x.height % T) == (0 : Nat)) = true := by simp [hs]
    rw [if_pos hs'] at e
    unfold saveSnapshot at e
    split at e
    · cases e
    · have hidx : LemoGen.Schedule.GetDeputyTermIndexByHeight x.height T = h / T + 1 := by
        unfold LemoGen.Schedule.GetDeputyTermIndexByHeight
        rw [hx]; exact succ_div_of_dvd hT (hx ▸ hs)
      simp only [hidx] at e
      have hne : terms.isEmpty = false := by
        cases terms with
        | nil => simp at hl
        | cons _ _ => rfl
      rw [hne] at e
      simp only [Bool.false_eq_true, if_false] at e
      rw [if_neg (by omega), if_pos hl] at e
      cases e
      refine ⟨⟨_, rfl⟩, ?_⟩
      rw [List.length_append, hl, hx, succ_div_of_dvd hT (hx ▸ hs)]
      rfl
  · have hs' : ¬ (((x.height % T) == (0 : Nat)) = true) := by simp [hs]
    rw [if_neg hs'] at e
    cases e
    refine ⟨⟨[], by simp⟩, ?_⟩
    rw [hl, hx, succ_div_of_not_dvd hT (hx ▸ hs)]

/-- along a commit path above the stable block `(root, rh)`. -/
theorem saveSnapshots_path {T root rh : Nat} (hT : 0 < T) {terms : List (List Nat)} (hl : terms.length = rh / T + 1) :
    ∀ {p : List Blk}, ToRoot root rh p → ∀ {t}, saveSnapshots T terms p = some t →
      (∃ ext, t = terms ++ ext) ∧ ∃ x rest, p = x :: rest ∧ t.length = x.height / T + 1
  | [x], h, t, e => by
    simp only [ToRoot] at h
    simp only [saveSnapshots] at e
    obtain ⟨h1, h2⟩ := snap_step hT h.2 hl e
    exact ⟨h1, x, [], rfl, h2⟩
  | x :: y :: rest, h, t, e => by
    simp only [ToRoot] at h
    rw [saveSnapshots] at e
    split at e
    · cases e
    · rename_i t' ht'
      obtain ⟨⟨ext1, e1⟩, x', r', hp, hl'⟩ := saveSnapshots_path hT hl h.2.2 ht'
      cases hp
      obtain ⟨⟨ext2, e2⟩, h2⟩ := snap_step hT h.2.1 hl' e
      exact ⟨⟨ext1 ++ ext2, by rw [e2, e1, List.append_assoc]⟩, x, _, rfl, h2⟩

/-- along the whole committed chain (a restart): the bottom block is genesis (height 0). -/
theorem saveSnapshots_chain {T : Nat} (hT : 0 < T) :
    ∀ {l : List Blk}, Linked l → (∃ g, l.getLast? = some g ∧ g.height = 0) → ∀ {t}, saveSnapshots T [] l = some t →
      ∃ x rest, l = x :: rest ∧ t.length = x.height / T + 1
  | [], _, hb, _, _ => by obtain ⟨g, hg, _⟩ := hb; simp at hg
  | [g], _, hb, t, e => by
    obtain ⟨g', hg, hh⟩ := hb
    simp at hg; subst hg
    refine ⟨g, [], rfl, ?_⟩
    simp only [saveSnapshots] at e
    unfold LemoGen.Schedule.IsSnapshotBlock at e
    have hs' : ((g.height % T) == (0 : Nat)) = true := by simp [hh]
    rw [if_pos hs'] at e
    unfold saveSnapshot at e
    split at e
    · cases e
    · simp at e
      subst e
      simp [hh]
  | x :: y :: rest, hlk, hb, t, e => by
    simp only [Linked] at hlk
    rw [saveSnapshots] at e
    split at e
    · cases e
    · rename_i t' ht'
      have hb' : ∃ g, (y :: rest).getLast? = some g ∧ g.height = 0 := by
        obtain ⟨g, hg, hh⟩ := hb
        exact ⟨g, by rw [List.getLast?_cons_cons] at hg; exact hg, hh⟩
      obtain ⟨x', r', hp, hl'⟩ := saveSnapshots_chain hT hlk.2.2 hb' ht'
      cases hp
      obtain ⟨_, h2⟩ := snap_step hT hlk.2.1 hl' e
      exact ⟨x, _, rfl, h2⟩

/-! ### the commit path and heights -/

theorem ToRoot.heights {root rh : Nat} : ∀ {p : List Blk}, ToRoot root rh p → ∀ x ∈ p, rh < x.height
  | [x], h, y, hy => by
    simp only [ToRoot] at h
    rw [List.mem_singleton] at hy; subst hy; omega
  | x :: y :: rest, h, z, hz => by
    simp only [ToRoot] at h
    have ih := ToRoot.heights h.2.2
    rcases List.mem_cons.1 hz with rfl | hz
    · have := ih y List.mem_cons_self; omega
    · exact ih z hz

/-! ### fork choice picks a highest block -/

theorem chooseNewFork_height (st : Blk) : ∀ (t : List Blk),
    st.height ≤ (chooseNewFork st t).height ∧ ∀ x ∈ t, x.height ≤ (chooseNewFork st t).height
  | [] => ⟨Nat.le_refl _, fun _ h => by cases h⟩
  | y :: rest => by
    obtain ⟨ih1, ih2⟩ := chooseNewFork_height st rest
    have e : chooseNewFork st (y :: rest) =
        if better (chooseNewFork st rest) y then y else chooseNewFork st rest := rfl
    rw [e]
    generalize chooseNewFork st rest = m at ih1 ih2 ⊢
    split
    · rename_i hb
      unfold better at hb
      simp only [Bool.or_eq_true, Bool.and_eq_true, decide_eq_true_eq] at hb
      have hge : m.height ≤ y.height := by
        rcases hb with h | ⟨h, _⟩ <;> omega
      refine ⟨Nat.le_trans ih1 hge, ?_⟩
      intro x hx
      rcases List.mem_cons.1 hx with rfl | hx
      · exact Nat.le_refl _
      · exact Nat.le_trans (ih2 x hx) hge
    · rename_i hb
      unfold better at hb
      simp only [Bool.or_eq_true, Bool.and_eq_true, decide_eq_true_eq, not_or, not_and] at hb
      refine ⟨ih1, ?_⟩
      intro x hx
      rcases List.mem_cons.1 hx with rfl | hx
      · omega
      · exact ih2 x hx

/-! ### appendConfirm only touches the confirm list -/

theorem appendConfirm_rest : ∀ (valid : List Sig) (b : Blk),
    (appendConfirm b valid).rank = b.rank ∧ (appendConfirm b valid).nextDeps = b.nextDeps ∧
    (appendConfirm b valid).snapBad = b.snapBad
  | [], _ => ⟨rfl, rfl, rfl⟩
  | s :: rest, b => by
    simp only [appendConfirm]
    split
    · exact appendConfirm_rest rest b
    · exact appendConfirm_rest rest _

end LemoProofs.StableLemmas

/-
  Helper lemmas for C17 part E (chain/account.StorageCache, model `LemoModel.StorageCache`):
  the Go maps as association lists, the hypotheses on the parameters (`EnvOk`), the abstraction of a
  cache state to a resolved trie of part B (`Ready`), and the loop of `Update` (`applyDirty_spec`).
-/
import LemoModel.StorageCache
import LemoProofs.Lemmas.Mpt
import LemoProofs.Lemmas.MptStore
import LemoProofs.Lemmas.MptDb
import LemoProofs.C17Store
namespace LemoProofs.StorageCacheLemmas
open LemoModel LemoModel.Mpt LemoModel.MptStore LemoModel.StorageCache
open LemoProofs.MptLemmas LemoProofs.MptStoreLemmas LemoProofs.MptDbLemmas LemoProofs.C17

/-! ### Go maps as association lists -/

theorem sdel_cons_eq (a : Key) (v : Bytes) (m : Storage) : sdel ((a, v) :: m) a = sdel m a := by
  simp [sdel]

theorem sdel_cons_ne {a k : Key} (v : Bytes) (m : Storage) (h : a ≠ k) :
    sdel ((a, v) :: m) k = (a, v) :: sdel m k := by
  simp [sdel, h]

theorem sget_sdel (m : Storage) (k k' : Key) :
    sget (sdel m k) k' = if k' = k then none else sget m k' := by
  induction m with
  | nil => simp [sdel, sget]
  | cons e m ih =>
    obtain ⟨a, v⟩ := e
    by_cases ha : a = k
    · subst ha
      rw [sdel_cons_eq, ih]
      by_cases hk : k' = a
      · simp [hk]
      · have : ¬ a = k' := fun e => hk e.symm
        simp [hk, sget, this]
    · rw [sdel_cons_ne v m ha]
      simp only [sget]
      by_cases hak : a = k'
      · subst hak; simp [ha]
      · simp only [hak, if_false]; exact ih

theorem sget_sset (m : Storage) (k k' : Key) (v : Bytes) :
    sget (sset m k v) k' = if k' = k then some v else sget m k' := by
  unfold sset
  simp only [sget]
  by_cases hk : k = k'
  · subst hk; simp
  · have : ¬ k' = k := fun e => hk e.symm
    simp only [hk, this, if_false]
    rw [sget_sdel]; simp [this]

theorem sdel_of_none (m : Storage) (k : Key) (h : sget m k = none) : sdel m k = m := by
  induction m with
  | nil => rfl
  | cons e m ih =>
    obtain ⟨a, v⟩ := e
    simp only [sget] at h
    by_cases ha : a = k
    · simp [ha] at h
    · simp only [ha, if_false] at h
      rw [sdel_cons_ne v m ha, ih h]

theorem eq_nil_of_sget_none (m : Storage) (h : ∀ k, sget m k = none) : m = [] := by
  cases m with
  | nil => rfl
  | cons e m =>
    obtain ⟨a, v⟩ := e
    have := h a
    simp [sget] at this

theorem sget_foldl_sdel (o : List Key) : ∀ (d : Storage) (k : Key),
    sget (o.foldl sdel d) k = if k ∈ o then none else sget d k := by
  induction o with
  | nil => intro d k; simp
  | cons a o ih =>
    intro d k
    simp only [List.foldl_cons, ih, sget_sdel, List.mem_cons]
    by_cases h1 : k ∈ o
    · simp [h1]
    · by_cases h2 : k = a <;> simp [h1, h2]

/-- all dirty keys visited: nothing is left -/
theorem foldl_sdel_nil (o : List Key) (d : Storage) (hcov : ∀ k v, sget d k = some v → k ∈ o) :
    o.foldl sdel d = [] := by
  apply eq_nil_of_sget_none
  intro k
  rw [sget_foldl_sdel]
  by_cases h : k ∈ o
  · simp [h]
  · simp only [h, if_false]
    cases hg : sget d k with
    | none => rfl
    | some v => exact absurd (hcov k v hg) h

/-! ### `bytes.TrimLeft(value, "\x00")` -/

theorem trimLeft_nil : trimLeft [] = [] := rfl

theorem trimLeft_idem (v : Bytes) : trimLeft (trimLeft v) = trimLeft v := by
  induction v with
  | nil => rfl
  | cons x v ih =>
    cases x with
    | zero => simpa [trimLeft] using ih
    | succ y => simp [trimLeft]

theorem trimLeft_head (v : Bytes) : trimLeft v = [] ∨ ∃ x r, trimLeft v = x :: r ∧ x ≠ 0 := by
  induction v with
  | nil => exact Or.inl rfl
  | cons x v ih =>
    cases x with
    | zero => simpa [trimLeft] using ih
    | succ y => exact Or.inr ⟨y + 1, v, by simp [trimLeft], by simp⟩

theorem trimLeft_of_head_ne {x : Nat} {r : Bytes} (h : x ≠ 0) : trimLeft (x :: r) = x :: r := by
  cases x with
  | zero => exact absurd rfl h
  | succ y => simp [trimLeft]

/-- a value made of zero bytes only (also the empty one) is trimmed to nothing -/
theorem trimLeft_zeros (v : Bytes) (h : ∀ x, x ∈ v → x = 0) : trimLeft v = [] := by
  induction v with
  | nil => rfl
  | cons x v ih =>
    have hx := h x List.mem_cons_self
    subst hx
    simpa [trimLeft] using ih (fun y hy => h y (List.mem_cons_of_mem _ hy))

/-! ### what the trie holds for a storage key -/

/-- a value as `TryUpdate` stores it: empty = absent -/
def valRes (v : Bytes) : GetRes := if v = [] then .absent else .found v

/-- the bytes `TryGet` returns for the storage key `k` on the resolved trie `n` (nil = empty) -/
def valOf (env : Env) (n : Node) (k : Key) : Bytes := (getOpt (Mpt.get n (secKey env k))).getD []

theorem getD_getOpt_valRes (v : Bytes) : (getOpt (valRes v)).getD [] = v := by
  unfold valRes
  by_cases h : v = []
  · simp [h, getOpt]
  · simp [h, getOpt]

/-! ### the parameters -/

/-- What is assumed of the parameters, for the storage keys `U` in use:
    `hash`/`nz`   as in part C (`HashOk`: collision-free on normal nodes; no node hashes to `common.Hash{}`);
    `emb`         an embedded reference blob contains no hash reference (true of the real test
                  `len(rlp) < 32`: `rlp_small_embeds_no_hash`); only used for reading through a FRESH cache;
    `inj`/`byte`  Keccak256 is collision-free ON THE KEYS IN USE and returns bytes;
    `fuel`        the stack is deep enough for the hashed keys (65 nibbles in Go: 132 frames). -/
structure EnvOk (env : Env) (U : Key → Prop) : Prop where
  hash : HashOk env.hashOf
  nz : ∀ c, env.hashOf c ≠ zeroHash
  emb : ∀ m : Node, env.small (refKids (baseH env.small env.hashOf) m) = true →
    noHashC (refKids (baseH env.small env.hashOf) m)
  inj : ∀ a b, U a → U b → env.hk a = env.hk b → a = b
  byte : ∀ a, U a → ∀ x, x ∈ env.hk a → x < 256
  fuel : ∀ a, U a → 2 * (secKey env a).length + 2 ≤ env.fuel

theorem secKey_term (env : Env) (k : Key) : TermKey (secKey env k) := hexKey_term _

theorem secKey_inj {env : Env} {U : Key → Prop} (hE : EnvOk env U) {a b : Key} (ha : U a) (hb : U b)
    (h : secKey env a = secKey env b) : a = b :=
  hE.inj a b ha hb (hexKey_inj _ _ (hE.byte a ha) (hE.byte b hb) h)

/-! ### single trie steps on the resolved trie -/

theorem mpt_update_get (n : Node) (k : List Nib) (v : Val) (hC : Canon n) (hk : TermKey k) :
    ∃ n', Mpt.update n k v = some n' ∧ Canon n' ∧
      ∀ k', TermKey k' → Mpt.get n' k' = if k' = k then valRes v else Mpt.get n k' := by
  cases v with
  | nil =>
    obtain ⟨d, n', hd, hCn, _, _, hget⟩ := delete_spec n k hC hk
    exact ⟨n', by simp [Mpt.update, hd], hCn, fun k' hk' => by rw [hget k' hk']; simp [valRes]⟩
  | cons y ys =>
    obtain ⟨d, n', hd, hCn, _, _, _, hget⟩ := insert_spec n k (y :: ys) hC hk (by simp)
    exact ⟨n', by simp [Mpt.update, hd], hCn, fun k' hk' => by rw [hget k' hk']; simp [valRes]⟩

/-! ### the abstraction of a cache state -/

/-- the cache over `disk` stands for the resolved trie `n`: its pool and the key-value store form a
    sound node database, a loaded trie handle abstracts to `n` (`Abs` of part C), and while no trie is
    loaded `trie.New(root)` over the cache's database succeeds with a trie that abstracts to `n`
    (`ready_zero`: the zero hash and the empty trie; `ready_of_stored`: any root whose trie the database
    is closed for; `ready_fresh_after_flush`: a fresh cache after `TrieDatabase.Commit`). -/
structure Ready (env : Env) (disk : Disk) (sc : SC) (root : Hash) (n : Node) : Prop where
  dbok : DbOk env.hashOf ⟨sc.mem, disk⟩
  sound : Sound env.hashOf (sc.store disk)
  canon : Canon n
  loaded : ∀ t, sc.trie = some t → Abs env.small env.hashOf (sc.store disk) t.root n
  unloaded : sc.trie = none → ∃ t', Trie.new env.hashOf (sc.store disk) root = .ok t' ∧
    Abs env.small env.hashOf (sc.store disk) t'.root n

theorem refRoot_ne_zero {env : Env} (hnz : ∀ c, env.hashOf c ≠ zeroHash) (n : Node) (hC : Canon n) :
    refRoot (baseH env.small env.hashOf) n ≠ zeroHash := by
  rcases canon_branch_or_empty hC with hn | hb
  · subst hn; exact hnz _
  · obtain ⟨h, hh⟩ := refC_force_hash (baseH env.small env.hashOf) n hb
    have hk := (refC_hash_inv (hs := baseH env.small env.hashOf) hb hh).2
    have : refRoot (baseH env.small env.hashOf) n = h := by simp [refRoot, hh]
    rw [this, hk]; exact hnz _

/-- the empty trie's root is `emptyRoot = hashOf .empty` -/
theorem refRoot_empty (env : Env) : refRoot (baseH env.small env.hashOf) .empty = env.hashOf .empty := rfl

theorem trie_new_zero (hashOf : CNode → Hash) (s : Store) : Trie.new hashOf s zeroHash = .ok {} := by
  simp [Trie.new]

/-- `GetTrie` on a state of the abstraction: it returns a trie handle that abstracts to `n`; only the
    handle changes -/
theorem getTrie_ready {env : Env} {U : Key → Prop} (_hE : EnvOk env U) {disk : Disk} {sc : SC} {root : Hash}
    {n : Node} (hR : Ready env disk sc root n) :
    ∃ t, getTrie env disk sc root = ({ sc with trie := some t }, .ok t) ∧
      Abs env.small env.hashOf (sc.store disk) t.root n := by
  cases ht : sc.trie with
  | some t =>
    refine ⟨t, ?_, hR.loaded t ht⟩
    have : ({ sc with trie := some t } : SC) = sc := by cases sc; simp_all
    rw [this]; simp [getTrie, ht]
  | none =>
    obtain ⟨t', h1, h2⟩ := hR.unloaded ht
    refine ⟨{ t' with cachelimit := maxTrieCacheGen }, ?_, h2⟩
    simp [getTrie, ht, h1]

/-- a cache without trie handle on the zero root stands for the empty storage -/
theorem ready_zero {env : Env} {disk : Disk} {sc : SC} (hdb : DbOk env.hashOf ⟨sc.mem, disk⟩)
    (hS : Sound env.hashOf (sc.store disk)) (ht : sc.trie = none) : Ready env disk sc zeroHash .empty :=
  ⟨hdb, hS, .empty, fun t h => (by rw [ht] at h; cases h),
    fun _ => ⟨{}, trie_new_zero _ _, .empty true⟩⟩

/-- a cache without trie handle on a root whose trie the database is closed for -/
theorem ready_of_stored {env : Env} {U : Key → Prop} (hE : EnvOk env U) {disk : Disk} {sc : SC} {n : Node}
    (hdb : DbOk env.hashOf ⟨sc.mem, disk⟩) (hS : Sound env.hashOf (sc.store disk)) (ht : sc.trie = none)
    (hC : Canon n) (hSt : Stored (baseH env.small env.hashOf) (sc.store disk) true n)
    (hCl : Closed (baseH env.small env.hashOf) (sc.store disk) n) :
    Ready env disk sc (refRoot (baseH env.small env.hashOf) n) n :=
  ⟨hdb, hS, hC, fun t h => (by rw [ht] at h; cases h),
    fun _ => (by
      obtain ⟨t', h1, h2, _⟩ := open_inv env.small env.hashOf hE.hash hE.nz hC hSt hCl
      exact ⟨t', h1, h2⟩)⟩

theorem dbOk_fresh {hashOf : CNode → Hash} {db : Db} (h : DbOk hashOf db) : DbOk hashOf db.fresh :=
  ⟨fun x m hm => (by cases hm), fun x m hm => (by cases hm), h.disk, h.dsound⟩

/-- after `TrieDatabase.Commit(root(n))` a FRESH cache (new `TrieDatabase`, empty pool) over the new
    key-value store stands for `n` at that root -/
theorem ready_fresh_after_flush {env : Env} {U : Key → Prop} (hE : EnvOk env U) {db db' : Db} {n : Node}
    (hOk : DbOk env.hashOf db) (hS : Sound env.hashOf db.node) (hC : Canon n)
    (hSt : Stored (baseH env.small env.hashOf) db.node true n)
    (hCl : Closed (baseH env.small env.hashOf) db.node n)
    (h : db.commit (refRoot (baseH env.small env.hashOf) n) = .ok db') :
    Ready env db'.disk SC.new (refRoot (baseH env.small env.hashOf) n) n := by
  obtain ⟨hOk', _, _⟩ := commit_ok hOk hS h
  refine ⟨dbOk_fresh hOk', ?_, hC, fun t ht => (by cases ht), fun _ => ?_⟩
  · intro x c hx
    exact hOk'.dsound x c hx
  · exact flush_reopen_fresh env.small env.hashOf hE.hash hE.nz hE.emb db db' hOk hS n hC hSt hCl h

/-! ### the loop of `Update` -/

theorem applyOne_spec {env : Env} {U : Key → Prop} (hE : EnvOk env U) {s : Store} {t : Trie} {n : Node}
    (hA : Abs env.small env.hashOf s t.root n) (hC : Canon n) {k : Key} (hk : U k) (v : Bytes) :
    ∃ t' n', applyOne env s t k v = .ok t' ∧ Abs env.small env.hashOf s t'.root n' ∧ Canon n' ∧
      ∀ k', TermKey k' → Mpt.get n' k' = if k' = secKey env k then valRes (trimLeft v) else Mpt.get n k' := by
  obtain ⟨m, hm, hCm, hget⟩ := mpt_update_get n (secKey env k) (trimLeft v) hC (secKey_term env k)
  by_cases hv : v = []
  · subst hv
    obtain ⟨t', n', h1, h2, h3, h4⟩ := remove_step env.small env.hashOf env.fuel hA hC (secKey_term env k)
      (hE.fuel k hk)
    have : n' = m := by
      have e : Mpt.update n (secKey env k) (trimLeft []) = Mpt.remove n (secKey env k) := rfl
      rw [e, h2] at hm
      exact Option.some.inj hm
    subst this
    exact ⟨t', n', by simp [applyOne, h1], h4, h3, hget⟩
  · obtain ⟨t', n', h1, h2, h3, h4⟩ := update_step env.small env.hashOf env.fuel (trimLeft v) hA hC
      (secKey_term env k) (hE.fuel k hk)
    have : n' = m := by
      rw [h2] at hm
      exact Option.some.inj hm
    subst this
    exact ⟨t', n', by simp [applyOne, hv, h1], h4, h3, hget⟩

/-- **the loop of `Update`, for ANY iteration order**: over a sound store it never fails, it leaves the
    dirty entries whose key was not visited, and the trie it builds holds, for every visited dirty key,
    the trimmed value (absent if that is empty), and what it held before under every other hex key. -/
theorem applyDirty_spec {env : Env} {U : Key → Prop} (hE : EnvOk env U) (s : Store) :
    ∀ (order : List Key) (t : Trie) (n : Node) (d : Storage),
      Abs env.small env.hashOf s t.root n → Canon n → (∀ k v, sget d k = some v → U k) →
      ∃ t' n', applyDirty env s order t d = (t', order.foldl sdel d, none) ∧
        Abs env.small env.hashOf s t'.root n' ∧ Canon n' ∧
        (∀ k v, k ∈ order → sget d k = some v → Mpt.get n' (secKey env k) = valRes (trimLeft v)) ∧
        (∀ k', TermKey k' → (∀ k, k ∈ order → (sget d k).isSome → secKey env k ≠ k') →
          Mpt.get n' k' = Mpt.get n k') := by
  intro order
  induction order with
  | nil =>
    intro t n d hA hC _
    exact ⟨t, n, rfl, hA, hC, fun k v hk => (by cases hk), fun k' _ _ => rfl⟩
  | cons k ks ih =>
    intro t n d hA hC hU
    cases hg : sget d k with
    | none =>
      obtain ⟨t', n', h1, h2, h3, h4, h5⟩ := ih t n d hA hC hU
      refine ⟨t', n', ?_, h2, h3, ?_, ?_⟩
      · simp only [applyDirty, hg, List.foldl_cons, sdel_of_none d k hg]; exact h1
      · intro k0 v0 hk0 hv0
        rcases List.mem_cons.mp hk0 with e | e
        · subst e; rw [hg] at hv0; cases hv0
        · exact h4 k0 v0 e hv0
      · intro k' hk' hne
        exact h5 k' hk' (fun k0 hk0 hs => hne k0 (List.mem_cons_of_mem _ hk0) hs)
    | some v =>
      have hUk := hU k v hg
      obtain ⟨t1, n1, a1, a2, a3, a4⟩ := applyOne_spec hE hA hC hUk v
      have hU' : ∀ k0 v0, sget (sdel d k) k0 = some v0 → U k0 := by
        intro k0 v0 h0
        rw [sget_sdel] at h0
        by_cases e : k0 = k
        · simp [e] at h0
        · simp only [e, if_false] at h0; exact hU k0 v0 h0
      obtain ⟨t', n', h1, h2, h3, h4, h5⟩ := ih t1 n1 (sdel d k) a2 a3 hU'
      refine ⟨t', n', ?_, h2, h3, ?_, ?_⟩
      · simp only [applyDirty, hg, a1, List.foldl_cons]; exact h1
      · intro k0 v0 hk0 hv0
        by_cases e : k0 = k
        · subst e
          rw [hg] at hv0
          have ev : v = v0 := Option.some.inj hv0
          subst ev
          have := h5 (secKey env k0) (secKey_term env k0) (by
            intro k2 hk2 hs
            have hne : k2 ≠ k0 := by
              intro e2; subst e2
              rw [sget_sdel] at hs; simp at hs
            rw [sget_sdel] at hs
            simp only [hne, if_false] at hs
            obtain ⟨v2, hv2⟩ := Option.isSome_iff_exists.mp hs
            exact fun e3 => hne (secKey_inj hE (hU k2 v2 hv2) hUk e3))
          rw [this, a4 _ (secKey_term env k0)]; simp
        · have hk0' : k0 ∈ ks := by
            rcases List.mem_cons.mp hk0 with e2 | e2
            · exact absurd e2 e
            · exact e2
          exact h4 k0 v0 hk0' (by rw [sget_sdel]; simp [e, hv0])
      · intro k' hk' hne
        have e1 := h5 k' hk' (by
          intro k2 hk2 hs
          rw [sget_sdel] at hs
          by_cases e2 : k2 = k
          · simp [e2] at hs
          · simp only [e2, if_false] at hs
            exact hne k2 (List.mem_cons_of_mem _ hk2) hs)
        have e2 : k' ≠ secKey env k := fun e => hne k List.mem_cons_self (by simp [hg]) e.symm
        rw [e1, a4 k' hk']; simp [e2]

/-! ### `Update` as a whole -/

theorem store_with_trie (sc : SC) (disk : Disk) (t : Option Trie) :
    SC.store { sc with trie := t } disk = sc.store disk := rfl

/-- a state whose trie handle is loaded and abstracts to `n` is `Ready` for every root argument -/
theorem ready_of_loaded {env : Env} {disk : Disk} {sc : SC} {n : Node} {t : Trie} (root : Hash)
    (hdb : DbOk env.hashOf ⟨sc.mem, disk⟩) (hS : Sound env.hashOf (sc.store disk)) (hC : Canon n)
    (ht : sc.trie = some t) (hA : Abs env.small env.hashOf (sc.store disk) t.root n) :
    Ready env disk sc root n :=
  ⟨hdb, hS, hC, fun t' ht' => by rw [ht] at ht'; cases ht'; exact hA, fun h => by rw [ht] at h; cases h⟩

/-- **`Update(root)` for ANY iteration order of the dirty map**, outside the zero-root short cut: it
    succeeds, returns the root hash of the resulting content, and changes nothing but the trie handle
    and the dirty map. -/
theorem update_spec {env : Env} {U : Key → Prop} (hE : EnvOk env U) {disk : Disk} {sc : SC} {root : Hash}
    {n : Node} (hR : Ready env disk sc root n) (hns : ¬ (root = zeroHash ∧ sc.dirty = []))
    (hU : ∀ k v, sget sc.dirty k = some v → U k) (order : List Key) :
    ∃ t' n', StorageCache.update env disk sc root order =
        ({ sc with trie := some t', dirty := order.foldl sdel sc.dirty },
          .ok (refRoot (baseH env.small env.hashOf) n')) ∧
      Abs env.small env.hashOf (sc.store disk) t'.root n' ∧ Canon n' ∧
      (∀ k v, k ∈ order → sget sc.dirty k = some v → Mpt.get n' (secKey env k) = valRes (trimLeft v)) ∧
      (∀ k', TermKey k' → (∀ k, k ∈ order → (sget sc.dirty k).isSome → secKey env k ≠ k') →
        Mpt.get n' k' = Mpt.get n k') := by
  obtain ⟨t, hget, hA⟩ := getTrie_ready hE hR
  obtain ⟨t1, n', h1, h2, h3, h4, h5⟩ := applyDirty_spec hE (sc.store disk) order t n sc.dirty hA hR.canon hU
  obtain ⟨t2, g1, g2, _⟩ := hash_inv env.small env.hashOf h2 h3
  refine ⟨t2, n', ?_, g2, h3, h4, h5⟩
  simp only [StorageCache.update, if_neg hns, hget, store_with_trie, h1, g1]

/-! ### `Save` -/

theorem insertAll_disk (ws : List (Hash × CNode)) : ∀ (db : Db), (db.insertAll ws).disk = db.disk := by
  induction ws with
  | nil => intro db; rfl
  | cons w ws ih =>
    intro db
    rw [show db.insertAll (w :: ws) = (db.insert w).insertAll ws from rfl, ih, insert_disk]

theorem db_commit_cases (db : Db) (root : Hash) : (∃ db', db.commit root = .ok db') ∨ db.commit root = .overflow := by
  unfold Db.commit
  cases reach db.mem (db.mem.length + 1) root with
  | none => exact Or.inr rfl
  | some hs => exact Or.inl ⟨_, rfl⟩

/-- `Save(root)` with an empty dirty map and a non-zero root on a state of the abstraction: `Commit`
    returns the root of the content; a different `root` is refused AFTER the commit went into the pool;
    otherwise the pool is flushed (`TrieDatabase.Commit`; its termination is the open point of part C:
    outcome `overflow`). -/
theorem save_spec {env : Env} {U : Key → Prop} (hE : EnvOk env U) {disk : Disk} {sc : SC} {root : Hash}
    {n : Node} (hR : Ready env disk sc root n) (hd : sc.dirty = []) (hz : root ≠ zeroHash) :
    ∃ t' ws, let db := (Db.mk sc.mem disk).insertAll ws
      DbOk env.hashOf db ∧ Sound env.hashOf db.node ∧ db.disk = disk ∧
      Abs env.small env.hashOf db.node t'.root n ∧
      Stored (baseH env.small env.hashOf) db.node true n ∧ Closed (baseH env.small env.hashOf) db.node n ∧
      save env disk sc root =
        (if root ≠ refRoot (baseH env.small env.hashOf) n then
          (disk, { sc with trie := some t', mem := db.mem }, .err .trieChanged)
        else
          match db.commit (refRoot (baseH env.small env.hashOf) n) with
          | .ok db' => (db'.disk, { sc with trie := some t', mem := db'.mem }, .ok ())
          | .missing _ => (disk, { sc with trie := some t', mem := db.mem }, .err .missing)
          | .panic => (disk, { sc with trie := some t', mem := db.mem }, .err .panic)
          | .overflow => (disk, { sc with trie := some t', mem := db.mem }, .err .overflow)) := by
  obtain ⟨t, hget, hA⟩ := getTrie_ready hE hR
  obtain ⟨t', ws, c1, c2, c3, _, c5, c6, c7⟩ :=
    db_commit_keeps_invariant env.small env.hashOf hE.hash ⟨sc.mem, disk⟩ hR.dbok hR.sound t n hA hR.canon
  refine ⟨t', ws, c2, c3, insertAll_disk ws _, c5, c6, c7, ?_⟩
  have hd' : ¬ sc.dirty ≠ [] := by simp [hd]
  simp only [save, if_neg hd', if_neg hz, hget, c1]
  by_cases hr : root = refRoot (baseH env.small env.hashOf) n
  · simp only [hr, ne_eq, not_true_eq_false, if_false]
    cases (Db.insertAll ⟨sc.mem, disk⟩ ws).commit (refRoot (baseH env.small env.hashOf) n) <;> rfl
  · simp only [ne_eq, hr, not_false_eq_true, if_true]

/-! ### reading through a cache -/

/-- `GetState` of a key that is not in `cached`, on a state of the abstraction: the trie's value, put
    into `cached` only when it is not empty; never an error -/
theorem getState_trie {env : Env} {U : Key → Prop} (hE : EnvOk env U) {disk : Disk} {sc : SC} {root : Hash}
    {n : Node} (hR : Ready env disk sc root n) {k : Key} (hk : U k) (hc : sget sc.cached k = none) :
    ∃ t', getState env disk sc root k =
        ((if valOf env n k = [] then ({ sc with trie := some t' } : SC)
          else { sc with trie := some t', cached := sset sc.cached k (valOf env n k) }), .ok (valOf env n k)) ∧
      Abs env.small env.hashOf (sc.store disk) t'.root n := by
  obtain ⟨t, hget, hA⟩ := getTrie_ready hE hR
  obtain ⟨hP, hN, _⟩ := canon_placed_nes n hR.canon
  rcases commit_reopen_get env.small env.hashOf (sc.store disk) t n (secKey env k) env.fuel hA hP hN
    (hE.fuel k hk) with ⟨h1, _⟩ | ⟨t', h1, h2, _⟩
  · exact absurd h1 (get_no_panic n _ hR.canon (secKey_term env k))
  · refine ⟨t', ?_, h2⟩
    simp only [getState, hc, hget, store_with_trie, h1, valOf]
    by_cases hv : (getOpt (Mpt.get n (secKey env k))).getD [] = []
    · simp [hv]
    · simp [hv]

/-- a cached key is answered from `cached`, whatever the trie, the store and the root are -/
theorem getState_cached (env : Env) (disk : Disk) (sc : SC) (root : Hash) {k : Key} {v : Bytes}
    (hc : sget sc.cached k = some v) : getState env disk sc root k = (sc, .ok v) := by
  simp [getState, hc]

/-! ### technical lemmas used by `LemoProofs.C17Storage` -/

theorem db_mk_eq {db : Db} {d : Disk} (h : db.disk = d) : (⟨db.mem, d⟩ : Db) = db := by
  cases db; simp_all

theorem getTrie_maps (env : Env) (disk : Disk) (sc : SC) (root : Hash) :
    (getTrie env disk sc root).1.cached = sc.cached ∧ (getTrie env disk sc root).1.dirty = sc.dirty ∧
    (getTrie env disk sc root).1.mem = sc.mem := by
  unfold getTrie
  cases sc.trie with
  | some t => exact ⟨rfl, rfl, rfl⟩
  | none =>
    simp only
    cases Trie.new env.hashOf (sc.store disk) root <;> exact ⟨rfl, rfl, rfl⟩

theorem getState_maps (env : Env) (disk : Disk) (sc : SC) (root : Hash) (k : Key) :
    (getState env disk sc root k).1.dirty = sc.dirty ∧
    (getState env disk sc root k).1.mem = sc.mem ∧
    (∀ k' v, sget sc.cached k' = some v → sget (getState env disk sc root k).1.cached k' = some v) := by
  unfold getState
  cases hc : sget sc.cached k with
  | some v => exact ⟨rfl, rfl, fun _ _ h => h⟩
  | none =>
    simp only
    obtain ⟨m1, m2, m3⟩ := getTrie_maps env disk sc root
    cases hgt : getTrie env disk sc root with
    | mk sc1 o =>
    rw [hgt] at m1 m2 m3
    simp only at m1 m2 m3
    cases o with
    | err e => exact ⟨m2, m3, fun k' v h => (by rw [m1]; exact h)⟩
    | ok t =>
      simp only
      cases hg : t.get (sc1.store disk) env.fuel (secKey env k) with
      | ok r =>
        obtain ⟨v, t'⟩ := r
        simp only
        by_cases hv : v.getD [] = []
        · rw [if_pos hv]
          exact ⟨m2, m3, fun k' v h => (by show sget sc1.cached k' = some v; rw [m1]; exact h)⟩
        · rw [if_neg hv]
          refine ⟨m2, m3, fun k' v' h => ?_⟩
          show sget (sset sc1.cached k (v.getD [])) k' = some v'
          rw [sget_sset, m1]
          by_cases e : k' = k
          · subst e; rw [hc] at h; cases h
          · simp [e, h]
      | missing h => exact ⟨m2, m3, fun k' v h => (by rw [m1]; exact h)⟩
      | panic => exact ⟨m2, m3, fun k' v h => (by rw [m1]; exact h)⟩
      | overflow => exact ⟨m2, m3, fun k' v h => (by rw [m1]; exact h)⟩

theorem mem_keysOf {d : Storage} {k : Key} {v : Bytes} (h : sget d k = some v) : k ∈ keysOf d := by
  induction d with
  | nil => cases h
  | cons e d ih =>
    obtain ⟨a, x⟩ := e
    simp only [sget] at h
    by_cases ha : a = k
    · subst ha; simp [keysOf]
    · simp only [ha, if_false] at h
      have := ih h
      simp only [keysOf, List.map_cons, List.mem_cons] at this ⊢
      exact Or.inr this

theorem hexKey_length (bs : List Nat) : (hexKey bs).length = 2 * bs.length + 1 := by
  induction bs with
  | nil => rfl
  | cons b bs ih => simp only [hexKey, List.length_cons, ih]; omega

end LemoProofs.StorageCacheLemmas

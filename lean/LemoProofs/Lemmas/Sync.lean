/-
  C20 — helper lemmas about the BlockCache model (`LemoModel.Sync`).
-/
import LemoModel.Sync
namespace LemoProofs.SyncLemmas
open LemoModel.Sync

/-- the multimap a cache denotes: all blocks of all entries (a block carries its height) -/
def blocksOf (l : List Group) : List Blk := l.flatMap (·.blocks)

/-- well-formed cache = a sorted multimap without aliasing -/
structure WF (c : BlockCache) : Prop where
  sorted : c.cache.Pairwise (fun a b => a.height < b.height)
  gids : c.cache.Pairwise (fun a b => a.gid ≠ b.gid)
  fresh : ∀ g ∈ c.cache, g.gid < c.next
  hts : ∀ g ∈ c.cache, ∀ b ∈ g.blocks, b.height = g.height
  nodup : ∀ g ∈ c.cache, g.blocks.Nodup

theorem wf_empty : WF {} := ⟨List.Pairwise.nil, List.Pairwise.nil, by simp, by simp, by simp⟩

@[simp] theorem blocksOf_nil : blocksOf [] = [] := rfl
@[simp] theorem blocksOf_cons (g : Group) (l : List Group) : blocksOf (g :: l) = g.blocks ++ blocksOf l := by
  simp [blocksOf]
@[simp] theorem blocksOf_append (a b : List Group) : blocksOf (a ++ b) = blocksOf a ++ blocksOf b := by
  simp [blocksOf]

theorem mem_blocksOf {x : Blk} {l : List Group} : x ∈ blocksOf l ↔ ∃ g ∈ l, x ∈ g.blocks := by
  simp [blocksOf]

/-! ### map updates addressed by gid -/

theorem updGid_not_mem (F : Group → Group) (g : Nat) :
    ∀ l : List Group, (∀ e ∈ l, e.gid ≠ g) → l.map (fun e => if e.gid = g then F e else e) = l
  | [], _ => rfl
  | e :: l, h => by
    have h1 : e.gid ≠ g := h e (by simp)
    simp only [List.map_cons, h1, if_false]
    rw [updGid_not_mem F g l (fun e he => h e (by simp [he]))]

theorem updGid_at (F : Group → Group) (pre : List Group) (g : Group) (rest : List Group)
    (h : (pre ++ g :: rest).Pairwise (fun a b => a.gid ≠ b.gid)) :
    (pre ++ g :: rest).map (fun e => if e.gid = g.gid then F e else e) = pre ++ F g :: rest := by
  rw [List.pairwise_append] at h
  obtain ⟨_, h2, h3⟩ := h
  rw [List.pairwise_cons] at h2
  rw [List.map_append, List.map_cons]
  rw [updGid_not_mem F g.gid pre (fun e he => h3 e he g (by simp))]
  rw [updGid_not_mem F g.gid rest (fun e he => fun hh => h2.1 e he hh.symm)]
  simp

theorem mem_mapPut {x b : Blk} {l : List Blk} : x ∈ mapPut l b ↔ x = b ∨ x ∈ l := by
  unfold mapPut
  by_cases h : b ∈ l
  · simp only [h, if_true]
    constructor
    · exact fun hx => Or.inr hx
    · rintro (rfl | hx)
      · exact h
      · exact hx
  · simp only [h, if_false, List.mem_append, List.mem_singleton]
    constructor
    · rintro (hx | hx)
      · exact Or.inr hx
      · exact Or.inl hx
    · rintro (hx | hx)
      · exact Or.inr hx
      · exact Or.inl hx

theorem nodup_mapPut {b : Blk} {l : List Blk} (h : l.Nodup) : (mapPut l b).Nodup := by
  unfold mapPut
  by_cases hb : b ∈ l
  · simp [hb, h]
  · simp only [hb, if_false]
    rw [List.nodup_append]
    refine ⟨h, by simp, ?_⟩
    intro a ha c hc
    simp at hc
    subst hc
    intro hab
    subst hab
    exact hb ha

theorem mem_mapDel {x b : Blk} {l : List Blk} : x ∈ mapDel l b ↔ x ∈ l ∧ x ≠ b := by
  simp [mapDel]

theorem nodup_mapDel {b : Blk} {l : List Blk} (h : l.Nodup) : (mapDel l b).Nodup := by
  unfold mapDel
  exact h.filter _

/-! ### lastHeight on sorted lists -/

theorem lastHeight_cons_cons (a b : Group) (l : List Group) : lastHeight (a :: b :: l) = lastHeight (b :: l) := by
  simp [lastHeight, List.getLast?_cons_cons]

theorem le_lastHeight : ∀ (l : List Group), l.Pairwise (fun a b => a.height < b.height) →
    ∀ g ∈ l, g.height ≤ lastHeight l
  | [], _, g, hg => by simp at hg
  | [a], _, g, hg => by
    simp at hg; subst hg; simp [lastHeight]
  | a :: b :: l, h, g, hg => by
    rw [lastHeight_cons_cons]
    rw [List.pairwise_cons] at h
    have ih := le_lastHeight (b :: l) h.2
    rcases List.mem_cons.mp hg with rfl | hg'
    · have h1 := h.1 b (by simp)
      have h2 := ih b (by simp)
      omega
    · exact ih g hg'

theorem lastHeight_mem : ∀ (l : List Group), l ≠ [] → ∃ g ∈ l, g.height = lastHeight l
  | [], h => absurd rfl h
  | [a], _ => ⟨a, by simp, by simp [lastHeight]⟩
  | a :: b :: l, _ => by
    rw [lastHeight_cons_cons]
    obtain ⟨g, hg, he⟩ := lastHeight_mem (b :: l) (by simp)
    exact ⟨g, by simp [List.mem_cons.mp hg] , he⟩

/-! ### the scan loop of `Add` -/

theorem addLoop_cases (mid : Nat → Group → List Group → List Group) (b : Blk) (new : Group) :
    ∀ (suffix pre : List Group), (∀ g ∈ pre, g.height < b.height) →
    (∃ g ∈ suffix, b.height ≤ g.height) →
    ∃ pre' g rest, pre ++ suffix = pre' ++ g :: rest ∧ (∀ x ∈ pre', x.height < b.height) ∧
      ((g.height = b.height ∧
          addLoop mid b new (pre ++ suffix) pre.length suffix = putIn g.gid b (pre ++ suffix)) ∨
       (b.height < g.height ∧
          addLoop mid b new (pre ++ suffix) pre.length suffix = mid pre'.length new (pre ++ suffix)))
  | [], _, _, hex => by obtain ⟨g, hg, _⟩ := hex; simp at hg
  | g :: rest, pre, hpre, hex => by
    by_cases h1 : g.height = b.height
    · refine ⟨pre, g, rest, rfl, hpre, Or.inl ⟨h1, ?_⟩⟩
      simp [addLoop, h1]
    · by_cases h2 : g.height > b.height
      · refine ⟨pre, g, rest, rfl, hpre, Or.inr ⟨h2, ?_⟩⟩
        simp [addLoop, h1, h2]
      · have hlt : g.height < b.height := by omega
        have hpre' : ∀ x ∈ pre ++ [g], x.height < b.height := by
          intro x hx
          rcases List.mem_append.mp hx with hx | hx
          · exact hpre x hx
          · simp at hx; subst hx; exact hlt
        have hex' : ∃ x ∈ rest, b.height ≤ x.height := by
          obtain ⟨x, hx, hle⟩ := hex
          rcases List.mem_cons.mp hx with rfl | hx
          · omega
          · exact ⟨x, hx, hle⟩
        obtain ⟨pre', g', rest', he, hp, hc⟩ := addLoop_cases mid b new rest (pre ++ [g]) hpre' hex'
        have e1 : pre ++ [g] ++ rest = pre ++ g :: rest := by simp
        have e2 : (pre ++ [g]).length = pre.length + 1 := by simp
        rw [e1, e2] at hc
        rw [e1] at he
        refine ⟨pre', g', rest', he, hp, ?_⟩
        have hstep : addLoop mid b new (pre ++ g :: rest) pre.length (g :: rest)
            = addLoop mid b new (pre ++ g :: rest) (pre.length + 1) rest := by
          simp [addLoop, h1, h2]
        rw [hstep]
        exact hc

theorem middleInsertFixed_at (pre : List Group) (g new : Group) (rest : List Group) :
    middleInsertFixed pre.length new (pre ++ g :: rest) = pre ++ new :: g :: rest := by
  simp [middleInsertFixed]


/-! ### shape of the result of `Add` -/

def newGroup (b : Blk) (c : BlockCache) : Group := { gid := c.next, height := b.height, blocks := [b] }

/-- what the middle-insert function has to do (only asked in the situation in which `Add` calls it) -/
def MidOk (mid : Nat → Group → List Group → List Group) (b : Blk) (c : BlockCache) : Prop :=
  ∀ pre g rest, c.cache = pre ++ g :: rest → (∀ x ∈ pre, x.height < b.height) → b.height < g.height →
    (∀ f tl, c.cache = f :: tl → ¬ b.height < f.height) → ¬ b.height > lastHeight c.cache →
    mid pre.length (newGroup b c) c.cache = pre ++ newGroup b c :: g :: rest

theorem first_le_of_sorted {f : Group} {tl : List Group}
    (hs : (f :: tl).Pairwise (fun a b => a.height < b.height)) : ∀ x ∈ f :: tl, f.height ≤ x.height := by
  intro x hx
  rw [List.pairwise_cons] at hs
  rcases List.mem_cons.mp hx with rfl | hx
  · exact Nat.le_refl _
  · exact Nat.le_of_lt (hs.1 x hx)

theorem addWith_shape (mid : Nat → Group → List Group → List Group) (b : Blk) (c : BlockCache)
    (hs : c.cache.Pairwise (fun a b => a.height < b.height)) (hmid : MidOk mid b c) :
    (∃ pre rest, c.cache = pre ++ rest ∧ (∀ x ∈ pre, x.height < b.height) ∧ (∀ x ∈ rest, b.height < x.height) ∧
        (addWith mid b c).cache = pre ++ newGroup b c :: rest) ∨
    (∃ pre g rest, c.cache = pre ++ g :: rest ∧ g.height = b.height ∧
        (addWith mid b c).cache = putIn g.gid b c.cache) := by
  unfold addWith
  cases hc : c.cache with
  | nil =>
    left
    exact ⟨[], [], rfl, by simp, by simp, by simp [newGroup]⟩
  | cons f tl =>
    rw [hc] at hs
    simp only
    by_cases h1 : b.height < f.height
    · left
      refine ⟨[], f :: tl, rfl, by simp, ?_, by simp [h1, newGroup]⟩
      intro x hx
      have := first_le_of_sorted hs x hx
      omega
    · by_cases h2 : b.height > lastHeight (f :: tl)
      · left
        refine ⟨f :: tl, [], by simp, ?_, by simp, by simp [h1, h2, newGroup]⟩
        intro x hx
        have := le_lastHeight (f :: tl) hs x hx
        omega
      · simp only [h1, h2, if_false]
        obtain ⟨gl, hgl, hgle⟩ := lastHeight_mem (f :: tl) (by simp)
        have hex : ∃ g ∈ f :: tl, b.height ≤ g.height := ⟨gl, hgl, by omega⟩
        obtain ⟨pre', g, rest, he, hp, hcase⟩ :=
          addLoop_cases mid b (newGroup b c) (f :: tl) [] (by simp) hex
        simp only [List.nil_append, List.length_nil] at he hcase
        rcases hcase with ⟨heq, hres⟩ | ⟨hlt, hres⟩
        · right
          refine ⟨pre', g, rest, he, heq, ?_⟩
          exact hres
        · left
          have hm := hmid pre' g rest (by rw [hc, he]) hp hlt
            (by intro f' tl' hh; rw [hc] at hh; cases hh; exact h1) (by rw [hc]; exact h2)
          rw [hc] at hm
          refine ⟨pre', g :: rest, he, hp, ?_, ?_⟩
          · intro x hx
            rw [he] at hs
            rw [List.pairwise_append] at hs
            have := first_le_of_sorted hs.2.1 x hx
            omega
          · show addLoop mid b (newGroup b c) (f :: tl) 0 (f :: tl) = _
            rw [hres]; exact hm

theorem addWith_next (mid : Nat → Group → List Group → List Group) (b : Blk) (c : BlockCache) :
    (addWith mid b c).next = c.next + 1 := rfl

theorem eq_of_gid_eq : ∀ {l : List Group}, l.Pairwise (fun a b => a.gid ≠ b.gid) →
    ∀ {a b : Group}, a ∈ l → b ∈ l → a.gid = b.gid → a = b
  | [], _, a, _, ha, _, _ => by simp at ha
  | e :: l, h, a, b, ha, hb, hab => by
    rw [List.pairwise_cons] at h
    rcases List.mem_cons.mp ha with rfl | ha' <;> rcases List.mem_cons.mp hb with rfl | hb'
    · rfl
    · exact absurd hab (h.1 b hb')
    · exact absurd hab.symm (h.1 a ha')
    · exact eq_of_gid_eq h.2 ha' hb' hab

/-- inserting a fresh singleton group at its sorted position keeps the cache well formed -/
theorem wf_insert (pre rest : List Group) (n : Nat) (b : Blk)
    (h : WF { cache := pre ++ rest, next := n })
    (hp : ∀ x ∈ pre, x.height < b.height) (hr : ∀ x ∈ rest, b.height < x.height) :
    WF { cache := pre ++ { gid := n, height := b.height, blocks := [b] } :: rest, next := n + 1 } := by
  obtain ⟨h1, h2, h3, h4, h5⟩ := h
  simp only at h1 h2 h3 h4 h5
  rw [List.pairwise_append] at h1 h2
  refine ⟨?_, ?_, ?_, ?_, ?_⟩ <;> simp only
  · rw [List.pairwise_append, List.pairwise_cons]
    refine ⟨h1.1, ⟨fun x hx => hr x hx, h1.2.1⟩, ?_⟩
    intro a ha x hx
    rcases List.mem_cons.mp hx with rfl | hx
    · exact hp a ha
    · exact h1.2.2 a ha x hx
  · rw [List.pairwise_append, List.pairwise_cons]
    refine ⟨h2.1, ⟨fun x hx => ?_, h2.2.1⟩, ?_⟩
    · have := h3 x (by simp [hx]); simp only; omega
    · intro a ha x hx
      rcases List.mem_cons.mp hx with rfl | hx
      · have := h3 a (by simp [ha]); simp only; omega
      · exact h2.2.2 a ha x hx
  · intro g hg
    rcases List.mem_append.mp hg with hg | hg
    · have := h3 g (by simp [hg]); omega
    · rcases List.mem_cons.mp hg with rfl | hg
      · simp
      · have := h3 g (by simp [hg]); omega
  · intro g hg x hx
    rcases List.mem_append.mp hg with hg | hg
    · exact h4 g (by simp [hg]) x hx
    · rcases List.mem_cons.mp hg with rfl | hg
      · simp at hx; subst hx; rfl
      · exact h4 g (by simp [hg]) x hx
  · intro g hg
    rcases List.mem_append.mp hg with hg | hg
    · exact h5 g (by simp [hg])
    · rcases List.mem_cons.mp hg with rfl | hg
      · simp
      · exact h5 g (by simp [hg])

/-- replacing the block list of one entry (same height, same address) keeps the cache well formed -/
theorem wf_replace (pre rest : List Group) (g : Group) (n : Nat) (bl : List Blk)
    (h : WF { cache := pre ++ g :: rest, next := n }) (m : Nat) (hm : n ≤ m)
    (hb : ∀ x ∈ bl, x.height = g.height) (hn : bl.Nodup) :
    WF { cache := pre ++ { g with blocks := bl } :: rest, next := m } := by
  obtain ⟨h1, h2, h3, h4, h5⟩ := h
  simp only at h1 h2 h3 h4 h5
  rw [List.pairwise_append, List.pairwise_cons] at h1 h2
  refine ⟨?_, ?_, ?_, ?_, ?_⟩ <;> simp only
  · rw [List.pairwise_append, List.pairwise_cons]
    refine ⟨h1.1, ⟨h1.2.1.1, h1.2.1.2⟩, ?_⟩
    intro a ha x hx
    rcases List.mem_cons.mp hx with rfl | hx
    · exact h1.2.2 a ha g (by simp)
    · exact h1.2.2 a ha x (by simp [hx])
  · rw [List.pairwise_append, List.pairwise_cons]
    refine ⟨h2.1, ⟨h2.2.1.1, h2.2.1.2⟩, ?_⟩
    intro a ha x hx
    rcases List.mem_cons.mp hx with rfl | hx
    · exact h2.2.2 a ha g (by simp)
    · exact h2.2.2 a ha x (by simp [hx])
  · intro e he
    rcases List.mem_append.mp he with he | he
    · have := h3 e (by simp [he]); omega
    · rcases List.mem_cons.mp he with rfl | he
      · have := h3 g (by simp); simp only; omega
      · have := h3 e (by simp [he]); omega
  · intro e he x hx
    rcases List.mem_append.mp he with he | he
    · exact h4 e (by simp [he]) x hx
    · rcases List.mem_cons.mp he with rfl | he
      · exact hb x hx
      · exact h4 e (by simp [he]) x hx
  · intro e he
    rcases List.mem_append.mp he with he | he
    · exact h5 e (by simp [he])
    · rcases List.mem_cons.mp he with rfl | he
      · exact hn
      · exact h5 e (by simp [he])

/-- `Add` refines multimap insertion whenever its middle branch inserts at the sorted position -/
theorem addWith_refines (mid : Nat → Group → List Group → List Group) (b : Blk) (c : BlockCache)
    (hc : WF c) (hmid : MidOk mid b c) :
    WF (addWith mid b c) ∧ ∀ x, x ∈ blocksOf (addWith mid b c).cache ↔ x = b ∨ x ∈ blocksOf c.cache := by
  rcases addWith_shape mid b c hc.sorted hmid with ⟨pre, rest, he, hp, hr, hres⟩ | ⟨pre, g, rest, he, hg, hres⟩
  · have hw : WF { cache := pre ++ rest, next := c.next } := by rw [← he]; exact hc
    have := wf_insert pre rest c.next b hw hp hr
    constructor
    · have e : addWith mid b c = { cache := pre ++ newGroup b c :: rest, next := c.next + 1 } := by
        cases hh : addWith mid b c with
        | mk ca nx =>
          have h1 : ca = (addWith mid b c).cache := by rw [hh]
          have h2 : nx = (addWith mid b c).next := by rw [hh]
          rw [h1, h2, hres, addWith_next]
      rw [e]; exact this
    · intro x
      rw [hres, he]
      simp only [blocksOf_append, blocksOf_cons, newGroup, List.mem_append, List.mem_singleton]
      constructor
      · rintro (h | h | h)
        · exact Or.inr (Or.inl h)
        · exact Or.inl h
        · exact Or.inr (Or.inr h)
      · rintro (h | h | h)
        · exact Or.inr (Or.inl h)
        · exact Or.inl h
        · exact Or.inr (Or.inr h)
  · have hput : putIn g.gid b c.cache = pre ++ { g with blocks := mapPut g.blocks b } :: rest := by
      unfold putIn
      rw [he]
      exact updGid_at (fun e => { e with blocks := mapPut e.blocks b }) pre g rest (by rw [← he]; exact hc.gids)
    have hw : WF { cache := pre ++ g :: rest, next := c.next } := by rw [← he]; exact hc
    have hgm : g ∈ c.cache := by rw [he]; simp
    have := wf_replace pre rest g c.next (mapPut g.blocks b) hw (c.next + 1) (by omega)
      (by intro x hx
          rcases mem_mapPut.mp hx with rfl | hx
          · exact hg.symm
          · exact hc.hts g hgm x hx)
      (nodup_mapPut (hc.nodup g hgm))
    constructor
    · have e : addWith mid b c = { cache := pre ++ { g with blocks := mapPut g.blocks b } :: rest, next := c.next + 1 } := by
        cases hh : addWith mid b c with
        | mk ca nx =>
          have h1 : ca = (addWith mid b c).cache := by rw [hh]
          have h2 : nx = (addWith mid b c).next := by rw [hh]
          rw [h1, h2, hres, hput, addWith_next]
      rw [e]; exact this
    · intro x
      rw [hres, hput, he]
      simp only [blocksOf_append, blocksOf_cons, List.mem_append, mem_mapPut]
      constructor
      · rintro (h | (h | h) | h)
        · exact Or.inr (Or.inl h)
        · exact Or.inl h
        · exact Or.inr (Or.inr (Or.inl h))
        · exact Or.inr (Or.inr (Or.inr h))
      · rintro (h | h | h | h)
        · exact Or.inr (Or.inl (Or.inl h))
        · exact Or.inl h
        · exact Or.inr (Or.inl (Or.inr h))
        · exact Or.inr (Or.inr h)

theorem midOk_fixed (b : Blk) (c : BlockCache) : MidOk middleInsertFixed b c := by
  intro pre g rest he _ _ _ _
  rw [he]
  exact middleInsertFixed_at pre g (newGroup b c) rest

/-- under the guard (no strict-middle insert) the coded middle branch is never reached on a sorted cache -/
theorem midOk_guard (b : Blk) (c : BlockCache) (hs : c.cache.Pairwise (fun a b => a.height < b.height))
    (hg : strictMiddle b.height c.cache = false) : MidOk middleInsert b c := by
  intro pre g rest he hp hlt hf hl
  exfalso
  unfold strictMiddle at hg
  cases hc : c.cache with
  | nil => rw [hc] at he; simp at he
  | cons f tl =>
    rw [hc] at hg
    simp only at hg
    have h1 : ¬ b.height < f.height := hf f tl hc
    have h2 : ¬ b.height > lastHeight (f :: tl) := by rw [← hc]; exact hl
    simp only [h1, h2, decide_false, Bool.not_false, Bool.true_and, Bool.not_eq_false', decide_eq_true_eq] at hg
    rw [List.any_eq_true] at hg
    obtain ⟨e, hem, hee⟩ := hg
    have hee : e.height = b.height := by simpa using hee
    rw [← hc, he] at hem
    rw [he] at hs
    rw [List.pairwise_append] at hs
    rcases List.mem_append.mp hem with hem | hem
    · have := hp e hem; omega
    · have := first_le_of_sorted hs.2.1 e hem; omega

end LemoProofs.SyncLemmas

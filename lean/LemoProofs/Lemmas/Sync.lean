/-
  C20 — helper lemmas about the BlockCache model (`LemoModel.Sync`).
-/
import LemoModel.Sync
namespace LemoProofs.SyncLemmas
open LemoModel.Sync

/-- the multimap a cache denotes: all blocks of all entries (a block carries its height) -/
def blocksOf (l : List Group) : List Blk := l.flatMap (·.blocks)

/-- well-formed cache = a sorted multimap without aliasing -/
structure WF (c : BlockCache) : Prop where
  sorted : c.cache.Pairwise (fun a b => a.height < b.height)
  gids : c.cache.Pairwise (fun a b => a.gid ≠ b.gid)
  fresh : ∀ g ∈ c.cache, g.gid < c.next
  hts : ∀ g ∈ c.cache, ∀ b ∈ g.blocks, b.height = g.height
  nodup : ∀ g ∈ c.cache, g.blocks.Nodup

theorem wf_empty : WF {} := ⟨List.Pairwise.nil, List.Pairwise.nil, by simp, by simp, by simp⟩

@[simp] theorem blocksOf_nil : blocksOf [] = [] := rfl
@[simp] theorem blocksOf_cons (g : Group) (l : List Group) : blocksOf (g :: l) = g.blocks ++ blocksOf l := by
  simp [blocksOf]
@[simp] theorem blocksOf_append (a b : List Group) : blocksOf (a ++ b) = blocksOf a ++ blocksOf b := by
  simp [blocksOf]

theorem mem_blocksOf {x : Blk} {l : List Group} : x ∈ blocksOf l ↔ ∃ g ∈ l, x ∈ g.blocks := by
  simp [blocksOf]

/-! ### map updates addressed by gid -/

theorem updGid_not_mem (F : Group → Group) (g : Nat) :
    ∀ l : List Group, (∀ e ∈ l, e.gid ≠ g) → l.map (fun e => if e.gid = g then F e else e) = l
  | [], _ => rfl
  | e :: l, h => by
    have h1 : e.gid ≠ g := h e (by simp)
    simp only [List.map_cons, h1, if_false]
    rw [updGid_not_mem F g l (fun e he => h e (by simp [he]))]

theorem updGid_at (F : Group → Group) (pre : List Group) (g : Group) (rest : List Group)
    (h : (pre ++ g :: rest).Pairwise (fun a b => a.gid ≠ b.gid)) :
    (pre ++ g :: rest).map (fun e => if e.gid = g.gid then F e else e) = pre ++ F g :: rest := by
  rw [List.pairwise_append] at h
  obtain ⟨_, h2, h3⟩ := h
  rw [List.pairwise_cons] at h2
  rw [List.map_append, List.map_cons]
  rw [updGid_not_mem F g.gid pre (fun e he => h3 e he g (by simp))]
  rw [updGid_not_mem F g.gid rest (fun e he => fun hh => h2.1 e he hh.symm)]
  simp

theorem mem_mapPut {x b : Blk} {l : List Blk} : x ∈ mapPut l b ↔ x = b ∨ x ∈ l := by
  unfold mapPut
  by_cases h : b ∈ l
  · simp only [h, if_true]
    constructor
    · exact fun hx => Or.inr hx
    · rintro (rfl | hx)
      · exact h
      · exact hx
  · simp only [h, if_false, List.mem_append, List.mem_singleton]
    constructor
    · rintro (hx | hx)
      · exact Or.inr hx
      · exact Or.inl hx
    · rintro (hx | hx)
      · exact Or.inr hx
      · exact Or.inl hx

theorem nodup_mapPut {b : Blk} {l : List Blk} (h : l.Nodup) : (mapPut l b).Nodup := by
  unfold mapPut
  by_cases hb : b ∈ l
  · simp [hb, h]
  · simp only [hb, if_false]
    rw [List.nodup_append]
    refine ⟨h, by simp, ?_⟩
    intro a ha c hc
    simp at hc
    subst hc
    intro hab
    subst hab
    exact hb ha

theorem mem_mapDel {x b : Blk} {l : List Blk} : x ∈ mapDel l b ↔ x ∈ l ∧ x ≠ b := by
  simp [mapDel]

theorem nodup_mapDel {b : Blk} {l : List Blk} (h : l.Nodup) : (mapDel l b).Nodup := by
  unfold mapDel
  exact h.filter _

/-! ### lastHeight on sorted lists -/

theorem lastHeight_cons_cons (a b : Group) (l : List Group) : lastHeight (a :: b :: l) = lastHeight (b :: l) := by
  simp [lastHeight, List.getLast?_cons_cons]

theorem le_lastHeight : ∀ (l : List Group), l.Pairwise (fun a b => a.height < b.height) →
    ∀ g ∈ l, g.height ≤ lastHeight l
  | [], _, g, hg => by simp at hg
  | [a], _, g, hg => by
    simp at hg; subst hg; simp [lastHeight]
  | a :: b :: l, h, g, hg => by
    rw [lastHeight_cons_cons]
    rw [List.pairwise_cons] at h
    have ih := le_lastHeight (b :: l) h.2
    rcases List.mem_cons.mp hg with rfl | hg'
    · have h1 := h.1 b (by simp)
      have h2 := ih b (by simp)
      omega
    · exact ih g hg'

theorem lastHeight_mem : ∀ (l : List Group), l ≠ [] → ∃ g ∈ l, g.height = lastHeight l
  | [], h => absurd rfl h
  | [a], _ => ⟨a, by simp, by simp [lastHeight]⟩
  | a :: b :: l, _ => by
    rw [lastHeight_cons_cons]
    obtain ⟨g, hg, he⟩ := lastHeight_mem (b :: l) (by simp)
    exact ⟨g, by simp [List.mem_cons.mp hg] , he⟩

/-! ### the scan loop of `Add` -/

theorem addLoop_cases (mid : Nat → Group → List Group → List Group) (b : Blk) (new : Group) :
    ∀ (suffix pre : List Group), (∀ g ∈ pre, g.height < b.height) →
    (∃ g ∈ suffix, b.height ≤ g.height) →
    ∃ pre' g rest, pre ++ suffix = pre' ++ g :: rest ∧ (∀ x ∈ pre', x.height < b.height) ∧
      ((g.height = b.height ∧
          addLoop mid b new (pre ++ suffix) pre.length suffix = putIn g.gid b (pre ++ suffix)) ∨
       (b.height < g.height ∧
          addLoop mid b new (pre ++ suffix) pre.length suffix = mid pre'.length new (pre ++ suffix)))
  | [], _, _, hex => by obtain ⟨g, hg, _⟩ := hex; simp at hg
  | g :: rest, pre, hpre, hex => by
    by_cases h1 : g.height = b.height
    · refine ⟨pre, g, rest, rfl, hpre, Or.inl ⟨h1, ?_⟩⟩
      simp [addLoop, h1]
    · by_cases h2 : g.height > b.height
      · refine ⟨pre, g, rest, rfl, hpre, Or.inr ⟨h2, ?_⟩⟩
        simp [addLoop, h1, h2]
      · have hlt : g.height < b.height := by omega
        have hpre' : ∀ x ∈ pre ++ [g], x.height < b.height := by
          intro x hx
          rcases List.mem_append.mp hx with hx | hx
          · exact hpre x hx
          · simp at hx; subst hx; exact hlt
        have hex' : ∃ x ∈ rest, b.height ≤ x.height := by
          obtain ⟨x, hx, hle⟩ := hex
          rcases List.mem_cons.mp hx with rfl | hx
          · omega
          · exact ⟨x, hx, hle⟩
        obtain ⟨pre', g', rest', he, hp, hc⟩ := addLoop_cases mid b new rest (pre ++ [g]) hpre' hex'
        have e1 : pre ++ [g] ++ rest = pre ++ g :: rest := by simp
        have e2 : (pre ++ [g]).length = pre.length + 1 := by simp
        rw [e1, e2] at hc
        rw [e1] at he
        refine ⟨pre', g', rest', he, hp, ?_⟩
        have hstep : addLoop mid b new (pre ++ g :: rest) pre.length (g :: rest)
            = addLoop mid b new (pre ++ g :: rest) (pre.length + 1) rest := by
          simp [addLoop, h1, h2]
        rw [hstep]
        exact hc

theorem middleInsertFixed_at (pre : List Group) (g new : Group) (rest : List Group) :
    middleInsertFixed pre.length new (pre ++ g :: rest) = pre ++ new :: g :: rest := by
  simp [middleInsertFixed]


/-! ### shape of the result of `Add` -/

def newGroup (b : Blk) (c : BlockCache) : Group := { gid := c.next, height := b.height, blocks := [b] }

/-- what the middle-insert function has to do (only asked in the situation in which `Add` calls it) -/
def MidOk (mid : Nat → Group → List Group → List Group) (b : Blk) (c : BlockCache) : Prop :=
  ∀ pre g rest, c.cache = pre ++ g :: rest → (∀ x ∈ pre, x.height < b.height) → b.height < g.height →
    (∀ f tl, c.cache = f :: tl → ¬ b.height < f.height) → ¬ b.height > lastHeight c.cache →
    mid pre.length (newGroup b c) c.cache = pre ++ newGroup b c :: g :: rest

theorem first_le_of_sorted {f : Group} {tl : List Group}
    (hs : (f :: tl).Pairwise (fun a b => a.height < b.height)) : ∀ x ∈ f :: tl, f.height ≤ x.height := by
  intro x hx
  rw [List.pairwise_cons] at hs
  rcases List.mem_cons.mp hx with rfl | hx
  · exact Nat.le_refl _
  · exact Nat.le_of_lt (hs.1 x hx)

theorem addWith_shape (mid : Nat → Group → List Group → List Group) (b : Blk) (c : BlockCache)
    (hs : c.cache.Pairwise (fun a b => a.height < b.height)) (hmid : MidOk mid b c) :
    (∃ pre rest, c.cache = pre ++ rest ∧ (∀ x ∈ pre, x.height < b.height) ∧ (∀ x ∈ rest, b.height < x.height) ∧
        (addWith mid b c).cache = pre ++ newGroup b c :: rest) ∨
    (∃ pre g rest, c.cache = pre ++ g :: rest ∧ g.height = b.height ∧
        (addWith mid b c).cache = putIn g.gid b c.cache) := by
  unfold addWith
  cases hc : c.cache with
  | nil =>
    left
    exact ⟨[], [], rfl, by simp, by simp, by simp [newGroup]⟩
  | cons f tl =>
    rw [hc] at hs
    simp only
    by_cases h1 : b.height < f.height
    · left
      refine ⟨[], f :: tl, rfl, by simp, ?_, by simp [h1, newGroup]⟩
      intro x hx
      have := first_le_of_sorted hs x hx
      omega
    · by_cases h2 : b.height > lastHeight (f :: tl)
      · left
        refine ⟨f :: tl, [], by simp, ?_, by simp, by simp [h1, h2, newGroup]⟩
        intro x hx
        have := le_lastHeight (f :: tl) hs x hx
        omega
      · simp only [h1, h2, if_false]
        obtain ⟨gl, hgl, hgle⟩ := lastHeight_mem (f :: tl) (by simp)
        have hex : ∃ g ∈ f :: tl, b.height ≤ g.height := ⟨gl, hgl, by omega⟩
        obtain ⟨pre', g, rest, he, hp, hcase⟩ :=
          addLoop_cases mid b (newGroup b c) (f :: tl) [] (by simp) hex
        simp only [List.nil_append, List.length_nil] at he hcase
        rcases hcase with ⟨heq, hres⟩ | ⟨hlt, hres⟩
        · right
          refine ⟨pre', g, rest, he, heq, ?_⟩
          exact hres
        · left
          have hm := hmid pre' g rest (by rw [hc, he]) hp hlt
            (by intro f' tl' hh; rw [hc] at hh; cases hh; exact h1) (by rw [hc]; exact h2)
          rw [hc] at hm
          refine ⟨pre', g :: rest, he, hp, ?_, ?_⟩
          · intro x hx
            rw [he] at hs
            rw [List.pairwise_append] at hs
            have := first_le_of_sorted hs.2.1 x hx
            omega
          · show addLoop mid b (newGroup b c) (f :: tl) 0 (f :: tl) = _
            rw [hres]; exact hm

theorem addWith_next (mid : Nat → Group → List Group → List Group) (b : Blk) (c : BlockCache) :
    (addWith mid b c).next = c.next + 1 := rfl

theorem eq_of_gid_eq : ∀ {l : List Group}, l.Pairwise (fun a b => a.gid ≠ b.gid) →
    ∀ {a b : Group}, a ∈ l → b ∈ l → a.gid = b.gid → a = b
  | [], _, a, _, ha, _, _ => by simp at ha
  | e :: l, h, a, b, ha, hb, hab => by
    rw [List.pairwise_cons] at h
    rcases List.mem_cons.mp ha with rfl | ha' <;> rcases List.mem_cons.mp hb with rfl | hb'
    · rfl
    · exact absurd hab (h.1 b hb')
    · exact absurd hab.symm (h.1 a ha')
    · exact eq_of_gid_eq h.2 ha' hb' hab

/-- inserting a fresh singleton group at its sorted position keeps the cache well formed -/
theorem wf_insert (pre rest : List Group) (n : Nat) (b : Blk)
    (h : WF { cache := pre ++ rest, next := n })
    (hp : ∀ x ∈ pre, x.height < b.height) (hr : ∀ x ∈ rest, b.height < x.height) :
    WF { cache := pre ++ { gid := n, height := b.height, blocks := [b] } :: rest, next := n + 1 } := by
  obtain ⟨h1, h2, h3, h4, h5⟩ := h
  simp only at h1 h2 h3 h4 h5
  rw [List.pairwise_append] at h1 h2
  refine ⟨?_, ?_, ?_, ?_, ?_⟩ <;> simp only
  · rw [List.pairwise_append, List.pairwise_cons]
    refine ⟨h1.1, ⟨fun x hx => hr x hx, h1.2.1⟩, ?_⟩
    intro a ha x hx
    rcases List.mem_cons.mp hx with rfl | hx
    · exact hp a ha
    · exact h1.2.2 a ha x hx
  · rw [List.pairwise_append, List.pairwise_cons]
    refine ⟨h2.1, ⟨fun x hx => ?_, h2.2.1⟩, ?_⟩
    · have := h3 x (by simp [hx]); simp only; omega
    · intro a ha x hx
      rcases List.mem_cons.mp hx with rfl | hx
      · have := h3 a (by simp [ha]); simp only; omega
      · exact h2.2.2 a ha x hx
  · intro g hg
    rcases List.mem_append.mp hg with hg | hg
    · have := h3 g (by simp [hg]); omega
    · rcases List.mem_cons.mp hg with rfl | hg
      · simp
      · have := h3 g (by simp [hg]); omega
  · intro g hg x hx
    rcases List.mem_append.mp hg with hg | hg
    · exact h4 g (by simp [hg]) x hx
    · rcases List.mem_cons.mp hg with rfl | hg
      · simp at hx; subst hx; rfl
      · exact h4 g (by simp [hg]) x hx
  · intro g hg
    rcases List.mem_append.mp hg with hg | hg
    · exact h5 g (by simp [hg])
    · rcases List.mem_cons.mp hg with rfl | hg
      · simp
      · exact h5 g (by simp [hg])

/-- replacing the block list of one entry (same height, same address) keeps the cache well formed -/
theorem wf_replace (pre rest : List Group) (g : Group) (n : Nat) (bl : List Blk)
    (h : WF { cache := pre ++ g :: rest, next := n }) (m : Nat) (hm : n ≤ m)
    (hb : ∀ x ∈ bl, x.height = g.height) (hn : bl.Nodup) :
    WF { cache := pre ++ { g with blocks := bl } :: rest, next := m } := by
  obtain ⟨h1, h2, h3, h4, h5⟩ := h
  simp only at h1 h2 h3 h4 h5
  rw [List.pairwise_append, List.pairwise_cons] at h1 h2
  refine ⟨?_, ?_, ?_, ?_, ?_⟩ <;> simp only
  · rw [List.pairwise_append, List.pairwise_cons]
    refine ⟨h1.1, ⟨h1.2.1.1, h1.2.1.2⟩, ?_⟩
    intro a ha x hx
    rcases List.mem_cons.mp hx with rfl | hx
    · exact h1.2.2 a ha g (by simp)
    · exact h1.2.2 a ha x (by simp [hx])
  · rw [List.pairwise_append, List.pairwise_cons]
    refine ⟨h2.1, ⟨h2.2.1.1, h2.2.1.2⟩, ?_⟩
    intro a ha x hx
    rcases List.mem_cons.mp hx with rfl | hx
    · exact h2.2.2 a ha g (by simp)
    · exact h2.2.2 a ha x (by simp [hx])
  · intro e he
    rcases List.mem_append.mp he with he | he
    · have := h3 e (by simp [he]); omega
    · rcases List.mem_cons.mp he with rfl | he
      · have := h3 g (by simp); simp only; omega
      · have := h3 e (by simp [he]); omega
  · intro e he x hx
    rcases List.mem_append.mp he with he | he
    · exact h4 e (by simp [he]) x hx
    · rcases List.mem_cons.mp he with rfl | he
      · exact hb x hx
      · exact h4 e (by simp [he]) x hx
  · intro e he
    rcases List.mem_append.mp he with he | he
    · exact h5 e (by simp [he])
    · rcases List.mem_cons.mp he with rfl | he
      · exact hn
      · exact h5 e (by simp [he])

/-- `Add` refines multimap insertion whenever its middle branch inserts at the sorted position -/
theorem addWith_refines (mid : Nat → Group → List Group → List Group) (b : Blk) (c : BlockCache)
    (hc : WF c) (hmid : MidOk mid b c) :
    WF (addWith mid b c) ∧ ∀ x, x ∈ blocksOf (addWith mid b c).cache ↔ x = b ∨ x ∈ blocksOf c.cache := by
  rcases addWith_shape mid b c hc.sorted hmid with ⟨pre, rest, he, hp, hr, hres⟩ | ⟨pre, g, rest, he, hg, hres⟩
  · have hw : WF { cache := pre ++ rest, next := c.next } := by rw [← he]; exact hc
    have := wf_insert pre rest c.next b hw hp hr
    constructor
    · have e : addWith mid b c = { cache := pre ++ newGroup b c :: rest, next := c.next + 1 } := by
        cases hh : addWith mid b c with
        | mk ca nx =>
          have h1 : ca = (addWith mid b c).cache := by rw [hh]
          have h2 : nx = (addWith mid b c).next := by rw [hh]
          rw [h1, h2, hres, addWith_next]
      rw [e]; exact this
    · intro x
      rw [hres, he]
      simp only [blocksOf_append, blocksOf_cons, newGroup, List.mem_append, List.mem_singleton]
      constructor
      · rintro (h | h | h)
        · exact Or.inr (Or.inl h)
        · exact Or.inl h
        · exact Or.inr (Or.inr h)
      · rintro (h | h | h)
        · exact Or.inr (Or.inl h)
        · exact Or.inl h
        · exact Or.inr (Or.inr h)
  · have hput : putIn g.gid b c.cache = pre ++ { g with blocks := mapPut g.blocks b } :: rest := by
      unfold putIn
      rw [he]
      exact updGid_at (fun e => { e with blocks := mapPut e.blocks b }) pre g rest (by rw [← he]; exact hc.gids)
    have hw : WF { cache := pre ++ g :: rest, next := c.next } := by rw [← he]; exact hc
    have hgm : g ∈ c.cache := by rw [he]; simp
    have := wf_replace pre rest g c.next (mapPut g.blocks b) hw (c.next + 1) (by omega)
      (by intro x hx
          rcases mem_mapPut.mp hx with rfl | hx
          · exact hg.symm
          · exact hc.hts g hgm x hx)
      (nodup_mapPut (hc.nodup g hgm))
    constructor
    · have e : addWith mid b c = { cache := pre ++ { g with blocks := mapPut g.blocks b } :: rest, next := c.next + 1 } := by
        cases hh : addWith mid b c with
        | mk ca nx =>
          have h1 : ca = (addWith mid b c).cache := by rw [hh]
          have h2 : nx = (addWith mid b c).next := by rw [hh]
          rw [h1, h2, hres, hput, addWith_next]
      rw [e]; exact this
    · intro x
      rw [hres, hput, he]
      simp only [blocksOf_append, blocksOf_cons, List.mem_append, mem_mapPut]
      constructor
      · rintro (h | (h | h) | h)
        · exact Or.inr (Or.inl h)
        · exact Or.inl h
        · exact Or.inr (Or.inr (Or.inl h))
        · exact Or.inr (Or.inr (Or.inr h))
      · rintro (h | h | h | h)
        · exact Or.inr (Or.inl (Or.inl h))
        · exact Or.inl h
        · exact Or.inr (Or.inl (Or.inr h))
        · exact Or.inr (Or.inr h)

theorem midOk_fixed (b : Blk) (c : BlockCache) : MidOk middleInsertFixed b c := by
  intro pre g rest he _ _ _ _
  rw [he]
  exact middleInsertFixed_at pre g (newGroup b c) rest

/-- under the guard (no strict-middle insert) the coded middle branch is never reached on a sorted cache -/
theorem midOk_guard (b : Blk) (c : BlockCache) (hs : c.cache.Pairwise (fun a b => a.height < b.height))
    (hg : strictMiddle b.height c.cache = false) : MidOk middleInsert b c := by
  intro pre g rest he hp hlt hf hl
  exfalso
  unfold strictMiddle at hg
  cases hc : c.cache with
  | nil => rw [hc] at he; simp at he
  | cons f tl =>
    rw [hc] at hg
    simp only at hg
    have h1 : ¬ b.height < f.height := hf f tl hc
    have h2 : ¬ b.height > lastHeight (f :: tl) := by rw [← hc]; exact hl
    simp only [h1, h2, decide_false, Bool.not_false, Bool.true_and, Bool.not_eq_false', decide_eq_true_eq] at hg
    rw [List.any_eq_true] at hg
    obtain ⟨e, hem, hee⟩ := hg
    have hee : e.height = b.height := by simpa using hee
    rw [← hc, he] at hem
    rw [he] at hs
    rw [List.pairwise_append] at hs
    rcases List.mem_append.mp hem with hem | hem
    · have := hp e hem; omega
    · have := first_le_of_sorted hs.2.1 e hem; omega


/-! ### sub-lists, Clear -/

theorem wf_sublist {l l' : List Group} {n : Nat} (hs : l'.Sublist l) (h : WF { cache := l, next := n }) :
    WF { cache := l', next := n } := by
  obtain ⟨h1, h2, h3, h4, h5⟩ := h
  exact ⟨h1.sublist hs, h2.sublist hs, fun g hg => h3 g (hs.subset hg), fun g hg => h4 g (hs.subset hg),
    fun g hg => h5 g (hs.subset hg)⟩

theorem clear_wf (h : Nat) (c : BlockCache) (hc : WF c) : WF (clear h c) := by
  unfold clear
  exact wf_sublist (List.dropWhile_sublist _) hc

theorem mem_clear_sorted (h : Nat) : ∀ (l : List Group), l.Pairwise (fun a b => a.height < b.height) →
    (∀ g ∈ l, ∀ b ∈ g.blocks, b.height = g.height) →
    ∀ x, x ∈ blocksOf (l.dropWhile (fun g => decide (g.height ≤ h))) ↔ x ∈ blocksOf l ∧ h < x.height
  | [], _, _, x => by simp
  | g :: tl, hs, hh, x => by
    rw [List.pairwise_cons] at hs
    by_cases hg : g.height ≤ h
    · rw [List.dropWhile_cons_of_pos (by simpa using hg)]
      rw [mem_clear_sorted h tl hs.2 (fun e he => hh e (by simp [he])) x]
      simp only [blocksOf_cons, List.mem_append]
      constructor
      · rintro ⟨h1, h2⟩; exact ⟨Or.inr h1, h2⟩
      · rintro ⟨h1 | h1, h2⟩
        · have := hh g (by simp) x h1; omega
        · exact ⟨h1, h2⟩
    · rw [List.dropWhile_cons_of_neg (by simpa using hg)]
      constructor
      · intro hx
        refine ⟨hx, ?_⟩
        obtain ⟨e, he, hxe⟩ := mem_blocksOf.mp hx
        have h1 := hh e he x hxe
        have h2 := first_le_of_sorted (List.pairwise_cons.mpr hs) e he
        omega
      · exact fun hx => hx.1

/-- whatever the order of the entries, `Clear(h)` never drops a block above `h` -/
theorem mem_clear_of_gt (h : Nat) : ∀ (l : List Group), (∀ g ∈ l, ∀ b ∈ g.blocks, b.height = g.height) →
    ∀ x, x ∈ blocksOf l → h < x.height → x ∈ blocksOf (l.dropWhile (fun g => decide (g.height ≤ h)))
  | [], _, x, hx, _ => by simp at hx
  | g :: tl, hh, x, hx, hlt => by
    by_cases hg : g.height ≤ h
    · rw [List.dropWhile_cons_of_pos (by simpa using hg)]
      simp only [blocksOf_cons, List.mem_append] at hx
      rcases hx with hx | hx
      · have := hh g (by simp) x hx; omega
      · exact mem_clear_of_gt h tl (fun e he => hh e (by simp [he])) x hx hlt
    · rw [List.dropWhile_cons_of_neg (by simpa using hg)]
      exact hx

/-! ### Iterate without aliasing -/

/-- `Iterate` when every entry is its own object: entry by entry, key by key -/
def iterSimple {σ : Type} (f : σ → Blk → σ × Bool) : σ → List Group → σ × List Group
  | s, [] => (s, [])
  | s, g :: rest =>
    let r := visitKeys f s g.blocks
    let r2 := iterSimple f r.1 rest
    (r2.1, { g with blocks := g.blocks.filter (fun k => decide (k ∉ r.2)) } :: r2.2)

theorem live_eq_self (D : List (Nat × Blk)) (g : Group) (h : ∀ k, (g.gid, k) ∉ D) : live D g = g.blocks := by
  unfold live
  apply List.filter_eq_self.mpr
  intro k _
  simp [h k]

theorem iterGo_simple {σ : Type} (f : σ → Blk → σ × Bool) : ∀ (l : List Group) (s : σ) (D : List (Nat × Blk)),
    l.Pairwise (fun a b => a.gid ≠ b.gid) → (∀ g ∈ l, ∀ k, (g.gid, k) ∉ D) →
    (iterGo f s D l).1 = (iterSimple f s l).1 ∧
    (∃ E, (iterGo f s D l).2.1 = D ++ E ∧ ∀ p ∈ E, ∃ g ∈ l, g.gid = p.1) ∧
    l.map (fun e => { e with blocks := live (iterGo f s D l).2.1 e }) = (iterSimple f s l).2 ∧
    (iterGo f s D l).2.2 = l.map (fun g => (g.height, g.blocks))
  | [], s, D, _, _ => by
    simp [iterGo, iterSimple]
  | g :: rest, s, D, hp, hD => by
    rw [List.pairwise_cons] at hp
    have hlive : live D g = g.blocks := live_eq_self D g (hD g (by simp))
    have hD1 : ∀ g' ∈ rest, ∀ k, (g'.gid, k) ∉ D ++ (visitKeys f s g.blocks).2.map (fun k => (g.gid, k)) := by
      intro g' hg' k hk
      rcases List.mem_append.mp hk with hk | hk
      · exact hD g' (by simp [hg']) k hk
      · obtain ⟨k', _, he⟩ := List.mem_map.mp hk
        have : g.gid = g'.gid := by injection he
        exact hp.1 g' hg' this
    obtain ⟨h1, ⟨E, hE, hEg⟩, h3, h4⟩ := iterGo_simple f rest (visitKeys f s g.blocks).1
      (D ++ (visitKeys f s g.blocks).2.map (fun k => (g.gid, k))) hp.2 hD1
    simp only [iterGo, iterSimple, hlive]
    refine ⟨h1, ⟨(visitKeys f s g.blocks).2.map (fun k => (g.gid, k)) ++ E, ?_, ?_⟩, ?_, ?_⟩
    · rw [hE, List.append_assoc]
    · intro p hp'
      rcases List.mem_append.mp hp' with hp' | hp'
      · obtain ⟨k', _, he⟩ := List.mem_map.mp hp'
        exact ⟨g, by simp, by rw [← he]⟩
      · obtain ⟨g', hg', he⟩ := hEg p hp'
        exact ⟨g', by simp [hg'], he⟩
    · rw [List.map_cons, h3]
      congr 1
      congr 1
      unfold live
      apply List.filter_congr
      intro k _
      rw [hE]
      have hnD : (g.gid, k) ∉ D := hD g (by simp) k
      have hnE : (g.gid, k) ∉ E := by
        intro hk
        obtain ⟨g', hg', he⟩ := hEg _ hk
        exact hp.1 g' hg' he.symm
      have hiff : (g.gid, k) ∈ D ++ (visitKeys f s g.blocks).2.map (fun k => (g.gid, k)) ++ E ↔ k ∈ (visitKeys f s g.blocks).2 := by
        simp only [List.mem_append, List.mem_map]
        constructor
        · rintro ((h | ⟨k', hk', he⟩) | h)
          · exact absurd h hnD
          · have : k' = k := by injection he
            rw [← this]; exact hk'
          · exact absurd h hnE
        · intro h; exact Or.inl (Or.inr ⟨k, h, rfl⟩)
      simp only [hiff]
    · rw [h4, List.map_cons]

theorem iterate_simple {σ : Type} (f : σ → Blk → σ × Bool) (s : σ) (c : BlockCache)
    (hp : c.cache.Pairwise (fun a b => a.gid ≠ b.gid)) :
    (iterate f s c).1 = (iterSimple f s c.cache).1 ∧
    (iterate f s c).2.1 = { c with cache := (iterSimple f s c.cache).2 } ∧
    (iterate f s c).2.2 = c.cache.map (fun g => (g.height, g.blocks)) := by
  obtain ⟨h1, _, h3, h4⟩ := iterGo_simple f c.cache s [] hp (by simp)
  unfold iterate
  exact ⟨h1, by simp only [h3], h4⟩


theorem iterSimple_mem {σ : Type} (f : σ → Blk → σ × Bool) : ∀ (l : List Group) (s : σ) (e' : Group),
    e' ∈ (iterSimple f s l).2 →
    ∃ e ∈ l, e'.gid = e.gid ∧ e'.height = e.height ∧ e'.blocks.Sublist e.blocks
  | [], s, e', h => by simp [iterSimple] at h
  | g :: rest, s, e', h => by
    simp only [iterSimple, List.mem_cons] at h
    rcases h with rfl | h
    · exact ⟨g, by simp, rfl, rfl, List.filter_sublist⟩
    · obtain ⟨e, he, h1⟩ := iterSimple_mem f rest _ e' h
      exact ⟨e, by simp [he], h1⟩

theorem iterSimple_pairwise {σ : Type} (f : σ → Blk → σ × Bool) (R : Group → Group → Prop)
    (hR : ∀ a b a' b', a'.gid = a.gid → a'.height = a.height → b'.gid = b.gid → b'.height = b.height →
      R a b → R a' b') : ∀ (l : List Group) (s : σ), l.Pairwise R → (iterSimple f s l).2.Pairwise R
  | [], s, _ => by simp [iterSimple]
  | g :: rest, s, h => by
    rw [List.pairwise_cons] at h
    simp only [iterSimple]
    rw [List.pairwise_cons]
    refine ⟨?_, iterSimple_pairwise f R hR rest _ h.2⟩
    intro e' he'
    obtain ⟨e, he, h1, h2, _⟩ := iterSimple_mem f rest _ e' he'
    exact hR g e _ e' rfl rfl h1 h2 (h.1 e he)

theorem iterSimple_wf {σ : Type} (f : σ → Blk → σ × Bool) (l : List Group) (s : σ) (n : Nat)
    (h : WF { cache := l, next := n }) : WF { cache := (iterSimple f s l).2, next := n } := by
  obtain ⟨h1, h2, h3, h4, h5⟩ := h
  simp only at h1 h2 h3 h4 h5
  refine ⟨?_, ?_, ?_, ?_, ?_⟩ <;> simp only
  · exact iterSimple_pairwise f _ (by intro a b a' b' _ e2 _ e4 h; omega) l s h1
  · exact iterSimple_pairwise f _ (by intro a b a' b' e1 _ e3 _ h; omega) l s h2
  · intro e' he'
    obtain ⟨e, he, e1, _, _⟩ := iterSimple_mem f l s e' he'
    have := h3 e he; omega
  · intro e' he' x hx
    obtain ⟨e, he, _, e2, e3⟩ := iterSimple_mem f l s e' he'
    rw [e2]; exact h4 e he x (e3.subset hx)
  · intro e' he'
    obtain ⟨e, he, _, _, e3⟩ := iterSimple_mem f l s e' he'
    exact (h5 e he).sublist e3

/-! ### the callback fold over a flat key list -/

theorem visitKeys_append {σ : Type} (f : σ → Blk → σ × Bool) : ∀ (a b : List Blk) (s : σ),
    visitKeys f s (a ++ b) =
      ((visitKeys f (visitKeys f s a).1 b).1, (visitKeys f s a).2 ++ (visitKeys f (visitKeys f s a).1 b).2)
  | [], b, s => by simp [visitKeys]
  | k :: a, b, s => by
    simp only [List.cons_append, visitKeys, visitKeys_append f a b]
    split <;> simp

theorem visitKeys_dels_subset {σ : Type} (f : σ → Blk → σ × Bool) : ∀ (ks : List Blk) (s : σ) (x : Blk),
    x ∈ (visitKeys f s ks).2 → x ∈ ks
  | [], s, x, h => by simp [visitKeys] at h
  | k :: ks, s, x, h => by
    simp only [visitKeys] at h
    split at h
    · rcases List.mem_cons.mp h with rfl | h
      · simp
      · exact List.mem_cons_of_mem _ (visitKeys_dels_subset f ks _ x h)
    · exact List.mem_cons_of_mem _ (visitKeys_dels_subset f ks _ x h)

/-- invariant-style specification of the callback fold over keys that all satisfy `A`:
    `P` is kept by every call; a `true` answer for `x` establishes `Q x`; `Q` is stable;
    blocks for which the callback must answer `true` under `P` (`G`) are all deleted. -/
theorem visitKeys_spec {σ : Type} (f : σ → Blk → σ × Bool) (A : Blk → Prop) (P : σ → Prop) (Q : Blk → σ → Prop)
    (G : Blk → Prop)
    (hstep : ∀ s x, A x → P s → P (f s x).1)
    (hQ : ∀ s x, A x → P s → (f s x).2 = true → Q x (f s x).1)
    (hmono : ∀ s x y, A x → P s → Q y s → Q y (f s x).1)
    (hG : ∀ s x, A x → P s → G x → (f s x).2 = true) :
    ∀ (ks : List Blk) (s : σ), (∀ x ∈ ks, A x) → P s →
      P (visitKeys f s ks).1 ∧ (∀ x ∈ (visitKeys f s ks).2, Q x (visitKeys f s ks).1) ∧
      (∀ y, Q y s → Q y (visitKeys f s ks).1) ∧ (∀ x ∈ ks, G x → x ∈ (visitKeys f s ks).2)
  | [], s, _, hs => by simp [visitKeys, hs]
  | k :: ks, s, hA, hs => by
    have hk : A k := hA k (by simp)
    obtain ⟨i1, i2, i3, i4⟩ := visitKeys_spec f A P Q G hstep hQ hmono hG ks (f s k).1
      (fun x hx => hA x (by simp [hx])) (hstep s k hk hs)
    simp only [visitKeys]
    refine ⟨i1, ?_, ?_, ?_⟩
    · intro x hx
      split at hx
      · rename_i hdel
        rcases List.mem_cons.mp hx with rfl | hx
        · exact i3 _ (hQ s _ hk hs hdel)
        · exact i2 x hx
      · exact i2 x hx
    · intro y hy
      exact i3 y (hmono s k y hk hs hy)
    · intro x hx hg
      rcases List.mem_cons.mp hx with rfl | hx
      · simp [hG s _ hk hs hg]
      · split
        · exact List.mem_cons_of_mem _ (i4 x hx hg)
        · exact i4 x hx hg

theorem visitKeys_pure {σ : Type} (f : σ → Blk → σ × Bool) (p : Blk → Bool) (hp : ∀ s x, (f s x).2 = p x) :
    ∀ (ks : List Blk) (s : σ), (visitKeys f s ks).2 = ks.filter p
  | [], s => by simp [visitKeys]
  | k :: ks, s => by
    simp only [visitKeys, hp, visitKeys_pure f p hp ks, List.filter_cons]

/-- `Iterate` on a well-formed cache is the callback fold over the multimap in ascending order -/
theorem iterSimple_flat {σ : Type} (f : σ → Blk → σ × Bool) : ∀ (l : List Group) (s : σ), (blocksOf l).Nodup →
    (iterSimple f s l).1 = (visitKeys f s (blocksOf l)).1 ∧
    ∀ x, x ∈ blocksOf (iterSimple f s l).2 ↔ x ∈ blocksOf l ∧ x ∉ (visitKeys f s (blocksOf l)).2
  | [], s, _ => by simp [iterSimple, visitKeys]
  | g :: rest, s, hn => by
    rw [blocksOf_cons, List.nodup_append] at hn
    obtain ⟨_, hn2, hdisj⟩ := hn
    obtain ⟨ih1, ih2⟩ := iterSimple_flat f rest (visitKeys f s g.blocks).1 hn2
    simp only [iterSimple, blocksOf_cons, visitKeys_append]
    refine ⟨ih1, ?_⟩
    intro x
    simp only [List.mem_append, List.mem_filter, decide_eq_true_eq, ih2]
    constructor
    · rintro (⟨h1, h2⟩ | ⟨h1, h2⟩)
      · refine ⟨Or.inl h1, ?_⟩
        rintro (h | h)
        · exact h2 h
        · exact hdisj x h1 x (visitKeys_dels_subset f _ _ x h) rfl
      · refine ⟨Or.inr h1, ?_⟩
        rintro (h | h)
        · exact hdisj x (visitKeys_dels_subset f _ _ x h) x h1 rfl
        · exact h2 h
    · rintro ⟨h1 | h1, h2⟩
      · exact Or.inl ⟨h1, fun h => h2 (Or.inl h)⟩
      · exact Or.inr ⟨h1, fun h => h2 (Or.inr h)⟩

theorem blocksOf_nodup : ∀ (l : List Group), l.Pairwise (fun a b => a.height < b.height) →
    (∀ g ∈ l, ∀ b ∈ g.blocks, b.height = g.height) → (∀ g ∈ l, g.blocks.Nodup) → (blocksOf l).Nodup
  | [], _, _, _ => by simp
  | g :: rest, hs, hh, hn => by
    rw [List.pairwise_cons] at hs
    rw [blocksOf_cons, List.nodup_append]
    refine ⟨hn g (by simp), blocksOf_nodup rest hs.2 (fun e he => hh e (by simp [he])) (fun e he => hn e (by simp [he])), ?_⟩
    intro a ha b hb hab
    subst hab
    obtain ⟨e, he, hae⟩ := mem_blocksOf.mp hb
    have h1 := hh g (by simp) a ha
    have h2 := hh e (by simp [he]) a hae
    have h3 := hs.1 e he
    omega

theorem wf_blocksOf_nodup {c : BlockCache} (h : WF c) : (blocksOf c.cache).Nodup :=
  blocksOf_nodup c.cache h.sorted h.hts h.nodup

/-- all facts about `Iterate` on a well-formed cache in one statement -/
theorem iterate_wf {σ : Type} (f : σ → Blk → σ × Bool) (s : σ) (c : BlockCache) (hc : WF c) :
    WF (iterate f s c).2.1 ∧
    (iterate f s c).1 = (visitKeys f s (blocksOf c.cache)).1 ∧
    (∀ x, x ∈ blocksOf (iterate f s c).2.1.cache ↔
        x ∈ blocksOf c.cache ∧ x ∉ (visitKeys f s (blocksOf c.cache)).2) ∧
    (iterate f s c).2.2 = c.cache.map (fun g => (g.height, g.blocks)) := by
  obtain ⟨h1, h2, h3⟩ := iterate_simple f s c hc.gids
  obtain ⟨h4, h5⟩ := iterSimple_flat f c.cache s (wf_blocksOf_nodup hc)
  refine ⟨?_, by rw [h1, h4], ?_, h3⟩
  · rw [h2]; exact iterSimple_wf f c.cache s c.next hc
  · intro x; rw [h2]; exact h5 x


/-! ### Remove -/

theorem removeGo_nomatch (b : Blk) : ∀ (l : List Group) (D : List Nat), (∀ g ∈ l, g.height ≠ b.height) →
    removeGo b D l = (l, D)
  | [], D, _ => by simp [removeGo]
  | g :: rest, D, h => by
    have h1 : g.height ≠ b.height := h g (by simp)
    simp only [removeGo, h1, if_false]
    rw [removeGo_nomatch b rest D (fun e he => h e (by simp [he]))]

theorem removeGo_match (b : Blk) (g : Group) (rest : List Group) (hg : g.height = b.height)
    (hr : ∀ x ∈ rest, x.height ≠ b.height) : ∀ (pre : List Group) (D : List Nat),
    (∀ x ∈ pre, x.height ≠ b.height) →
    removeGo b D (pre ++ g :: rest) =
      (pre ++ (if (after b (g.gid :: D) g).blocks.isEmpty then rest else g :: rest), g.gid :: D)
  | [], D, _ => by
    simp only [List.nil_append, removeGo, hg, if_true]
    by_cases he : (after b (g.gid :: D) g).blocks.isEmpty = true
    · simp only [he, if_true]
      cases rest with
      | nil => rfl
      | cons y rest' =>
        simp only
        rw [removeGo_nomatch b rest' _ (fun e he => hr e (by simp [he]))]
    · simp only [he, if_false]
      rw [removeGo_nomatch b rest _ hr]
      simp
  | p :: pre, D, hp => by
    have h1 : p.height ≠ b.height := hp p (by simp)
    simp only [List.cons_append, removeGo, h1, if_false]
    rw [removeGo_match b g rest hg hr pre D (fun e he => hp e (by simp [he]))]

theorem after_nil (b : Blk) (l : List Group) : l.map (after b []) = l := by
  have : after b [] = id := by funext e; simp [after]
  rw [this]; simp

theorem after_single (b : Blk) (g : Nat) (l : List Group) :
    l.map (after b [g]) = l.map (fun e => if e.gid = g then { e with blocks := mapDel e.blocks b } else e) := by
  apply List.map_congr_left
  intro e _
  simp [after]

theorem not_mem_blocksOf_of_height {b : Blk} {l : List Group}
    (hh : ∀ g ∈ l, ∀ x ∈ g.blocks, x.height = g.height) (hne : ∀ g ∈ l, g.height ≠ b.height) :
    b ∉ blocksOf l := by
  intro hb
  obtain ⟨g, hg, hbg⟩ := mem_blocksOf.mp hb
  exact hne g hg (hh g hg b hbg).symm

theorem remove_refines (b : Blk) (c : BlockCache) (hc : WF c) :
    WF (remove b c) ∧ ∀ x, x ∈ blocksOf (remove b c).cache ↔ x ∈ blocksOf c.cache ∧ x ≠ b := by
  have hsame : (b ∉ blocksOf c.cache) → ∀ x, x ∈ blocksOf c.cache ↔ x ∈ blocksOf c.cache ∧ x ≠ b := by
    intro hb x
    constructor
    · intro hx; exact ⟨hx, fun h => hb (h ▸ hx)⟩
    · exact fun h => h.1
  unfold remove
  cases hcc : c.cache with
  | nil =>
    simp only
    refine ⟨hc, ?_⟩
    rw [hcc]; simp
  | cons f tl =>
    simp only
    by_cases hguard : (decide (f.height > b.height) || decide (lastHeight (f :: tl) < b.height)) = true
    · simp only [hguard, if_true]
      refine ⟨hc, ?_⟩
      rw [← hcc]
      apply hsame
      apply not_mem_blocksOf_of_height hc.hts
      intro g hg
      rw [hcc] at hg
      have hs := hc.sorted
      rw [hcc] at hs
      have h1 := first_le_of_sorted hs g hg
      have h2 := le_lastHeight (f :: tl) hs g hg
      simp only [Bool.or_eq_true, decide_eq_true_eq] at hguard
      omega
    · simp only [hguard]
      simp only [Bool.false_eq_true, if_false]
      rw [← hcc]
      by_cases hex : ∃ g ∈ c.cache, g.height = b.height
      · obtain ⟨g, hgm, hg⟩ := hex
        obtain ⟨pre, rest, he⟩ := List.append_of_mem hgm
        have hs := hc.sorted
        rw [he, List.pairwise_append, List.pairwise_cons] at hs
        have hpre : ∀ x ∈ pre, x.height ≠ b.height := by
          intro x hx; have := hs.2.2 x hx g (by simp); omega
        have hrest : ∀ x ∈ rest, x.height ≠ b.height := by
          intro x hx; have := hs.2.1.1 x hx; omega
        have hgo := removeGo_match b g rest hg hrest pre [] hpre
        have haft : after b [g.gid] g = { g with blocks := mapDel g.blocks b } := by simp [after]
        rw [he, hgo]
        simp only [haft]
        have hgids := hc.gids
        rw [he] at hgids
        have hw : WF { cache := pre ++ g :: rest, next := c.next } := by rw [← he]; exact hc
        by_cases hem : (mapDel g.blocks b).isEmpty = true
        · simp only [hem, if_true]
          have hg2 : (pre ++ rest).map (after b [g.gid]) = pre ++ rest := by
            rw [after_single]
            apply updGid_not_mem
            intro e hee
            rw [List.pairwise_append, List.pairwise_cons] at hgids
            rcases List.mem_append.mp hee with h | h
            · exact hgids.2.2 e h g (by simp)
            · exact fun hh => hgids.2.1.1 e h hh.symm
          rw [hg2]
          constructor
          · exact wf_sublist (by simp) hw
          · intro x
            simp only [blocksOf_append, blocksOf_cons, List.mem_append]
            have hall : ∀ y ∈ g.blocks, y = b := by
              intro y hy
              by_cases hne : y = b
              · exact hne
              · exfalso
                have : y ∈ mapDel g.blocks b := mem_mapDel.mpr ⟨hy, hne⟩
                rw [List.isEmpty_iff.mp hem] at this
                simp at this
            have hnb : ∀ e, e ∈ pre ∨ e ∈ rest → b ∉ e.blocks := by
              intro e hee hbe
              have h1 : b.height = e.height := hc.hts e (by rw [he]; rcases hee with h | h <;> simp [h]) b hbe
              rcases hee with h | h
              · exact hpre e h h1.symm
              · exact hrest e h h1.symm
            constructor
            · rintro (h | h)
              · refine ⟨Or.inl h, ?_⟩
                obtain ⟨e, hee, hxe⟩ := mem_blocksOf.mp h
                intro hxb; subst hxb; exact hnb e (Or.inl hee) hxe
              · refine ⟨Or.inr (Or.inr h), ?_⟩
                obtain ⟨e, hee, hxe⟩ := mem_blocksOf.mp h
                intro hxb; subst hxb; exact hnb e (Or.inr hee) hxe
            · rintro ⟨h | h | h, hne⟩
              · exact Or.inl h
              · exact absurd (hall x h) hne
              · exact Or.inr h
        · simp only [hem]
          simp only [Bool.false_eq_true, if_false]
          have hg2 : (pre ++ g :: rest).map (after b [g.gid]) = pre ++ { g with blocks := mapDel g.blocks b } :: rest := by
            rw [after_single]
            exact updGid_at (fun e => { e with blocks := mapDel e.blocks b }) pre g rest hgids
          rw [hg2]
          constructor
          · exact wf_replace pre rest g c.next _ hw c.next (Nat.le_refl _)
              (fun x hx => hc.hts g hgm x (mem_mapDel.mp hx).1) (nodup_mapDel (hc.nodup g hgm))
          · intro x
            simp only [blocksOf_append, blocksOf_cons, List.mem_append, mem_mapDel]
            have hnb : ∀ e, e ∈ pre ∨ e ∈ rest → b ∉ e.blocks := by
              intro e hee hbe
              have h1 : b.height = e.height := hc.hts e (by rw [he]; rcases hee with h | h <;> simp [h]) b hbe
              rcases hee with h | h
              · exact hpre e h h1.symm
              · exact hrest e h h1.symm
            constructor
            · rintro (h | ⟨h, hne⟩ | h)
              · refine ⟨Or.inl h, ?_⟩
                obtain ⟨e, hee, hxe⟩ := mem_blocksOf.mp h
                intro hxb; subst hxb; exact hnb e (Or.inl hee) hxe
              · exact ⟨Or.inr (Or.inl h), hne⟩
              · refine ⟨Or.inr (Or.inr h), ?_⟩
                obtain ⟨e, hee, hxe⟩ := mem_blocksOf.mp h
                intro hxb; subst hxb; exact hnb e (Or.inr hee) hxe
            · rintro ⟨h | h | h, hne⟩
              · exact Or.inl h
              · exact Or.inr (Or.inl ⟨h, hne⟩)
              · exact Or.inr (Or.inr h)
      · have hne : ∀ g ∈ c.cache, g.height ≠ b.height := fun g hg hh => hex ⟨g, hg, hh⟩
        rw [removeGo_nomatch b c.cache [] hne]
        simp only [after_nil]
        refine ⟨hc, hsame (not_mem_blocksOf_of_height hc.hts hne)⟩


/-! ### Iterate with pruning of the emptied entries (the code since commit 6f06589) -/

theorem blocksOf_filter_nonempty : ∀ (l : List Group),
    blocksOf (l.filter (fun e => !e.blocks.isEmpty)) = blocksOf l
  | [] => rfl
  | g :: l => by
    rw [List.filter_cons]
    cases hg : g.blocks with
    | nil => simp [hg, blocksOf_filter_nonempty l]
    | cons x xs => simp [hg, blocksOf_filter_nonempty l]

theorem pruneEmpty_wf (c : BlockCache) (h : WF c) : WF (pruneEmpty c) := by
  unfold pruneEmpty
  exact wf_sublist List.filter_sublist h

theorem mem_pruneEmpty_nonempty (c : BlockCache) : ∀ g ∈ (pruneEmpty c).cache, g.blocks ≠ [] := by
  intro g hg
  unfold pruneEmpty at hg
  have := (List.mem_filter.mp hg).2
  intro he
  simp [he] at this

/-- `iterate_wf` for both code variants, plus: no entry appears out of nowhere -/
theorem iterateP_wf {σ : Type} (prune : Bool) (f : σ → Blk → σ × Bool) (s : σ) (c : BlockCache) (hc : WF c) :
    WF (iterateP prune f s c).2.1 ∧
    (iterateP prune f s c).1 = (visitKeys f s (blocksOf c.cache)).1 ∧
    (∀ x, x ∈ blocksOf (iterateP prune f s c).2.1.cache ↔
        x ∈ blocksOf c.cache ∧ x ∉ (visitKeys f s (blocksOf c.cache)).2) ∧
    (iterateP prune f s c).2.2 = c.cache.map (fun g => (g.height, g.blocks)) ∧
    (∀ g ∈ (iterateP prune f s c).2.1.cache, ∃ g' ∈ c.cache, g'.height = g.height) ∧
    (prune = true → ∀ g ∈ (iterateP prune f s c).2.1.cache, g.blocks ≠ []) := by
  obtain ⟨h1, h2, h3, h4⟩ := iterate_wf f s c hc
  have hsrc : ∀ g ∈ (iterate f s c).2.1.cache, ∃ g' ∈ c.cache, g'.height = g.height := by
    obtain ⟨_, e2, _⟩ := iterate_simple f s c hc.gids
    rw [e2]
    intro g hg
    obtain ⟨e, he, _, eh, _⟩ := iterSimple_mem f c.cache s g hg
    exact ⟨e, he, eh.symm⟩
  unfold iterateP
  cases prune with
  | false =>
    simp only [Bool.false_eq_true, if_false]
    exact ⟨h1, h2, h3, h4, hsrc, fun h => by cases h⟩
  | true =>
    simp only [if_true]
    refine ⟨pruneEmpty_wf _ h1, h2, ?_, h4, ?_, fun _ => mem_pruneEmpty_nonempty _⟩
    · intro x
      unfold pruneEmpty
      simp only
      rw [blocksOf_filter_nonempty]
      exact h3 x
    · intro g hg
      unfold pruneEmpty at hg
      exact hsrc g (List.mem_filter.mp hg).1

/-! ### how long a sorted cache can be -/

theorem sorted_length_le : ∀ (l : List Group) (lo hi : Nat), l.Pairwise (fun a b => a.height < b.height) →
    (∀ g ∈ l, lo < g.height ∧ g.height ≤ hi) → l.length ≤ hi - lo
  | [], _, _, _, _ => by simp
  | g :: tl, lo, hi, hs, hr => by
    rw [List.pairwise_cons] at hs
    have hg := hr g (by simp)
    have ih := sorted_length_le tl g.height hi hs.2 (fun e he => ⟨hs.1 e he, (hr e (by simp [he])).2⟩)
    simp only [List.length_cons]
    omega

/-- the heights of the entries after `Add`: the old ones and the block's -/
theorem addWith_heights (mid : Nat → Group → List Group → List Group) (b : Blk) (c : BlockCache)
    (hs : c.cache.Pairwise (fun a b => a.height < b.height)) (hmid : MidOk mid b c) :
    ∀ g ∈ (addWith mid b c).cache, g.height = b.height ∨ ∃ g' ∈ c.cache, g'.height = g.height := by
  intro g hg
  rcases addWith_shape mid b c hs hmid with ⟨pre, rest, he, _, _, hres⟩ | ⟨pre, g0, rest, he, _, hres⟩
  · rw [hres] at hg
    rcases List.mem_append.mp hg with h | h
    · exact Or.inr ⟨g, by rw [he]; simp [h], rfl⟩
    · rcases List.mem_cons.mp h with rfl | h
      · exact Or.inl rfl
      · exact Or.inr ⟨g, by rw [he]; simp [h], rfl⟩
  · rw [hres] at hg
    unfold putIn at hg
    obtain ⟨e, hee, rfl⟩ := List.mem_map.mp hg
    right
    refine ⟨e, hee, ?_⟩
    split <;> rfl


/-! ### no emptied entry survives (the code since commit 6f06589) -/

def NoEmpty (l : List Group) : Prop := ∀ g ∈ l, g.blocks ≠ []

theorem remove_shape (b : Blk) (c : BlockCache) (hc : WF c) :
    (remove b c).cache = c.cache ∨
    ∃ pre g rest, c.cache = pre ++ g :: rest ∧ g.height = b.height ∧
      (((mapDel g.blocks b).isEmpty = true ∧ (remove b c).cache = pre ++ rest) ∨
       ((mapDel g.blocks b).isEmpty = false ∧
          (remove b c).cache = pre ++ { g with blocks := mapDel g.blocks b } :: rest)) := by
  unfold remove
  cases hcc : c.cache with
  | nil => left; simp [hcc]
  | cons f tl =>
    simp only
    by_cases hguard : (decide (f.height > b.height) || decide (lastHeight (f :: tl) < b.height)) = true
    · left; simp only [hguard, if_true]; exact hcc
    · simp only [hguard]
      simp only [Bool.false_eq_true, if_false]
      rw [← hcc]
      by_cases hex : ∃ g ∈ c.cache, g.height = b.height
      · right
        obtain ⟨g, hgm, hg⟩ := hex
        obtain ⟨pre, rest, he⟩ := List.append_of_mem hgm
        have hs := hc.sorted
        rw [he, List.pairwise_append, List.pairwise_cons] at hs
        have hpre : ∀ x ∈ pre, x.height ≠ b.height := by
          intro x hx; have := hs.2.2 x hx g (by simp); omega
        have hrest : ∀ x ∈ rest, x.height ≠ b.height := by
          intro x hx; have := hs.2.1.1 x hx; omega
        have hgo := removeGo_match b g rest hg hrest pre [] hpre
        have haft : after b [g.gid] g = { g with blocks := mapDel g.blocks b } := by simp [after]
        have hgids := hc.gids
        rw [he] at hgids
        refine ⟨pre, g, rest, he, hg, ?_⟩
        rw [he, hgo]
        simp only [haft]
        by_cases hem : (mapDel g.blocks b).isEmpty = true
        · left
          simp only [hem, if_true]
          refine ⟨trivial, ?_⟩
          rw [after_single]
          apply updGid_not_mem
          intro e hee
          rw [List.pairwise_append, List.pairwise_cons] at hgids
          rcases List.mem_append.mp hee with h | h
          · exact hgids.2.2 e h g (by simp)
          · exact fun hh => hgids.2.1.1 e h hh.symm
        · right
          have hem' : (mapDel g.blocks b).isEmpty = false := by simpa using hem
          simp only [hem', Bool.false_eq_true, if_false]
          refine ⟨trivial, ?_⟩
          rw [after_single]
          exact updGid_at (fun e => { e with blocks := mapDel e.blocks b }) pre g rest hgids
      · left
        have hne : ∀ g ∈ c.cache, g.height ≠ b.height := fun g hg hh => hex ⟨g, hg, hh⟩
        rw [removeGo_nomatch b c.cache [] hne]
        simp only [after_nil]

theorem remove_noEmpty (b : Blk) (c : BlockCache) (hc : WF c) (hn : NoEmpty c.cache) :
    NoEmpty (remove b c).cache := by
  rcases remove_shape b c hc with e | ⟨pre, g, rest, he, _, ⟨_, e⟩ | ⟨hne, e⟩⟩
  · rw [e]; exact hn
  · rw [e]
    intro x hx
    apply hn x
    rw [he]
    rcases List.mem_append.mp hx with h | h <;> simp [h]
  · rw [e]
    intro x hx
    rcases List.mem_append.mp hx with h | h
    · exact hn x (by rw [he]; simp [h])
    · rcases List.mem_cons.mp h with rfl | h
      · intro hh
        simp only at hh
        rw [hh] at hne
        simp at hne
      · exact hn x (by rw [he]; simp [h])

theorem addWith_noEmpty (mid : Nat → Group → List Group → List Group) (b : Blk) (c : BlockCache)
    (hs : c.cache.Pairwise (fun a b => a.height < b.height)) (hmid : MidOk mid b c) (hn : NoEmpty c.cache) :
    NoEmpty (addWith mid b c).cache := by
  rcases addWith_shape mid b c hs hmid with ⟨pre, rest, he, _, _, hres⟩ | ⟨pre, g0, rest, he, _, hres⟩
  · rw [hres]
    intro x hx
    rcases List.mem_append.mp hx with h | h
    · exact hn x (by rw [he]; simp [h])
    · rcases List.mem_cons.mp h with rfl | h
      · simp [newGroup]
      · exact hn x (by rw [he]; simp [h])
  · rw [hres]
    intro x hx
    unfold putIn at hx
    obtain ⟨e, hee, rfl⟩ := List.mem_map.mp hx
    split
    · intro hh
      have : b ∈ mapPut e.blocks b := mem_mapPut.mpr (Or.inl rfl)
      simp only at hh
      rw [hh] at this
      simp at this
    · exact hn e hee

theorem clear_noEmpty (h : Nat) (c : BlockCache) (hn : NoEmpty c.cache) : NoEmpty (clear h c).cache := by
  unfold clear
  intro g hg
  exact hn g ((List.dropWhile_sublist _).subset hg)

/-- without emptied entries `FirstHeight` is the lowest cached height (0 for an empty cache) -/
theorem firstHeight_min (c : BlockCache) (hc : WF c) (hn : NoEmpty c.cache) :
    (blocksOf c.cache = [] ∧ firstHeight c = 0) ∨
    ((∃ b ∈ blocksOf c.cache, b.height = firstHeight c) ∧ ∀ x ∈ blocksOf c.cache, firstHeight c ≤ x.height) := by
  unfold firstHeight
  cases hcc : c.cache with
  | nil => left; simp
  | cons g tl =>
    right
    simp only
    have hg : g ∈ c.cache := by rw [hcc]; simp
    constructor
    · cases hb : g.blocks with
      | nil => exact absurd hb (hn g hg)
      | cons b bs =>
        refine ⟨b, ?_, hc.hts g hg b (by rw [hb]; simp)⟩
        rw [blocksOf_cons, hb]; simp
    · intro x hx
      rw [← hcc] at hx
      obtain ⟨e, he, hxe⟩ := mem_blocksOf.mp hx
      have h1 := hc.hts e he x hxe
      have hs := hc.sorted
      rw [hcc] at hs he
      have := first_le_of_sorted hs e he
      omega

end LemoProofs.SyncLemmas

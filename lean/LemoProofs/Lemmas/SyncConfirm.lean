/-
  C20 — the confirm cache (association lists) and the confirmations the chain ends up with.
-/
import LemoModel.Sync
import LemoProofs.Lemmas.Sync
import LemoProofs.Lemmas.SyncLoop
namespace LemoProofs.SyncConfirm
open LemoModel.Sync LemoProofs.SyncLemmas LemoProofs.SyncLoop

/-! ### association lists -/

theorem alGet_alSet_self {β : Type} (k : Nat) (v : β) : ∀ l : List (Nat × β), alGet k (alSet k v l) = some v
  | [] => by simp [alSet, alGet]
  | (k', v') :: l => by
    by_cases h : k' = k
    · simp [alSet, alGet, h]
    · simp [alSet, alGet, h, alGet_alSet_self k v l]

theorem alGet_alSet_ne {β : Type} (k k' : Nat) (v : β) (hne : k' ≠ k) :
    ∀ l : List (Nat × β), alGet k' (alSet k v l) = alGet k' l
  | [] => by simp [alSet, alGet, hne.symm]
  | (k2, v2) :: l => by
    by_cases h : k2 = k
    · subst h
      simp [alSet, alGet, hne.symm]
    · by_cases h2 : k2 = k'
      · subst h2
        simp [alSet, alGet, h]
      · simp [alSet, alGet, h, h2, alGet_alSet_ne k k' v hne l]

theorem alGet_alDel_self {β : Type} (k : Nat) : ∀ l : List (Nat × β), alGet k (alDel k l) = none
  | [] => by simp [alDel, alGet]
  | (k', v') :: l => by
    by_cases h : k' = k
    · simp [alDel, h, alGet_alDel_self k l]
    · simp [alDel, alGet, h, alGet_alDel_self k l]

theorem alGet_alDel_ne {β : Type} (k k' : Nat) (hne : k' ≠ k) :
    ∀ l : List (Nat × β), alGet k' (alDel k l) = alGet k' l
  | [] => by simp [alDel, alGet]
  | (k2, v2) :: l => by
    by_cases h : k2 = k
    · subst h
      simp [alDel, alGet, hne.symm, alGet_alDel_ne k2 k' hne l]
    · by_cases h2 : k2 = k'
      · subst h2
        simp [alDel, alGet, h]
      · simp [alDel, alGet, h, h2, alGet_alDel_ne k k' hne l]

theorem alGet_some_mem_keys {β : Type} (k : Nat) (v : β) : ∀ l : List (Nat × β), alGet k l = some v → k ∈ l.map (·.1)
  | [], h => by simp [alGet] at h
  | (k', v') :: l, h => by
    by_cases e : k' = k
    · simp [e]
    · simp only [alGet, e, if_false] at h
      simp [alGet_some_mem_keys k v l h]

/-- keys after `alSet`: unchanged if the key was there, else one more at the end -/
theorem keys_alSet {β : Type} (k : Nat) (v : β) : ∀ l : List (Nat × β),
    (alSet k v l).map (·.1) = if k ∈ l.map (·.1) then l.map (·.1) else l.map (·.1) ++ [k]
  | [] => by simp [alSet]
  | (k', v') :: l => by
    by_cases h : k' = k
    · simp [alSet, h]
    · have ih := keys_alSet k v l
      have hne : ¬ k = k' := fun e => h e.symm
      simp only [alSet, h, if_false, List.map_cons, List.mem_cons, hne, false_or, ih]
      split <;> simp

theorem alGet_filter_gt {β : Type} (h k : Nat) : ∀ l : List (Nat × β),
    alGet k (l.filter (fun e => !(decide (e.1 ≤ h)))) = if k ≤ h then none else alGet k l
  | [] => by simp [alGet]
  | (k', v') :: l => by
    have ih := alGet_filter_gt h k l
    by_cases hk' : k' ≤ h
    · have : (!(decide (k' ≤ h))) = false := by simp [hk']
      rw [List.filter_cons]
      simp only [this, Bool.false_eq_true, if_false, ih]
      by_cases hk : k ≤ h
      · simp [hk]
      · have : k' ≠ k := by omega
        simp [hk, alGet, this]
    · have : (!(decide (k' ≤ h))) = true := by simp [hk']
      rw [List.filter_cons]
      simp only [this, if_true, alGet, ih]
      by_cases e : k' = k
      · subst e; simp [hk']
      · simp [e]

/-! ### the confirm cache -/

/-- `d` is stored (under its own height and hash) -/
def ccMem (d : Confirm) (c : ConfirmCache) : Prop :=
  ∃ hm l, alGet d.height c = some hm ∧ alGet d.hash hm = some l ∧ d ∈ l

/-- every stored confirm sits under its own keys -/
def KeyOK (c : ConfirmCache) : Prop :=
  ∀ h hm k l d, alGet h c = some hm → alGet k hm = some l → d ∈ l → d.height = h ∧ d.hash = k

theorem keyOK_nil : KeyOK [] := by intro h hm k l d h1; simp [alGet] at h1

theorem ccMem_push (d d' : Confirm) (c : ConfirmCache) : ccMem d' (ccPush d c) ↔ d' = d ∨ ccMem d' c := by
  unfold ccMem ccPush
  by_cases hh : d'.height = d.height
  · rw [hh, alGet_alSet_self]
    by_cases hk : d'.hash = d.hash
    · rw [hk]
      constructor
      · rintro ⟨hm, l, e1, e2, e3⟩
        cases e1
        rw [alGet_alSet_self] at e2
        cases e2
        rcases List.mem_append.mp e3 with h | h
        · right
          cases hg : alGet d.height c with
          | none => simp [hg, alGet] at h
          | some hm0 =>
            simp only [hg, Option.getD_some] at h
            cases hl : alGet d.hash hm0 with
            | none => simp [hl] at h
            | some l0 =>
              simp only [hl, Option.getD_some] at h
              exact ⟨hm0, l0, rfl, hl, h⟩
        · left; simpa using h
      · rintro (rfl | ⟨hm, l, e1, e2, e3⟩)
        · exact ⟨_, _, rfl, alGet_alSet_self _ _ _, by simp⟩
        · refine ⟨_, _, rfl, alGet_alSet_self _ _ _, ?_⟩
          simp only [e1, Option.getD_some, e2]
          exact List.mem_append_left _ e3
    · constructor
      · rintro ⟨hm, l, e1, e2, e3⟩
        cases e1
        rw [alGet_alSet_ne _ _ _ hk] at e2
        right
        cases hg : alGet d.height c with
        | none => simp [hg, alGet] at e2
        | some hm0 =>
          simp only [hg, Option.getD_some] at e2
          exact ⟨hm0, l, rfl, e2, e3⟩
      · rintro (rfl | ⟨hm, l, e1, e2, e3⟩)
        · exact absurd rfl hk
        · refine ⟨_, l, rfl, ?_, e3⟩
          rw [alGet_alSet_ne _ _ _ hk]
          simp only [e1, Option.getD_some, e2]
  · rw [alGet_alSet_ne _ _ _ hh]
    constructor
    · rintro ⟨hm, l, e1, e2, e3⟩
      exact Or.inr ⟨hm, l, e1, e2, e3⟩
    · rintro (rfl | h)
      · exact absurd rfl hh
      · exact h

theorem keyOK_push (d : Confirm) (c : ConfirmCache) (hc : KeyOK c) : KeyOK (ccPush d c) := by
  intro h hm k l x h1 h2 h3
  unfold ccPush at h1
  by_cases hh : h = d.height
  · subst hh
    rw [alGet_alSet_self] at h1
    cases h1
    by_cases hk : k = d.hash
    · subst hk
      rw [alGet_alSet_self] at h2
      cases h2
      rcases List.mem_append.mp h3 with h3 | h3
      · cases hg : alGet d.height c with
        | none => simp [hg, alGet] at h3
        | some hm0 =>
          simp only [hg, Option.getD_some] at h3
          cases hl : alGet d.hash hm0 with
          | none => simp [hl] at h3
          | some l0 =>
            simp only [hl, Option.getD_some] at h3
            exact hc _ _ _ _ _ hg hl h3
      · simp at h3; subst h3; exact ⟨rfl, rfl⟩
    · rw [alGet_alSet_ne _ _ _ hk] at h2
      cases hg : alGet d.height c with
      | none => simp [hg, alGet] at h2
      | some hm0 =>
        simp only [hg, Option.getD_some] at h2
        exact hc _ _ _ _ _ hg h2 h3
  · rw [alGet_alSet_ne _ _ _ hh] at h1
    exact hc _ _ _ _ _ h1 h2 h3

/-- `Pop(h, k)` returns exactly the stored confirms of that block and leaves the others -/
theorem ccPop_spec (h k : Nat) (c : ConfirmCache) (hc : KeyOK c) :
    (∀ d, d ∈ (ccPop h k c).1 ↔ ccMem d c ∧ d.height = h ∧ d.hash = k) ∧
    (∀ d, ccMem d (ccPop h k c).2 ↔ ccMem d c ∧ ¬ (d.height = h ∧ d.hash = k)) ∧
    KeyOK (ccPop h k c).2 ∧
    (ccPop h k c).2.map (·.1) = c.map (·.1) := by
  unfold ccPop
  cases hg : alGet h c with
  | none =>
    simp only
    refine ⟨?_, ?_, hc, trivial⟩
    · intro d
      constructor
      · intro hd; simp at hd
      · rintro ⟨⟨hm, l, e1, _, _⟩, e4, _⟩
        rw [e4, hg] at e1; cases e1
    · intro d
      constructor
      · intro hd
        refine ⟨hd, ?_⟩
        rintro ⟨e4, _⟩
        obtain ⟨hm, l, e1, _, _⟩ := hd
        rw [e4, hg] at e1; cases e1
      · exact fun hd => hd.1
  | some hm =>
    simp only
    cases hl : alGet k hm with
    | none =>
      simp only
      refine ⟨?_, ?_, hc, trivial⟩
      · intro d
        constructor
        · intro hd; simp at hd
        · rintro ⟨⟨hm', l, e1, e2, _⟩, e4, e5⟩
          rw [e4, hg] at e1; cases e1
          rw [e5, hl] at e2; cases e2
      · intro d
        constructor
        · intro hd
          refine ⟨hd, ?_⟩
          rintro ⟨e4, e5⟩
          obtain ⟨hm', l, e1, e2, _⟩ := hd
          rw [e4, hg] at e1; cases e1
          rw [e5, hl] at e2; cases e2
        · exact fun hd => hd.1
    | some l =>
      simp only
      refine ⟨?_, ?_, ?_, ?_⟩
      · intro d
        constructor
        · intro hd
          obtain ⟨e1, e2⟩ := hc h hm k l d hg hl hd
          exact ⟨⟨hm, l, by rw [e1]; exact hg, by rw [e2]; exact hl, hd⟩, e1, e2⟩
        · rintro ⟨⟨hm', l', e1, e2, e3⟩, e4, e5⟩
          rw [e4, hg] at e1; cases e1
          rw [e5, hl] at e2; cases e2
          exact e3
      · intro d
        unfold ccMem
        by_cases hh : d.height = h
        · rw [hh, alGet_alSet_self]
          by_cases hk : d.hash = k
          · rw [hk]
            constructor
            · rintro ⟨hm', l', e1, e2, _⟩
              cases e1
              rw [alGet_alDel_self] at e2; cases e2
            · rintro ⟨_, hn⟩
              exact absurd ⟨rfl, rfl⟩ hn
          · constructor
            · rintro ⟨hm', l', e1, e2, e3⟩
              cases e1
              rw [alGet_alDel_ne _ _ hk] at e2
              exact ⟨⟨hm, l', hg, e2, e3⟩, fun hn => hk hn.2⟩
            · rintro ⟨⟨hm', l', e1, e2, e3⟩, _⟩
              rw [hg] at e1; cases e1
              exact ⟨_, l', rfl, by rw [alGet_alDel_ne _ _ hk]; exact e2, e3⟩
        · rw [alGet_alSet_ne _ _ _ hh]
          constructor
          · rintro ⟨hm', l', e1, e2, e3⟩
            exact ⟨⟨hm', l', e1, e2, e3⟩, fun hn => hh hn.1⟩
          · exact fun hd => hd.1
      · intro h' hm' k' l' x h1 h2 h3
        by_cases hh : h' = h
        · subst hh
          rw [alGet_alSet_self] at h1
          cases h1
          by_cases hk : k' = k
          · subst hk
            rw [alGet_alDel_self] at h2; cases h2
          · rw [alGet_alDel_ne _ _ hk] at h2
            exact hc _ _ _ _ _ hg h2 h3
        · rw [alGet_alSet_ne _ _ _ hh] at h1
          exact hc _ _ _ _ _ h1 h2 h3
      · rw [keys_alSet]
        simp [alGet_some_mem_keys h hm c hg]

theorem ccMem_clear (h : Nat) (d : Confirm) (c : ConfirmCache) :
    ccMem d (ccClear h c) ↔ ccMem d c ∧ h < d.height := by
  unfold ccMem ccClear
  rw [alGet_filter_gt]
  by_cases hd : d.height ≤ h
  · simp only [hd, if_true]
    constructor
    · rintro ⟨hm, l, e1, _, _⟩; cases e1
    · rintro ⟨_, hlt⟩; omega
  · simp only [hd, if_false]
    constructor
    · intro hx; exact ⟨hx, by omega⟩
    · exact fun hx => hx.1

theorem keyOK_clear (h : Nat) (c : ConfirmCache) (hc : KeyOK c) : KeyOK (ccClear h c) := by
  intro h' hm k l x h1 h2 h3
  unfold ccClear at h1
  rw [alGet_filter_gt] at h1
  by_cases hd : h' ≤ h
  · simp [hd] at h1
  · simp only [hd, if_false] at h1
    exact hc _ _ _ _ _ h1 h2 h3


/-! ### counting -/

theorem length_filter_ne_lt (x : Nat) : ∀ l : List Nat, x ∈ l →
    (l.filter (fun y => decide (y ≠ x))).length < l.length
  | [], h => by simp at h
  | y :: l, h => by
    rw [List.filter_cons]
    by_cases e : y = x
    · subst e
      simp only [ne_eq, not_true_eq_false, decide_false, Bool.false_eq_true, if_false, List.length_cons]
      have := List.length_filter_le (fun z => decide (¬ z = y)) l
      omega
    · have hx : x ∈ l := by
        rcases List.mem_cons.mp h with h | h
        · exact absurd h.symm e
        · exact h
      have ih := length_filter_ne_lt x l hx
      simp only [ne_eq, e, not_false_eq_true, decide_true, if_true, List.length_cons]
      simp only [ne_eq] at ih
      omega

theorem nodup_subset_length_le : ∀ (a b : List Nat), a.Nodup → (∀ x ∈ a, x ∈ b) → a.length ≤ b.length
  | [], _, _, _ => Nat.zero_le _
  | x :: a', b, hn, hs => by
    rw [List.nodup_cons] at hn
    have hx : x ∈ b := hs x (by simp)
    have ih := nodup_subset_length_le a' (b.filter (fun y => decide (y ≠ x))) hn.2 (by
      intro y hy
      rw [List.mem_filter]
      refine ⟨hs y (by simp [hy]), ?_⟩
      have : y ≠ x := fun e => hn.1 (e ▸ hy)
      simpa using this)
    have := length_filter_ne_lt x b hx
    simp only [List.length_cons]
    omega

theorem mem_dedupN (x : Nat) : ∀ l : List Nat, x ∈ dedupN l ↔ x ∈ l
  | [] => by simp [dedupN]
  | y :: l => by
    unfold dedupN
    by_cases h : y ∈ l
    · simp only [h, if_true, mem_dedupN x l, List.mem_cons]
      constructor
      · exact Or.inr
      · rintro (rfl | hx)
        · exact h
        · exact hx
    · simp only [h, if_false, List.mem_cons, mem_dedupN x l]

theorem nodup_dedupN : ∀ l : List Nat, (dedupN l).Nodup
  | [] => by simp [dedupN]
  | y :: l => by
    unfold dedupN
    by_cases h : y ∈ l
    · simp only [h, if_true]; exact nodup_dedupN l
    · simp only [h, if_false]
      rw [List.nodup_cons]
      exact ⟨fun hy => h ((mem_dedupN y l).mp hy), nodup_dedupN l⟩

theorem dedupN_length_congr (l1 l2 : List Nat) (h : ∀ x, x ∈ l1 ↔ x ∈ l2) :
    (dedupN l1).length = (dedupN l2).length := by
  apply Nat.le_antisymm
  · exact nodup_subset_length_le _ _ (nodup_dedupN l1)
      (fun x hx => (mem_dedupN x l2).mpr ((h x).mp ((mem_dedupN x l1).mp hx)))
  · exact nodup_subset_length_le _ _ (nodup_dedupN l2)
      (fun x hx => (mem_dedupN x l1).mpr ((h x).mpr ((mem_dedupN x l2).mp hx)))

theorem sigCount_congr (a1 a2 : List (Nat × Nat)) (h : ∀ p, p ∈ a1 ↔ p ∈ a2) (hash : Nat) :
    sigCount a1 hash = sigCount a2 hash := by
  unfold sigCount
  apply dedupN_length_congr
  intro x
  simp only [List.mem_map, List.mem_filter]
  constructor
  · rintro ⟨p, ⟨hp, hph⟩, rfl⟩; exact ⟨p, ⟨(h p).mp hp, hph⟩, rfl⟩
  · rintro ⟨p, ⟨hp, hph⟩, rfl⟩; exact ⟨p, ⟨(h p).mpr hp, hph⟩, rfl⟩

theorem maxL_congr (l1 l2 : List Nat) (h : ∀ x, x ∈ l1 ↔ x ∈ l2) : maxL l1 = maxL l2 := by
  apply Nat.le_antisymm
  · exact maxL_le l1 _ (fun x hx => le_maxL l2 x ((h x).mp hx))
  · exact maxL_le l2 _ (fun x hx => le_maxL l1 x ((h x).mpr hx))

/-- the stable height only depends on WHICH blocks are known and WHICH confirmations are attached -/
theorem stableHeight_congr (q : Nat) (c1 c2 : Chain) (hk : ∀ x, x ∈ c1.known ↔ x ∈ c2.known)
    (ha : ∀ p, p ∈ c1.attached ↔ p ∈ c2.attached) : stableHeight q c1 = stableHeight q c2 := by
  unfold stableHeight
  apply maxL_congr
  intro h
  simp only [List.mem_map, List.mem_filter, decide_eq_true_eq]
  constructor
  · rintro ⟨x, ⟨hx, hq⟩, rfl⟩
    exact ⟨x, ⟨(hk x).mp hx, by rw [← sigCount_congr _ _ ha]; exact hq⟩, rfl⟩
  · rintro ⟨x, ⟨hx, hq⟩, rfl⟩
    exact ⟨x, ⟨(hk x).mpr hx, by rw [sigCount_congr _ _ ha]; exact hq⟩, rfl⟩

theorem keys_length_le (base n : Nat) (ks : List Nat) (hn : ks.Nodup)
    (hr : ∀ h ∈ ks, base < h ∧ h ≤ base + n) : ks.length ≤ n := by
  have := nodup_subset_length_le ks (List.range' (base + 1) n) hn (by
    intro x hx
    have := hr x hx
    rw [List.mem_range'_1]
    omega)
  simpa using this


/-! ### the confirmations of a segment -/

/-- a confirmation for a block of the segment -/
def VC (base n : Nat) (d : Confirm) : Prop := ∃ k, 1 ≤ k ∧ k ≤ n ∧ d.hash = k ∧ d.height = base + k

/-- `D` = the confirmations delivered so far.  Each of them is attached to its block if the block is in the
    chain, and waits in the confirm cache otherwise; nothing else is attached or cached. -/
structure CI (base n : Nat) (D : List Confirm) (nd : Node) : Prop where
  keyok : KeyOK nd.cc
  att_sound : ∀ p ∈ nd.chain.attached, ∃ d ∈ D, d.hash = p.1 ∧ d.sig = p.2
  att_complete : ∀ d ∈ D, seg base d.hash ∈ nd.chain.known → (d.hash, d.sig) ∈ nd.chain.attached
  pending : ∀ d ∈ D, seg base d.hash ∉ nd.chain.known → ccMem d nd.cc
  cc_sound : ∀ d, ccMem d nd.cc → d ∈ D ∧ seg base d.hash ∉ nd.chain.known
  keys_nodup : (nd.cc.map (·.1)).Nodup
  keys_range : ∀ h ∈ nd.cc.map (·.1), base < h ∧ h ≤ base + n
  dvalid : ∀ d ∈ D, VC base n d

theorem ci_congr {base n : Nat} {D : List Confirm} {a b : Node} (h1 : b.chain = a.chain) (h2 : b.cc = a.cc)
    (h : CI base n D a) : CI base n D b := by
  obtain ⟨a1, a2, a3, a4, a5, a6, a7, a8⟩ := h
  exact ⟨by rw [h2]; exact a1, by rw [h1]; exact a2, by rw [h1]; exact a3, by rw [h1, h2]; exact a4,
    by rw [h1, h2]; exact a5, by rw [h2]; exact a6, by rw [h2]; exact a7, a8⟩

theorem ci_perm {base n : Nat} {D D' : List Confirm} {nd : Node} (hd : ∀ d, d ∈ D ↔ d ∈ D')
    (h : CI base n D nd) : CI base n D' nd := by
  obtain ⟨a1, a2, a3, a4, a5, a6, a7, a8⟩ := h
  refine ⟨a1, ?_, ?_, ?_, ?_, a6, a7, ?_⟩
  · intro p hp
    obtain ⟨d, hdD, e⟩ := a2 p hp
    exact ⟨d, (hd d).mp hdD, e⟩
  · exact fun d hdD => a3 d ((hd d).mpr hdD)
  · exact fun d hdD => a4 d ((hd d).mpr hdD)
  · intro d hm
    obtain ⟨h1, h2⟩ := a5 d hm
    exact ⟨(hd d).mp h1, h2⟩
  · exact fun d hdD => a8 d ((hd d).mpr hdD)

theorem insertBlock_some_eq (ch ch' : Chain) (b : Blk) (sigs : List Nat) (h : insertBlock ch b sigs = some ch') :
    ch' = { known := b :: ch.known, attached := ch.attached ++ sigs.map (fun s => (b.hash, s)) } := by
  unfold insertBlock at h
  split at h
  · injection h with h; exact h.symm
  · cases h

/-- `pm.insertBlock` keeps the confirmation invariant: the early confirmations of the block move from the
    cache to the chain exactly when the block enters the chain -/
theorem pmInsert_ci {base n : Nat} (D : List Confirm) (nd : Node) (hc : CInv base n nd.chain)
    (hci : CI base n D nd) (k : Nat) (hk1 : 1 ≤ k) (hkn : k ≤ n) (hp : seg base (k - 1) ∈ nd.chain.known) :
    CI base n D (pmInsert nd (seg base k)).1 := by
  obtain ⟨q1, q2, q3, q4⟩ := ccPop_spec (seg base k).height (seg base k).hash nd.cc hci.keyok
  obtain ⟨r1, r2, r3, r4⟩ := ccPop_spec (seg base k).height (seg base k).hash
    (ccPop (seg base k).height (seg base k).hash nd.cc).2 q3
  have hp2 : ∀ d, d ∉ (ccPop (seg base k).height (seg base k).hash
      (ccPop (seg base k).height (seg base k).hash nd.cc).2).1 := by
    intro d hd
    obtain ⟨h1, h2⟩ := (r1 d).mp hd
    exact ((q2 d).mp h1).2 h2
  have hmem2 : ∀ d, ccMem d (ccPop (seg base k).height (seg base k).hash
      (ccPop (seg base k).height (seg base k).hash nd.cc).2).2 ↔
      ccMem d nd.cc ∧ ¬ (d.height = (seg base k).height ∧ d.hash = (seg base k).hash) := by
    intro d
    rw [r2 d, q2 d]
    constructor
    · exact fun h => h.1
    · exact fun h => ⟨h, h.2⟩
  have hhash : (seg base k).hash = k := rfl
  have hheight : (seg base k).height = base + k := rfl
  unfold pmInsert pmInsertG
  simp only [List.foldl_nil]
  rcases insertBlock_seg hc k hk1 hkn hp (((ccPop (seg base k).height (seg base k).hash nd.cc).1).map (·.sig)) with
    ⟨ch', he, _, hnk, _⟩ | ⟨he, hin⟩
  · have hch := insertBlock_some_eq _ _ _ _ he
    simp only [he, if_true]
    subst hch
    refine ⟨r3, ?_, ?_, ?_, ?_, by rw [r4, q4]; exact hci.keys_nodup, by rw [r4, q4]; exact hci.keys_range, hci.dvalid⟩
    · intro p hpm
      simp only [List.mem_append, List.mem_map] at hpm
      rcases hpm with (hpm | ⟨s, ⟨d, hd, rfl⟩, rfl⟩) | ⟨d, hd, _⟩
      · exact hci.att_sound p hpm
      · obtain ⟨hm, _, hk⟩ := (q1 d).mp hd
        exact ⟨d, (hci.cc_sound d hm).1, hk, rfl⟩
      · exact absurd hd (hp2 d)
    · intro d hd hkn'
      simp only [List.mem_append, List.mem_map]
      rcases List.mem_cons.mp hkn' with e | hold
      · have ek : d.hash = k := seg_inj e
        have hnot : seg base d.hash ∉ nd.chain.known := by rw [ek]; exact hnk
        have hm := hci.pending d hd hnot
        obtain ⟨k', _, _, e1, e2⟩ := hci.dvalid d hd
        have : d ∈ (ccPop (seg base k).height (seg base k).hash nd.cc).1 :=
          (q1 d).mpr ⟨hm, by rw [hheight, e2, ← e1, ek], by rw [hhash, ek]⟩
        left; right
        exact ⟨d.sig, ⟨d, this, rfl⟩, by rw [hhash, ek]⟩
      · left; left; exact hci.att_complete d hd hold
    · intro d hd hnot
      have hnot' : seg base d.hash ∉ nd.chain.known := fun h => hnot (List.mem_cons_of_mem _ h)
      have hne : d.hash ≠ k := by
        intro e
        apply hnot
        rw [e]; simp
      exact (hmem2 d).mpr ⟨hci.pending d hd hnot', fun h => hne (by rw [← hhash]; exact h.2)⟩
    · intro d hm
      obtain ⟨hm1, hnk2⟩ := (hmem2 d).mp hm
      obtain ⟨hdD, hnot⟩ := hci.cc_sound d hm1
      refine ⟨hdD, ?_⟩
      intro hkn'
      rcases List.mem_cons.mp hkn' with e | hold
      · have ek : d.hash = k := seg_inj e
        obtain ⟨k', _, _, e1, e2⟩ := hci.dvalid d hdD
        exact hnk2 ⟨by rw [hheight, e2, ← e1, ek], by rw [hhash, ek]⟩
      · exact hnot hold
  · have hb : hasBlock nd.chain (seg base k).hash = true := (hasBlock_iff hc k).mpr hin
    simp only [he, hb, Bool.and_self, if_true]
    -- nothing is cached for a block that is in the chain
    have hnone : ∀ d, ccMem d nd.cc → ¬ (d.height = (seg base k).height ∧ d.hash = (seg base k).hash) := by
      intro d hm hk
      have := (hci.cc_sound d hm).2
      rw [hk.2, hhash] at this
      exact this hin
    refine ⟨r3, ?_, ?_, ?_, ?_, by rw [r4, q4]; exact hci.keys_nodup, by rw [r4, q4]; exact hci.keys_range, hci.dvalid⟩
    · intro p hpm
      simp only [List.mem_append, List.mem_map] at hpm
      rcases hpm with hpm | ⟨d, hd, _⟩
      · exact hci.att_sound p hpm
      · exact absurd hd (hp2 d)
    · intro d hd hk
      simp only [List.mem_append]
      exact Or.inl (hci.att_complete d hd hk)
    · intro d hd hnot
      have hm := hci.pending d hd hnot
      exact (hmem2 d).mpr ⟨hm, hnone d hm⟩
    · intro d hm
      exact hci.cc_sound d ((hmem2 d).mp hm).1

/-- `handleConfirmMsg` for a confirmation of the segment (the confirm cache never holds more than `n` heights,
    so `Push` does not flush while `n ≤ 10240`) -/
theorem rcvConfirm_ci {base n : Nat} (hn : n ≤ 10240) (D : List Confirm) (nd : Node) (hc : CInv base n nd.chain)
    (hci : CI base n D nd) (d : Confirm) (hd : VC base n d) : CI base n (d :: D) (rcvConfirm nd d) := by
  obtain ⟨k, hk1, hkn, e1, e2⟩ := hd
  unfold rcvConfirm
  split
  · rename_i hb
    have hk : seg base d.hash ∈ nd.chain.known := (hasBlock_iff hc d.hash).mp hb
    refine ⟨hci.keyok, ?_, ?_, ?_, ?_, hci.keys_nodup, hci.keys_range, ?_⟩
    · intro p hpm
      simp only [List.mem_append, List.mem_singleton] at hpm
      rcases hpm with hpm | rfl
      · obtain ⟨x, hx, e⟩ := hci.att_sound p hpm
        exact ⟨x, by simp [hx], e⟩
      · exact ⟨d, by simp, rfl, rfl⟩
    · intro x hx hkx
      simp only [List.mem_append, List.mem_singleton]
      rcases List.mem_cons.mp hx with rfl | hx
      · exact Or.inr rfl
      · exact Or.inl (hci.att_complete x hx hkx)
    · intro x hx hnot
      rcases List.mem_cons.mp hx with rfl | hx
      · exact absurd hk hnot
      · exact hci.pending x hx hnot
    · intro x hm
      obtain ⟨h1, h2⟩ := hci.cc_sound x hm
      exact ⟨by simp [h1], h2⟩
    · intro x hx
      rcases List.mem_cons.mp hx with rfl | hx
      · exact ⟨k, hk1, hkn, e1, e2⟩
      · exact hci.dvalid x hx
  · rename_i hb
    have hnk : seg base d.hash ∉ nd.chain.known := fun h => hb ((hasBlock_iff hc d.hash).mpr h)
    -- keys after the push
    have hkeys : (ccPush d nd.cc).map (·.1) =
        if d.height ∈ nd.cc.map (·.1) then nd.cc.map (·.1) else nd.cc.map (·.1) ++ [d.height] := by
      unfold ccPush; exact keys_alSet _ _ _
    have hnd : ((ccPush d nd.cc).map (·.1)).Nodup := by
      rw [hkeys]
      split
      · exact hci.keys_nodup
      · rename_i hnot
        rw [List.nodup_append]
        refine ⟨hci.keys_nodup, by simp, ?_⟩
        intro a ha b hb'
        simp at hb'; subst hb'
        intro e; subst e; exact hnot ha
    have hrg : ∀ h ∈ (ccPush d nd.cc).map (·.1), base < h ∧ h ≤ base + n := by
      rw [hkeys]
      split
      · exact hci.keys_range
      · intro h hh
        rcases List.mem_append.mp hh with hh | hh
        · exact hci.keys_range h hh
        · simp at hh; subst hh; omega
    have hlen : (ccPush d nd.cc).length ≤ n := by
      have := keys_length_le base n _ hnd hrg
      simpa using this
    have hlive : ccPushLive 10240 d nd.cc = ccPush d nd.cc := by
      unfold ccPushLive
      have : ¬ (ccPush d nd.cc).length > 10240 := by omega
      simp only [this, if_false]
    rw [hlive]
    refine ⟨keyOK_push d nd.cc hci.keyok, ?_, ?_, ?_, ?_, hnd, hrg, ?_⟩
    · intro p hpm
      obtain ⟨x, hx, e⟩ := hci.att_sound p hpm
      exact ⟨x, by simp [hx], e⟩
    · intro x hx hkx
      rcases List.mem_cons.mp hx with rfl | hx
      · exact absurd hkx hnk
      · exact hci.att_complete x hx hkx
    · intro x hx hnot
      rcases List.mem_cons.mp hx with rfl | hx
      · exact (ccMem_push _ _ _).mpr (Or.inl rfl)
      · exact (ccMem_push _ _ _).mpr (Or.inr (hci.pending x hx hnot))
    · intro x hm
      rcases (ccMem_push _ _ _).mp hm with rfl | hm
      · exact ⟨by simp, hnk⟩
      · obtain ⟨h1, h2⟩ := hci.cc_sound x hm
        exact ⟨by simp [h1], h2⟩
    · intro x hx
      rcases List.mem_cons.mp hx with rfl | hx
      · exact ⟨k, hk1, hkn, e1, e2⟩
      · exact hci.dvalid x hx

/-- `stableBlockLoop`'s `Clear(stable height)` removes no confirmation that is still needed -/
theorem onStable_ci {base n q : Nat} (hbase : 1 ≤ base) (D : List Confirm) (nd : Node) (hc : CInv base n nd.chain)
    (hci : CI base n D nd) : CI base n D (onStable (stableHeight q nd.chain) nd) := by
  unfold onStable
  have hkeep : ∀ d, ccMem d nd.cc → stableHeight q nd.chain < d.height := by
    intro d hm
    obtain ⟨hdD, hnot⟩ := hci.cc_sound d hm
    obtain ⟨k, hk1, _, e1, e2⟩ := hci.dvalid d hdD
    apply Nat.lt_of_not_le
    intro hle
    apply hnot
    rw [e1]
    exact known_of_le_stable hc k (by omega) (by rw [← e2]; exact hle)
  refine ⟨keyOK_clear _ _ hci.keyok, hci.att_sound, hci.att_complete, ?_, ?_, ?_, ?_, hci.dvalid⟩
  · intro d hd hnot
    have hm := hci.pending d hd hnot
    exact (ccMem_clear _ _ _).mpr ⟨hm, hkeep d hm⟩
  · intro d hm
    exact hci.cc_sound d ((ccMem_clear _ _ _).mp hm).1
  · unfold ccClear
    exact hci.keys_nodup.sublist (List.Sublist.map _ List.filter_sublist)
  · unfold ccClear
    intro h hh
    exact hci.keys_range h ((List.Sublist.map _ List.filter_sublist).subset hh)


/-! ### through the receive loop -/

theorem rcvBlockAt_ci (addF : Blk → BlockCache → BlockCache) (base n q : Nat) (D : List Confirm) (nd : Node)
    (hi : Inv base n nd) (hci : CI base n D nd) (k : Nat) (hk1 : 1 ≤ k) (hkn : k ≤ n) :
    CI base n D (rcvBlockAt true none addF q nd (seg base k)).1 := by
  unfold rcvBlockAt
  simp only []
  split
  · exact hci
  · split
    · rename_i c2
      have hvic : (if (none : Option Nat) = some (seg base k).hash then (pmInsertG true [] nd (seg base k)).1 else nd) = nd := by
        simp
      rw [hvic]
      have hp : seg base (k - 1) ∈ nd.chain.known := (hasBlock_iff hi.ch (k - 1)).mp c2
      have h := pmInsert_ci D nd hi.ch hci k hk1 hkn hp
      have e : ∀ (r : Node × Bool) (c : Bool),
          (if r.2 = true then (r.1, true) else if c = true then (r.1, true) else (r.1, false)).1 = r.1 := by
        intro r c; split
        · rfl
        · split <;> rfl
      rw [e]
      exact h
    · split
      · exact hci
      · exact ci_congr (a := nd) rfl rfl hci

theorem rcvBlocks_ci (addF : Blk → BlockCache → BlockCache) (base n q : Nat) (hadd : AddOk base n addF)
    (hbase : 1 ≤ base) (D : List Confirm) : ∀ (bs : List Blk) (nd : Node), Inv base n nd → CI base n D nd →
    (∀ b ∈ bs, IsSeg base n b) → CI base n D (rcvBlocksG true none addF q nd bs)
  | [], nd, _, hci, _ => by simpa [rcvBlocksG] using hci
  | b :: rest, nd, hi, hci, hbs => by
    obtain ⟨k, hk1, hkn, hb⟩ := hbs b (by simp)
    subst hb
    obtain ⟨r1, r2, _, _⟩ := rcvBlock_ok addF base n q hadd hbase nd hi k hk1 hkn
    have hci' : CI base n D (rcvBlock true none addF q nd (seg base k)).1 := by
      unfold rcvBlock
      exact rcvBlockAt_ci addF base n q D ({ nd with peerMax := max nd.peerMax (seg base k).height } : Node)
        (inv_congr (a := nd) rfl rfl hi) (ci_congr (a := nd) rfl rfl hci) k hk1 hkn
    simp only [rcvBlocksG, r1, if_true]
    exact rcvBlocks_ci addF base n q hadd hbase D rest _ r2 hci' (fun b hb => hbs b (by simp [hb]))

theorem foldl_pmInsert_ci (base n : Nat) (D : List Confirm) : ∀ (pend : List Blk) (nd : Node),
    CInv base n nd.chain → CI base n D nd →
    (∀ x ∈ pend, ∃ k, 1 ≤ k ∧ k ≤ n ∧ x = seg base k ∧ seg base (k - 1) ∈ nd.chain.known) →
    CI base n D (pend.foldl (fun m b => (pmInsert m b).1) nd)
  | [], nd, _, hci, _ => by simpa using hci
  | b :: rest, nd, hc, hci, hp => by
    obtain ⟨k, hk1, hkn, rfl, hpar⟩ := hp b (by simp)
    obtain ⟨_, p2, _, p4, _⟩ := pmInsert_seg nd hc k hk1 hkn hpar
    simp only [List.foldl_cons]
    exact foldl_pmInsert_ci base n D rest _ p2 (pmInsert_ci D nd hc hci k hk1 hkn hpar) (by
      intro x hx
      obtain ⟨k', a1, a2, a3, a4⟩ := hp x (by simp [hx])
      exact ⟨k', a1, a2, a3, p4 _ a4⟩)

theorem tick_ci (base n : Nat) (D : List Confirm) (async : Bool) (nd : Node) (hi : Inv base n nd)
    (hci : CI base n D nd) : CI base n D (tick async nd) := by
  have key : ∀ (nd' : Node) (cond : Bool) (r : Nat), CI base n D nd' →
      CI base n D (if cond = true then { nd' with requests := r :: nd'.requests } else nd') := by
    intro nd' cond r h
    split
    · exact ci_congr (a := nd') rfl rfl h
    · exact h
  unfold tick tickG
  cases async with
  | false =>
    apply key
    obtain ⟨_, w2, _⟩ := iterateP_wf true tickNow nd nd.bc hi.wf
    have hspec := visitKeys_spec tickNow (IsSeg base n)
      (fun s => CInv base n s.chain ∧ CI base n D s) (fun _ _ => True) (fun _ => False)
      (by
        rintro s x ⟨k, hk1, hkn, rfl⟩ ⟨hc, hcs⟩
        unfold tickNow
        split
        · rename_i c
          have hp := (hasBlock_iff hc (k - 1)).mp c
          exact ⟨(pmInsert_seg s hc k hk1 hkn hp).2.1, pmInsert_ci D s hc hcs k hk1 hkn hp⟩
        · exact ⟨hc, hcs⟩)
      (by intros; trivial) (by intros; trivial) (by intro _ _ _ _ h; exact absurd h id)
      (blocksOf nd.bc.cache) nd hi.cache_seg ⟨hi.ch, hci⟩
    obtain ⟨⟨_, s1⟩, _⟩ := hspec
    rw [← w2] at s1
    simp only [Bool.false_eq_true, if_false]
    exact ci_congr (a := (iterateP true tickNow nd nd.bc).1) rfl rfl s1
  | true =>
    apply key
    obtain ⟨_, w2, _⟩ := iterateP_wf true (fun pend b => tickLater nd.chain pend b) [] nd.bc hi.wf
    have hspec := visitKeys_spec (fun pend b => tickLater nd.chain pend b) (IsSeg base n)
      (fun pend => ∀ x ∈ pend, ∃ k, 1 ≤ k ∧ k ≤ n ∧ x = seg base k ∧ seg base (k - 1) ∈ nd.chain.known)
      (fun _ _ => True) (fun _ => False)
      (by
        rintro pend x ⟨k, hk1, hkn, rfl⟩ hp
        unfold tickLater
        split
        · rename_i c
          intro y hy
          rcases List.mem_append.mp hy with hy | hy
          · exact hp y hy
          · simp at hy; subst hy
            exact ⟨k, hk1, hkn, rfl, (hasBlock_iff hi.ch (k - 1)).mp c⟩
        · exact hp)
      (by intros; trivial) (by intros; trivial) (by intro _ _ _ _ h; exact absurd h id)
      (blocksOf nd.bc.cache) [] hi.cache_seg (by simp)
    obtain ⟨s1, _⟩ := hspec
    rw [← w2] at s1
    simp only [if_true]
    exact foldl_pmInsert_ci base n D _ _ hi.ch (ci_congr (a := nd) rfl rfl hci) s1

/-- messages of the confirmation theorems: blocks and confirmations of ONE linear segment -/
def ValidMsgC (base n : Nat) : Msg → Prop
  | .blocks bs => ∀ b ∈ bs, IsSeg base n b
  | .confirm d => VC base n d
  | _ => True

theorem validMsgC_valid {base n : Nat} {m : Msg} (h : ValidMsgC base n m) : ValidMsg base n m := by
  cases m <;> simp [ValidMsg] <;> exact h

/-- the confirmations among the messages -/
def confs : List Msg → List Confirm
  | [] => []
  | .confirm d :: ms => d :: confs ms
  | _ :: ms => confs ms

theorem step_ci (addF : Blk → BlockCache → BlockCache) (base n q : Nat) (hadd : AddOk base n addF) (hbase : 1 ≤ base)
    (hn : n ≤ 10240) (D : List Confirm) (nd : Node) (m : Msg) (hi : Inv base n nd) (hci : CI base n D nd)
    (hv : ValidMsgC base n m) : CI base n (confs [m] ++ D) (step addF q nd m) := by
  cases m with
  | blocks bs => exact rcvBlocks_ci addF base n q hadd hbase D bs nd hi hci hv
  | confirm d => exact rcvConfirm_ci hn D nd hi.ch hci d hv
  | tick a => exact tick_ci base n D a nd hi hci
  | stable => exact onStable_ci hbase D nd hi.ch hci

theorem confs_cons (m : Msg) (ms : List Msg) : confs (m :: ms) = confs [m] ++ confs ms := by
  cases m <;> simp [confs]

theorem run_ci (addF : Blk → BlockCache → BlockCache) (base n q : Nat) (hadd : AddOk base n addF) (hbase : 1 ≤ base)
    (hn : n ≤ 10240) : ∀ (ms : List Msg) (D : List Confirm) (nd : Node), Inv base n nd → CI base n D nd →
    (∀ m ∈ ms, ValidMsgC base n m) → CI base n (confs ms ++ D) (runMsgs addF q nd ms)
  | [], D, nd, _, hci, _ => by simpa [runMsgs, confs] using hci
  | m :: ms, D, nd, hi, hci, hv => by
    have hv1 := hv m (by simp)
    obtain ⟨s1, _, _⟩ := step_ok addF base n q hadd hbase nd m hi (validMsgC_valid hv1)
    have s2 := step_ci addF base n q hadd hbase hn D nd m hi hci hv1
    have ih := run_ci addF base n q hadd hbase hn ms _ _ s1 s2 (fun m' hm' => hv m' (by simp [hm']))
    have e : runMsgs addF q nd (m :: ms) = runMsgs addF q (step addF q nd m) ms := by simp [runMsgs]
    rw [e]
    apply ci_perm _ ih
    intro d
    rw [confs_cons m ms]
    simp only [List.mem_append]
    constructor
    · rintro (h | h | h)
      · exact Or.inl (Or.inr h)
      · exact Or.inl (Or.inl h)
      · exact Or.inr h
    · rintro ((h | h) | h)
      · exact Or.inr (Or.inl h)
      · exact Or.inl h
      · exact Or.inr (Or.inr h)

theorem confs_ticks (modes : List Bool) : confs (modes.map Msg.tick) = [] := by
  induction modes with
  | nil => rfl
  | cons a l ih => simp [confs, ih]

theorem confs_append (a b : List Msg) : confs (a ++ b) = confs a ++ confs b := by
  induction a with
  | nil => rfl
  | cons m l ih => rw [List.cons_append, confs_cons, confs_cons m l, ih, List.append_assoc]

end LemoProofs.SyncConfirm

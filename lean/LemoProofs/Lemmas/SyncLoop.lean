/-
  C20 — invariants of the receive loop model over a valid linear segment.
-/
import LemoModel.Sync
import LemoProofs.Lemmas.Sync
namespace LemoProofs.SyncLoop
open LemoModel.Sync LemoProofs.SyncLemmas

/-- block `k` of a linear segment on top of a base block of height `base`: hash k, parent k-1 -/
def seg (base k : Nat) : Blk := { height := base + k, hash := k, parent := k - 1 }

/-- an `Add` that refines multimap insertion (what cache_refines_multimap says about Add) -/
def AddCorrect (addF : Blk → BlockCache → BlockCache) : Prop :=
  ∀ b c, WF c → WF (addF b c) ∧ ∀ x, x ∈ blocksOf (addF b c).cache ↔ x = b ∨ x ∈ blocksOf c.cache

def IsSeg (base n : Nat) (x : Blk) : Prop := ∃ k, 1 ≤ k ∧ k ≤ n ∧ x = seg base k

/-- entry heights lie inside the segment -/
def InRange (base n : Nat) (l : List Group) : Prop := ∀ g ∈ l, base < g.height ∧ g.height ≤ base + n

/-- what the receive loop needs from `Add` on the caches it can reach while a segment of `n` blocks is being
    delivered: it refines multimap insertion and creates no entry outside the segment.  (Weaker than
    `AddCorrect`: `addLive` only satisfies it for `n ≤ 10240`.) -/
def AddOk (base n : Nat) (addF : Blk → BlockCache → BlockCache) : Prop :=
  ∀ b c, WF c → InRange base n c.cache → IsSeg base n b →
    WF (addF b c) ∧ (∀ x, x ∈ blocksOf (addF b c).cache ↔ x = b ∨ x ∈ blocksOf c.cache) ∧
    InRange base n (addF b c).cache

structure CInv (base n : Nat) (ch : Chain) : Prop where
  known_seg : ∀ x ∈ ch.known, ∃ k, k ≤ n ∧ x = seg base k
  zero : seg base 0 ∈ ch.known
  pref : ∀ k, seg base (k + 1) ∈ ch.known → seg base k ∈ ch.known

structure Inv (base n : Nat) (nd : Node) : Prop where
  ch : CInv base n nd.chain
  wf : WF nd.bc
  cache_seg : ∀ x ∈ blocksOf nd.bc.cache, IsSeg base n x
  hrange : InRange base n nd.bc.cache

/-- block k has reached the node: it is in the chain or waits in the cache -/
def Have (base : Nat) (nd : Node) (k : Nat) : Prop :=
  seg base k ∈ nd.chain.known ∨ seg base k ∈ blocksOf nd.bc.cache

theorem seg_inj {base j k : Nat} (h : seg base j = seg base k) : j = k := by
  have : (seg base j).hash = (seg base k).hash := by rw [h]
  exact this

theorem hasBlock_iff {base n : Nat} {ch : Chain} (h : CInv base n ch) (j : Nat) :
    hasBlock ch j = true ↔ seg base j ∈ ch.known := by
  unfold hasBlock
  rw [List.any_eq_true]
  constructor
  · rintro ⟨x, hx, hj⟩
    obtain ⟨k, _, rfl⟩ := h.known_seg x hx
    have : k = j := by simpa [seg] using hj
    subst this; exact hx
  · intro hj
    exact ⟨seg base j, hj, by simp [seg]⟩

theorem known_down {base n : Nat} {ch : Chain} (h : CInv base n ch) : ∀ (k j : Nat), j ≤ k →
    seg base k ∈ ch.known → seg base j ∈ ch.known
  | 0, j, hj, hk => by
    have : j = 0 := by omega
    subst this; exact hk
  | k + 1, j, hj, hk => by
    by_cases e : j = k + 1
    · subst e; exact hk
    · exact known_down h k j (by omega) (h.pref k hk)

theorem maxL_mem : ∀ (l : List Nat), maxL l = 0 ∨ maxL l ∈ l
  | [] => Or.inl rfl
  | x :: xs => by
    simp only [maxL]
    rcases maxL_mem xs with h | h
    · by_cases hx : x ≤ maxL xs
      · left; omega
      · right
        have : max x (maxL xs) = x := by omega
        rw [this]; simp
    · by_cases hx : x ≤ maxL xs
      · right
        have : max x (maxL xs) = maxL xs := by omega
        rw [this]; simp [h]
      · right
        have : max x (maxL xs) = x := by omega
        rw [this]; simp

theorem le_maxL : ∀ (l : List Nat) (x : Nat), x ∈ l → x ≤ maxL l
  | [], x, h => by simp at h
  | y :: ys, x, h => by
    simp only [maxL]
    rcases List.mem_cons.mp h with rfl | h
    · omega
    · have := le_maxL ys x h; omega

theorem maxL_le : ∀ (l : List Nat) (m : Nat), (∀ x ∈ l, x ≤ m) → maxL l ≤ m
  | [], m, _ => by simp [maxL]
  | y :: ys, m, h => by
    simp only [maxL]
    have h1 := h y (by simp)
    have h2 := maxL_le ys m (fun x hx => h x (by simp [hx]))
    omega

/-- a segment block at or below the stable height is already in the chain -/
theorem known_of_le_stable {base n q : Nat} {ch : Chain} (h : CInv base n ch) (k : Nat) (hb : 1 ≤ base + k)
    (hle : base + k ≤ stableHeight q ch) : seg base k ∈ ch.known := by
  unfold stableHeight at hle
  rcases maxL_mem ((ch.known.filter (fun k => decide (q ≤ sigCount ch.attached k.hash))).map (·.height)) with h0 | hm
  · omega
  · obtain ⟨x, hx, hxe⟩ := List.mem_map.mp hm
    have hxk : x ∈ ch.known := (List.mem_filter.mp hx).1
    obtain ⟨k', _, rfl⟩ := h.known_seg x hxk
    have : k ≤ k' := by
      have : (seg base k').height = base + k' := rfl
      omega
    exact known_down h k' k this hxk

/-- `chain.InsertBlock` of a segment block whose parent is known -/
theorem insertBlock_seg {base n : Nat} {ch : Chain} (h : CInv base n ch) (k : Nat) (hk1 : 1 ≤ k) (hkn : k ≤ n)
    (hp : seg base (k - 1) ∈ ch.known) (sigs : List Nat) :
    (∃ ch', insertBlock ch (seg base k) sigs = some ch' ∧ ch'.known = seg base k :: ch.known ∧
        seg base k ∉ ch.known ∧ CInv base n ch') ∨
    (insertBlock ch (seg base k) sigs = none ∧ seg base k ∈ ch.known) := by
  unfold insertBlock
  have hpar : hasBlock ch (seg base k).parent = true := (hasBlock_iff h (k - 1)).mpr hp
  by_cases hk : hasBlock ch (seg base k).hash = true
  · right
    simp only [hpar, hk, Bool.not_true, Bool.and_false, Bool.false_eq_true, if_false, true_and]
    exact (hasBlock_iff h k).mp hk
  · left
    have hk' : hasBlock ch (seg base k).hash = false := by simpa using hk
    simp only [hpar, hk', Bool.not_false, Bool.and_self, if_true]
    refine ⟨_, rfl, rfl, fun hin => hk ((hasBlock_iff h k).mpr hin), ?_⟩
    refine ⟨?_, ?_, ?_⟩ <;> simp only
    · intro x hx
      rcases List.mem_cons.mp hx with rfl | hx
      · exact ⟨k, hkn, rfl⟩
      · exact h.known_seg x hx
    · exact List.mem_cons_of_mem _ h.zero
    · intro j hj
      rcases List.mem_cons.mp hj with hj | hj
      · have : j + 1 = k := seg_inj hj
        have e : j = k - 1 := by omega
        rw [e]; exact List.mem_cons_of_mem _ hp
      · exact List.mem_cons_of_mem _ (h.pref j hj)

theorem cinv_attached {base n : Nat} {ch : Chain} (h : CInv base n ch) (a : List (Nat × Nat)) :
    CInv base n { ch with attached := a } := ⟨h.known_seg, h.zero, h.pref⟩

/-- `pm.insertBlock` of a segment block whose parent is known: afterwards the block is in the chain -/
theorem pmInsert_seg {base n : Nat} (nd : Node) (h : CInv base n nd.chain) (k : Nat) (hk1 : 1 ≤ k) (hkn : k ≤ n)
    (hp : seg base (k - 1) ∈ nd.chain.known) :
    (pmInsert nd (seg base k)).1.bc = nd.bc ∧ CInv base n (pmInsert nd (seg base k)).1.chain ∧
    seg base k ∈ (pmInsert nd (seg base k)).1.chain.known ∧
    (∀ x ∈ nd.chain.known, x ∈ (pmInsert nd (seg base k)).1.chain.known) ∧
    ((pmInsert nd (seg base k)).2 = false → seg base k ∈ nd.chain.known) ∧
    (pmInsert nd (seg base k)).1.peerMax = nd.peerMax := by
  unfold pmInsert pmInsertG
  simp only [List.foldl_nil]
  rcases insertBlock_seg h k hk1 hkn hp (((ccPop (seg base k).height (seg base k).hash nd.cc).1).map (·.sig)) with
    ⟨ch', he, hkn', _, hc'⟩ | ⟨he, hin⟩
  · simp only [he, if_true]
    refine ⟨trivial, cinv_attached hc' _, by rw [hkn']; simp, ?_, by simp, trivial⟩
    intro x hx; rw [hkn']; exact List.mem_cons_of_mem _ hx
  · have hb : hasBlock nd.chain (seg base k).hash = true := (hasBlock_iff h k).mpr hin
    simp only [he, hb, Bool.and_self, if_true]
    exact ⟨trivial, cinv_attached h _, hin, fun x hx => hx, fun _ => hin, trivial⟩

/-! ### one blocks message -/

theorem inv_congr {base n : Nat} {a b : Node} (h1 : b.chain = a.chain) (h2 : b.bc = a.bc) (h : Inv base n a) :
    Inv base n b :=
  ⟨by rw [h1]; exact h.ch, by rw [h2]; exact h.wf, by rw [h2]; exact h.cache_seg, by rw [h2]; exact h.hrange⟩

theorem have_congr {base : Nat} {a b : Node} (h1 : b.chain = a.chain) (h2 : b.bc = a.bc) (j : Nat)
    (h : Have base a j) : Have base b j := by
  unfold Have at *; rw [h1, h2]; exact h

/-- one block of a blocks message -/
theorem rcvBlockAt_ok (addF : Blk → BlockCache → BlockCache) (base n q : Nat) (hadd : AddOk base n addF)
    (hbase : 1 ≤ base) (nd : Node) (hi : Inv base n nd) (k : Nat) (hk1 : 1 ≤ k) (hkn : k ≤ n) :
    (rcvBlockAt true none addF q nd (seg base k)).2 = true ∧
    Inv base n (rcvBlockAt true none addF q nd (seg base k)).1 ∧
    (∀ j, Have base nd j → Have base (rcvBlockAt true none addF q nd (seg base k)).1 j) ∧
    Have base (rcvBlockAt true none addF q nd (seg base k)).1 k := by
  unfold rcvBlockAt
  simp only []
  have hmono0 : ∀ j, Have base nd j → Have base nd j := fun j hj => hj
  split
  · -- stale: at or below the stable height, or already in the chain
    rename_i c1
    refine ⟨rfl, hi, hmono0, Or.inl ?_⟩
    simp only [Bool.or_eq_true, decide_eq_true_eq] at c1
    rcases c1 with c1 | c1
    · exact known_of_le_stable hi.ch k (by omega) c1
    · exact (hasBlock_iff hi.ch k).mp c1
  · rename_i c1
    simp only [Bool.or_eq_true, decide_eq_true_eq, not_or] at c1
    split
    · -- parent known: insert
      rename_i c2
      have hvic : (if (none : Option Nat) = some (seg base k).hash then (pmInsertG true [] nd (seg base k)).1 else nd) = nd := by
        simp
      rw [hvic]
      have hp : seg base (k - 1) ∈ nd.chain.known := (hasBlock_iff hi.ch (k - 1)).mp c2
      obtain ⟨p1, p2, p3, p4, p5, _⟩ := pmInsert_seg nd hi.ch k hk1 hkn hp
      have hr : (pmInsert nd (seg base k)).2 = true := by
        cases hh : (pmInsert nd (seg base k)).2 with
        | true => rfl
        | false => exact absurd ((hasBlock_iff hi.ch k).mpr (p5 hh)) c1.2
      have hr' : (pmInsertG true [] nd (seg base k)).2 = true := hr
      simp only [hr', if_true]
      have hi' : Inv base n (pmInsert nd (seg base k)).1 :=
        ⟨p2, by rw [p1]; exact hi.wf, by rw [p1]; exact hi.cache_seg, by rw [p1]; exact hi.hrange⟩
      refine ⟨trivial, hi', ?_, Or.inl p3⟩
      intro j hj
      rcases hmono0 j hj with hj | hj
      · exact Or.inl (p4 _ hj)
      · right; show seg base j ∈ blocksOf (pmInsert nd (seg base k)).1.bc.cache; rw [p1]; exact hj
    · split
      · -- height <= 1 cannot happen above a base block of height >= 1
        rename_i c3
        have : (seg base k).height = base + k := rfl
        omega
      · -- cache it
        obtain ⟨a1, a2, a3⟩ := hadd (seg base k) nd.bc hi.wf hi.hrange ⟨k, hk1, hkn, rfl⟩
        refine ⟨rfl, ⟨hi.ch, a1, ?_, a3⟩, ?_, Or.inr ((a2 _).mpr (Or.inl rfl))⟩
        · intro x hx
          rcases (a2 x).mp hx with rfl | hx
          · exact ⟨k, hk1, hkn, rfl⟩
          · exact hi.cache_seg x hx
        · intro j hj
          rcases hmono0 j hj with hj | hj
          · exact Or.inl hj
          · exact Or.inr ((a2 _).mpr (Or.inr hj))

theorem rcvBlock_ok (addF : Blk → BlockCache → BlockCache) (base n q : Nat) (hadd : AddOk base n addF)
    (hbase : 1 ≤ base) (nd0 : Node) (hi0 : Inv base n nd0) (k : Nat) (hk1 : 1 ≤ k) (hkn : k ≤ n) :
    (rcvBlock true none addF q nd0 (seg base k)).2 = true ∧
    Inv base n (rcvBlock true none addF q nd0 (seg base k)).1 ∧
    (∀ j, Have base nd0 j → Have base (rcvBlock true none addF q nd0 (seg base k)).1 j) ∧
    Have base (rcvBlock true none addF q nd0 (seg base k)).1 k := by
  unfold rcvBlock
  have hi : Inv base n { nd0 with peerMax := max nd0.peerMax (seg base k).height } :=
    inv_congr (a := nd0) rfl rfl hi0
  obtain ⟨r1, r2, r3, r4⟩ := rcvBlockAt_ok addF base n q hadd hbase _ hi k hk1 hkn
  exact ⟨r1, r2, fun j hj => r3 j (have_congr (a := nd0) rfl rfl j hj), r4⟩

theorem rcvBlocks_inv (addF : Blk → BlockCache → BlockCache) (base n q : Nat) (hadd : AddOk base n addF)
    (hbase : 1 ≤ base) : ∀ (bs : List Blk) (nd : Node), Inv base n nd → (∀ b ∈ bs, IsSeg base n b) →
    Inv base n (rcvBlocksG true none addF q nd bs) ∧
    (∀ j, Have base nd j → Have base (rcvBlocksG true none addF q nd bs) j) ∧
    (∀ k, seg base k ∈ bs → Have base (rcvBlocksG true none addF q nd bs) k)
  | [], nd, hi, _ => by simp [rcvBlocksG, hi]
  | b :: rest, nd, hi, hbs => by
    obtain ⟨k, hk1, hkn, hb⟩ := hbs b (by simp)
    subst hb
    obtain ⟨r1, r2, r3, r4⟩ := rcvBlock_ok addF base n q hadd hbase nd hi k hk1 hkn
    obtain ⟨i1, i2, i3⟩ := rcvBlocks_inv addF base n q hadd hbase rest _ r2 (fun b hb => hbs b (by simp [hb]))
    simp only [rcvBlocksG, r1, if_true]
    refine ⟨i1, fun j hj => i2 j (r3 j hj), ?_⟩
    intro j hj
    rcases List.mem_cons.mp hj with hj | hj
    · have : j = k := seg_inj hj
      subst this
      exact i2 j r4
    · exact i3 j hj

/-! ### the drain timer -/

/-- what one tick guarantees, independent of how the spawned inserts are scheduled -/
structure TickOk (base n : Nat) (nd nd' : Node) : Prop where
  inv : Inv base n nd'
  mono : ∀ j, Have base nd j → Have base nd' j
  kmono : ∀ x ∈ nd.chain.known, x ∈ nd'.chain.known
  progress : ∀ m, seg base m ∈ nd.chain.known → Have base nd (m + 1) → seg base (m + 1) ∈ nd'.chain.known

theorem tickNow_ok (base n : Nat) (nd : Node) (hi : Inv base n nd) :
    TickOk base n nd { (iterateP true tickNow nd nd.bc).1 with bc := (iterateP true tickNow nd nd.bc).2.1 } := by
  obtain ⟨w1, w2, w3, _, w5, _⟩ := iterateP_wf true tickNow nd nd.bc hi.wf
  have hspec := visitKeys_spec tickNow (IsSeg base n)
    (fun s => CInv base n s.chain ∧ ∀ x ∈ nd.chain.known, x ∈ s.chain.known)
    (fun x s => x ∈ s.chain.known)
    (fun x => ∃ m, x = seg base (m + 1) ∧ seg base m ∈ nd.chain.known)
    (by
      rintro s x ⟨k, hk1, hkn, rfl⟩ ⟨hc, hsub⟩
      unfold tickNow
      split
      · rename_i c
        have hp := (hasBlock_iff hc (k - 1)).mp c
        obtain ⟨_, p2, _, p4, _⟩ := pmInsert_seg s hc k hk1 hkn hp
        exact ⟨p2, fun y hy => p4 y (hsub y hy)⟩
      · exact ⟨hc, hsub⟩)
    (by
      rintro s x ⟨k, hk1, hkn, rfl⟩ ⟨hc, _⟩ ht
      unfold tickNow at ht ⊢
      split
      · rename_i c
        have hp := (hasBlock_iff hc (k - 1)).mp c
        exact (pmInsert_seg s hc k hk1 hkn hp).2.2.1
      · rename_i c; simp [c] at ht)
    (by
      rintro s x y ⟨k, hk1, hkn, rfl⟩ ⟨hc, _⟩ hy
      unfold tickNow
      split
      · rename_i c
        have hp := (hasBlock_iff hc (k - 1)).mp c
        exact (pmInsert_seg s hc k hk1 hkn hp).2.2.2.1 y hy
      · exact hy)
    (by
      rintro s x _ ⟨hc, hsub⟩ ⟨m, rfl, hm⟩
      unfold tickNow
      have : hasBlock s.chain (seg base (m + 1)).parent = true := (hasBlock_iff hc m).mpr (hsub _ hm)
      simp [this])
    (blocksOf nd.bc.cache) nd hi.cache_seg ⟨hi.ch, fun x hx => hx⟩
  obtain ⟨⟨s1, s1b⟩, s2, s3, s4⟩ := hspec
  rw [← w2] at s1 s1b s2 s3
  refine ⟨⟨s1, w1, ?_, ?_⟩, ?_, s1b, ?_⟩
  · intro x hx
    exact hi.cache_seg x ((w3 x).mp hx).1
  · intro g hg
    obtain ⟨g', hg', e⟩ := w5 g hg
    rw [← e]; exact hi.hrange g' hg'
  · intro j hj
    rcases hj with hj | hj
    · exact Or.inl (s1b _ hj)
    · by_cases hd : seg base j ∈ (visitKeys tickNow nd (blocksOf nd.bc.cache)).2
      · exact Or.inl (s2 _ hd)
      · exact Or.inr ((w3 _).mpr ⟨hj, hd⟩)
  · intro m hm hj
    rcases hj with hj | hj
    · exact s1b _ hj
    · exact s2 _ (s4 _ hj ⟨m, rfl, hm⟩)

theorem foldl_pmInsert (base n : Nat) : ∀ (pend : List Blk) (nd : Node), CInv base n nd.chain →
    (∀ x ∈ pend, ∃ k, 1 ≤ k ∧ k ≤ n ∧ x = seg base k ∧ seg base (k - 1) ∈ nd.chain.known) →
    (pend.foldl (fun m b => (pmInsert m b).1) nd).bc = nd.bc ∧
    CInv base n (pend.foldl (fun m b => (pmInsert m b).1) nd).chain ∧
    (∀ x ∈ nd.chain.known, x ∈ (pend.foldl (fun m b => (pmInsert m b).1) nd).chain.known) ∧
    (∀ x ∈ pend, x ∈ (pend.foldl (fun m b => (pmInsert m b).1) nd).chain.known)
  | [], nd, hc, _ => by simp [hc]
  | b :: rest, nd, hc, hp => by
    obtain ⟨k, hk1, hkn, rfl, hpar⟩ := hp b (by simp)
    obtain ⟨p1, p2, p3, p4, _⟩ := pmInsert_seg nd hc k hk1 hkn hpar
    obtain ⟨i1, i2, i3, i4⟩ := foldl_pmInsert base n rest (pmInsert nd (seg base k)).1 p2 (by
      intro x hx
      obtain ⟨k', a1, a2, a3, a4⟩ := hp x (by simp [hx])
      exact ⟨k', a1, a2, a3, p4 _ a4⟩)
    simp only [List.foldl_cons]
    refine ⟨by rw [i1, p1], i2, fun x hx => i3 x (p4 x hx), ?_⟩
    intro x hx
    rcases List.mem_cons.mp hx with rfl | hx
    · exact i3 _ p3
    · exact i4 x hx

theorem tickLater_ok (base n : Nat) (nd : Node) (hi : Inv base n nd) :
    TickOk base n nd
      ((iterateP true (fun pend b => tickLater nd.chain pend b) [] nd.bc).1.foldl (fun m b => (pmInsert m b).1)
        { nd with bc := (iterateP true (fun pend b => tickLater nd.chain pend b) [] nd.bc).2.1 }) := by
  obtain ⟨w1, w2, w3, _, w5, _⟩ := iterateP_wf true (fun pend b => tickLater nd.chain pend b) [] nd.bc hi.wf
  have hspec := visitKeys_spec (fun pend b => tickLater nd.chain pend b) (IsSeg base n)
    (fun pend => ∀ x ∈ pend, ∃ k, 1 ≤ k ∧ k ≤ n ∧ x = seg base k ∧ seg base (k - 1) ∈ nd.chain.known)
    (fun x pend => x ∈ pend)
    (fun x => ∃ m, x = seg base (m + 1) ∧ seg base m ∈ nd.chain.known)
    (by
      rintro pend x ⟨k, hk1, hkn, rfl⟩ hp
      unfold tickLater
      split
      · rename_i c
        intro y hy
        rcases List.mem_append.mp hy with hy | hy
        · exact hp y hy
        · simp at hy; subst hy
          exact ⟨k, hk1, hkn, rfl, (hasBlock_iff hi.ch (k - 1)).mp c⟩
      · exact hp)
    (by
      rintro pend x _ _ ht
      unfold tickLater at ht ⊢
      split
      · simp
      · rename_i c; simp [c] at ht)
    (by
      rintro pend x y _ _ hy
      unfold tickLater
      split
      · exact List.mem_append_left _ hy
      · exact hy)
    (by
      rintro pend x _ _ ⟨m, rfl, hm⟩
      unfold tickLater
      have : hasBlock nd.chain (seg base (m + 1)).parent = true := (hasBlock_iff hi.ch m).mpr hm
      simp [this])
    (blocksOf nd.bc.cache) [] hi.cache_seg (by simp)
  obtain ⟨s1, s2, _, s4⟩ := hspec
  rw [← w2] at s1 s2
  obtain ⟨f1, f2, f3, f4⟩ := foldl_pmInsert base n _
    { nd with bc := (iterateP true (fun pend b => tickLater nd.chain pend b) [] nd.bc).2.1 } hi.ch s1
  refine ⟨⟨f2, by rw [f1]; exact w1, ?_, ?_⟩, ?_, f3, ?_⟩
  · intro x hx
    rw [f1] at hx
    exact hi.cache_seg x ((w3 x).mp hx).1
  · rw [f1]
    intro g hg
    obtain ⟨g', hg', e⟩ := w5 g hg
    rw [← e]; exact hi.hrange g' hg'
  · intro j hj
    rcases hj with hj | hj
    · exact Or.inl (f3 _ hj)
    · by_cases hd : seg base j ∈ (visitKeys (fun pend b => tickLater nd.chain pend b) [] (blocksOf nd.bc.cache)).2
      · exact Or.inl (f4 _ (s2 _ hd))
      · right; rw [f1]; exact (w3 _).mpr ⟨hj, hd⟩
  · intro m hm hj
    rcases hj with hj | hj
    · exact f3 _ hj
    · exact f4 _ (s2 _ (s4 _ hj ⟨m, rfl, hm⟩))

theorem tick_ok (base n : Nat) (async : Bool) (nd : Node) (hi : Inv base n nd) :
    TickOk base n nd (tick async nd) := by
  have key : ∀ (nd' : Node) (cond : Bool) (r : Nat), TickOk base n nd nd' →
      TickOk base n nd (if cond = true then { nd' with requests := r :: nd'.requests } else nd') := by
    intro nd' cond r h
    split
    · exact ⟨inv_congr (a := nd') rfl rfl h.inv, fun j hj => have_congr (a := nd') rfl rfl j (h.mono j hj), h.kmono, h.progress⟩
    · exact h
  unfold tick tickG
  cases async with
  | true => exact key _ _ _ (tickLater_ok base n nd hi)
  | false => exact key _ _ _ (tickNow_ok base n nd hi)

/-! ### confirms and stable events do not touch what convergence of the head needs -/

theorem rcvConfirm_ok (base n : Nat) (nd : Node) (d : Confirm) (hi : Inv base n nd) :
    Inv base n (rcvConfirm nd d) ∧ (∀ j, Have base nd j → Have base (rcvConfirm nd d) j) := by
  unfold rcvConfirm
  split
  · exact ⟨⟨⟨hi.ch.known_seg, hi.ch.zero, hi.ch.pref⟩, hi.wf, hi.cache_seg, hi.hrange⟩, fun j hj => hj⟩
  · exact ⟨⟨hi.ch, hi.wf, hi.cache_seg, hi.hrange⟩, fun j hj => hj⟩

theorem onStable_ok (base n q : Nat) (hbase : 1 ≤ base) (nd : Node) (hi : Inv base n nd) :
    Inv base n (onStable (stableHeight q nd.chain) nd) ∧
    (∀ j, Have base nd j → Have base (onStable (stableHeight q nd.chain) nd) j) := by
  unfold onStable
  refine ⟨⟨hi.ch, clear_wf _ _ hi.wf, ?_, ?_⟩, ?_⟩
  · intro x hx
    simp only [clear] at hx
    exact hi.cache_seg x ((mem_clear_sorted _ nd.bc.cache hi.wf.sorted hi.wf.hts x).mp hx).1
  · intro g hg
    simp only [clear] at hg
    exact hi.hrange g ((List.dropWhile_sublist _).subset hg)
  · intro j hj
    rcases hj with hj | hj
    · exact Or.inl hj
    · by_cases hle : (seg base j).height ≤ stableHeight q nd.chain
      · exact Or.inl (known_of_le_stable hi.ch j (by omega) hle)
      · right
        simp only [clear]
        exact (mem_clear_sorted _ nd.bc.cache hi.wf.sorted hi.wf.hts _).mpr ⟨hj, by omega⟩

/-! ### whole runs -/

/-- messages of the theorem: blocks of ONE linear segment (no competing block at the same height, whoever
    the sending peer is); any confirm; ticks; stable events -/
def ValidMsg (base n : Nat) : Msg → Prop
  | .blocks bs => ∀ b ∈ bs, IsSeg base n b
  | _ => True

theorem step_ok (addF : Blk → BlockCache → BlockCache) (base n q : Nat) (hadd : AddOk base n addF) (hbase : 1 ≤ base)
    (nd : Node) (m : Msg) (hi : Inv base n nd) (hv : ValidMsg base n m) :
    Inv base n (step addF q nd m) ∧ (∀ j, Have base nd j → Have base (step addF q nd m) j) ∧
    (∀ bs, m = .blocks bs → ∀ k, seg base k ∈ bs → Have base (step addF q nd m) k) := by
  cases m with
  | blocks bs =>
    obtain ⟨i1, i2, i3⟩ := rcvBlocks_inv addF base n q hadd hbase bs nd hi hv
    exact ⟨i1, i2, fun bs' he k hk => by cases he; exact i3 k hk⟩
  | confirm d =>
    obtain ⟨i1, i2⟩ := rcvConfirm_ok base n nd d hi
    exact ⟨i1, i2, fun bs' he => by cases he⟩
  | tick a =>
    have h := tick_ok base n a nd hi
    exact ⟨h.inv, h.mono, fun bs' he => by cases he⟩
  | stable =>
    obtain ⟨i1, i2⟩ := onStable_ok base n q hbase nd hi
    exact ⟨i1, i2, fun bs' he => by cases he⟩

theorem run_ok (addF : Blk → BlockCache → BlockCache) (base n q : Nat) (hadd : AddOk base n addF) (hbase : 1 ≤ base) :
    ∀ (ms : List Msg) (nd : Node), Inv base n nd → (∀ m ∈ ms, ValidMsg base n m) →
    Inv base n (runMsgs addF q nd ms) ∧ (∀ j, Have base nd j → Have base (runMsgs addF q nd ms) j) ∧
    (∀ bs, Msg.blocks bs ∈ ms → ∀ k, seg base k ∈ bs → Have base (runMsgs addF q nd ms) k)
  | [], nd, hi, _ => by simp [runMsgs, hi]
  | m :: ms, nd, hi, hv => by
    obtain ⟨s1, s2, s3⟩ := step_ok addF base n q hadd hbase nd m hi (hv m (by simp))
    obtain ⟨r1, r2, r3⟩ := run_ok addF base n q hadd hbase ms (step addF q nd m) s1 (fun m' hm' => hv m' (by simp [hm']))
    have e : runMsgs addF q nd (m :: ms) = runMsgs addF q (step addF q nd m) ms := by simp [runMsgs]
    rw [e]
    refine ⟨r1, fun j hj => r2 j (s2 j hj), ?_⟩
    intro bs hbs k hk
    rcases List.mem_cons.mp hbs with hbs | hbs
    · exact r2 k (s3 bs hbs.symm k hk)
    · exact r3 bs hbs k hk

/-- `j` drain ticks (any scheduling) push the head at least `j` blocks up, once every block has arrived -/
theorem ticks_ok (addF : Blk → BlockCache → BlockCache) (base n q : Nat) : ∀ (modes : List Bool) (nd : Node) (m : Nat),
    Inv base n nd → (∀ k, 1 ≤ k → k ≤ n → Have base nd k) → seg base m ∈ nd.chain.known →
    Inv base n (runMsgs addF q nd (modes.map Msg.tick)) ∧
    seg base (min n (m + modes.length)) ∈ (runMsgs addF q nd (modes.map Msg.tick)).chain.known
  | [], nd, m, hi, _, hm => by
    simp only [List.map_nil, runMsgs, List.foldl_nil, List.length_nil, Nat.add_zero]
    refine ⟨hi, known_down hi.ch m _ (Nat.min_le_right _ _) hm⟩
  | a :: modes, nd, m, hi, hall, hm => by
    have h := tick_ok base n a nd hi
    have e : runMsgs addF q nd ((a :: modes).map Msg.tick) = runMsgs addF q (tick a nd) (modes.map Msg.tick) := by
      simp [runMsgs, step]
    rw [e]
    by_cases hmn : m < n
    · have hk := h.progress m hm (hall (m + 1) (by omega) (by omega))
      obtain ⟨r1, r2⟩ := ticks_ok addF base n q modes (tick a nd) (m + 1) h.inv
        (fun k h1 h2 => h.mono k (hall k h1 h2)) hk
      refine ⟨r1, ?_⟩
      have : m + (a :: modes).length = m + 1 + modes.length := by simp; omega
      rw [this]; exact r2
    · obtain ⟨r1, r2⟩ := ticks_ok addF base n q modes (tick a nd) m h.inv
        (fun k h1 h2 => h.mono k (hall k h1 h2)) (h.kmono _ hm)
      refine ⟨r1, ?_⟩
      have e1 : min n (m + (a :: modes).length) = n := by simp; omega
      have e2 : min n (m + modes.length) = n := by omega
      rw [e1]; rw [e2] at r2; exact r2

/-! ### instances of `AddOk` -/

theorem addOk_of_correct (base n : Nat) (b : Blk) (c : BlockCache) (hc : WF c) (hr : InRange base n c.cache)
    (hb : IsSeg base n b) (mid : Nat → Group → List Group → List Group) (hmid : MidOk mid b c) :
    WF (addWith mid b c) ∧ (∀ x, x ∈ blocksOf (addWith mid b c).cache ↔ x = b ∨ x ∈ blocksOf c.cache) ∧
    InRange base n (addWith mid b c).cache := by
  obtain ⟨h1, h2⟩ := addWith_refines mid b c hc hmid
  refine ⟨h1, h2, ?_⟩
  intro g hg
  rcases addWith_heights mid b c hc.sorted hmid g hg with e | ⟨g', hg', e⟩
  · obtain ⟨k, hk1, hkn, rfl⟩ := hb
    rw [e]
    have : (seg base k).height = base + k := rfl
    omega
  · rw [← e]; exact hr g' hg'

theorem addFixed_ok (base n : Nat) : AddOk base n addFixed :=
  fun b c hc hr hb => addOk_of_correct base n b c hc hr hb middleInsertFixed (midOk_fixed b c)

/-- the `Add` of /repo (repaired middle insert + flush beyond `limit` entries) never flushes while a segment
    of at most `limit` blocks is being delivered: a well-formed cache with entries inside the segment has at
    most `n` entries -/
theorem addLive_ok (base n limit : Nat) (hn : n ≤ limit) : AddOk base n (addLive limit) := by
  intro b c hc hr hb
  obtain ⟨h1, h2, h3⟩ := addFixed_ok base n b c hc hr hb
  have hlen : (addFixed b c).cache.length ≤ base + n - base := sorted_length_le _ base (base + n) h1.sorted h3
  have e : addLive limit b c = addFixed b c := by
    unfold addLive
    have : ¬ (addFixed b c).cache.length > limit := by omega
    simp only [this, if_false]
  rw [e]
  exact ⟨h1, h2, h3⟩

end LemoProofs.SyncLoop

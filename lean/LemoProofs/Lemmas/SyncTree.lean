/-
  C20 — invariants of the receive loop model over a block TREE (competing blocks at the same height).

  The universe is `base :: T`: `T` is any finite set of blocks closed under parent (rooted at the node's base
  block), several blocks per height allowed.  The lemmas mirror `Lemmas/SyncLoop.lean` (one linear segment) and
  reuse the cache lemmas of `Lemmas/Sync.lean`, which never assumed one block per height.
-/
import LemoModel.Sync
import LemoProofs.Lemmas.Sync
import LemoProofs.Lemmas.SyncLoop
import LemoProofs.Lemmas.SyncConfirm
namespace LemoProofs.SyncTree
open LemoModel.Sync LemoProofs.SyncLemmas LemoProofs.SyncLoop LemoProofs.SyncConfirm

/-- `T` is a block tree above `base`: closed under parent (the parent of a block of `T` is `base` or a block of
    `T`, one height below), the hash identifies the block, no block of `T` carries the hash of `base`.
    Nothing is said about how many blocks share a height. -/
structure IsTree (base : Blk) (T : List Blk) : Prop where
  par : ∀ x ∈ T, ∃ p, (p = base ∨ p ∈ T) ∧ p.hash = x.parent ∧ x.height = p.height + 1
  inj : ∀ x ∈ T, ∀ y ∈ T, x.hash = y.hash → x = y
  nb : ∀ x ∈ T, x.hash ≠ base.hash

theorem u_inj {base : Blk} {T : List Blk} (hT : IsTree base T) {x y : Blk}
    (hx : x = base ∨ x ∈ T) (hy : y = base ∨ y ∈ T) (h : x.hash = y.hash) : x = y := by
  rcases hx with rfl | hx <;> rcases hy with rfl | hy
  · rfl
  · exact absurd h.symm (hT.nb y hy)
  · exact absurd h (hT.nb x hx)
  · exact hT.inj x hx y hy h

theorem height_gt_aux {base : Blk} {T : List Blk} (hT : IsTree base T) :
    ∀ (n : Nat), ∀ x ∈ T, x.height ≤ n → base.height < x.height
  | 0, x, hx, hn => by
    obtain ⟨p, _, _, e⟩ := hT.par x hx
    omega
  | n + 1, x, hx, hn => by
    obtain ⟨p, hp, _, e⟩ := hT.par x hx
    rcases hp with rfl | hp
    · omega
    · have := height_gt_aux hT n p hp (by omega)
      omega

/-- every block of the tree lies strictly above the base block -/
theorem height_gt {base : Blk} {T : List Blk} (hT : IsTree base T) (x : Blk) (hx : x ∈ T) :
    base.height < x.height := height_gt_aux hT x.height x hx (Nat.le_refl _)

/-! ### the chain -/

theorem hasBlock_iff_mem (ch : Chain) (h : Nat) : hasBlock ch h = true ↔ ∃ x ∈ ch.known, x.hash = h := by
  unfold hasBlock
  rw [List.any_eq_true]
  constructor
  · rintro ⟨x, hx, e⟩; exact ⟨x, hx, by simpa using e⟩
  · rintro ⟨x, hx, e⟩; exact ⟨x, hx, by simpa using e⟩

theorem hasBlock_mono {a b : Chain} (h : ∀ y ∈ a.known, y ∈ b.known) (k : Nat) (ha : hasBlock a k = true) :
    hasBlock b k = true := by
  obtain ⟨x, hx, e⟩ := (hasBlock_iff_mem a k).mp ha
  exact (hasBlock_iff_mem b k).mpr ⟨x, h x hx, e⟩

/-- the chain holds the base block and blocks of the tree only -/
structure TC (base : Blk) (T : List Blk) (ch : Chain) : Prop where
  known_sub : ∀ x ∈ ch.known, x = base ∨ x ∈ T
  base_known : base ∈ ch.known

theorem known_of_has {base : Blk} {T : List Blk} (hT : IsTree base T) {ch : Chain} (hc : TC base T ch)
    {x : Blk} (hx : x = base ∨ x ∈ T) (h : hasBlock ch x.hash = true) : x ∈ ch.known := by
  obtain ⟨y, hy, e⟩ := (hasBlock_iff_mem ch x.hash).mp h
  have : y = x := u_inj hT (hc.known_sub y hy) hx e
  rw [← this]; exact hy

theorem has_of_known {ch : Chain} {x : Blk} (h : x ∈ ch.known) : hasBlock ch x.hash = true :=
  (hasBlock_iff_mem ch x.hash).mpr ⟨x, h, rfl⟩

theorem tc_attached {base : Blk} {T : List Blk} {ch : Chain} (h : TC base T ch) (a : List (Nat × Nat)) :
    TC base T { ch with attached := a } := ⟨h.known_sub, h.base_known⟩

/-- `chain.InsertBlock` of a tree block whose parent is known -/
theorem insertBlock_tree {base : Blk} {T : List Blk} (hT : IsTree base T) {ch : Chain} (hc : TC base T ch)
    (x : Blk) (hx : x ∈ T) (hp : hasBlock ch x.parent = true) (sigs : List Nat) :
    (∃ ch', insertBlock ch x sigs = some ch' ∧ ch'.known = x :: ch.known ∧
        ch'.attached = ch.attached ++ sigs.map (fun s => (x.hash, s)) ∧ x ∉ ch.known ∧ TC base T ch') ∨
    (insertBlock ch x sigs = none ∧ x ∈ ch.known) := by
  unfold insertBlock
  by_cases hk : hasBlock ch x.hash = true
  · right
    simp only [hp, hk, Bool.not_true, Bool.and_false, Bool.false_eq_true, if_false, true_and]
    exact known_of_has hT hc (Or.inr hx) hk
  · left
    have hk' : hasBlock ch x.hash = false := by simpa using hk
    simp only [hp, hk', Bool.not_false, Bool.and_self, if_true]
    refine ⟨_, rfl, rfl, rfl, fun hin => hk (has_of_known hin), ?_, ?_⟩ <;> simp only
    · intro y hy
      rcases List.mem_cons.mp hy with rfl | hy
      · exact Or.inr hx
      · exact hc.known_sub y hy
    · exact List.mem_cons_of_mem _ hc.base_known

/-! ### confirmations: what is attached or cached was delivered (`D` = every confirmation of the run) -/

structure CL (D : List Confirm) (nd : Node) : Prop where
  keyok : KeyOK nd.cc
  att_sound : ∀ p ∈ nd.chain.attached, ∃ c ∈ D, c.hash = p.1 ∧ c.sig = p.2
  cc_sound : ∀ c, ccMem c nd.cc → c ∈ D

theorem cl_congr {D : List Confirm} {a b : Node} (h1 : b.chain = a.chain) (h2 : b.cc = a.cc) (h : CL D a) :
    CL D b := ⟨by rw [h2]; exact h.keyok, by rw [h1]; exact h.att_sound, by rw [h2]; exact h.cc_sound⟩

theorem pop_sound (D : List Confirm) (h k : Nat) (c : ConfirmCache) (hk : KeyOK c)
    (hs : ∀ d, ccMem d c → d ∈ D) :
    KeyOK (ccPop h k c).2 ∧ (∀ d, ccMem d (ccPop h k c).2 → d ∈ D) ∧
    (∀ d ∈ (ccPop h k c).1, d ∈ D ∧ d.hash = k) := by
  obtain ⟨q1, q2, q3, _⟩ := ccPop_spec h k c hk
  refine ⟨q3, fun d hd => hs d ((q2 d).mp hd).1, ?_⟩
  intro d hd
  obtain ⟨hm, _, e⟩ := (q1 d).mp hd
  exact ⟨hs d hm, e⟩

theorem pushLive_sound (D : List Confirm) (d : Confirm) (c : ConfirmCache) (hk : KeyOK c)
    (hs : ∀ x, ccMem x c → x ∈ D) (hd : d ∈ D) :
    KeyOK (ccPushLive 10240 d c) ∧ ∀ x, ccMem x (ccPushLive 10240 d c) → x ∈ D := by
  have h1 : KeyOK (ccPush d c) := keyOK_push d c hk
  have h2 : ∀ x, ccMem x (ccPush d c) → x ∈ D := by
    intro x hx
    rcases (ccMem_push d x c).mp hx with rfl | hx
    · exact hd
    · exact hs x hx
  unfold ccPushLive
  simp only []
  split
  · exact ⟨keyOK_clear _ _ h1, fun x hx => h2 x ((ccMem_clear _ _ _).mp hx).1⟩
  · exact ⟨h1, h2⟩

/-- `pm.insertBlock` of ANY block keeps `CL` -/
theorem pmInsert_cl (D : List Confirm) (nd : Node) (b : Blk) (h : CL D nd) : CL D (pmInsert nd b).1 := by
  obtain ⟨p1, p2, p3⟩ := pop_sound D b.height b.hash nd.cc h.keyok h.cc_sound
  obtain ⟨r1, r2, r3⟩ := pop_sound D b.height b.hash (ccPop b.height b.hash nd.cc).2 p1 p2
  unfold pmInsert pmInsertG
  simp only [List.foldl_nil]
  cases he : insertBlock nd.chain b ((ccPop b.height b.hash nd.cc).1.map (·.sig)) with
  | some ch =>
    simp only [if_true]
    have hch := insertBlock_some_eq _ _ _ _ he
    subst hch
    refine ⟨r1, ?_, r2⟩
    intro p hp
    simp only [List.mem_append, List.mem_map] at hp
    rcases hp with (hp | ⟨s, ⟨d, hd, rfl⟩, rfl⟩) | ⟨d, hd, rfl⟩
    · exact h.att_sound p hp
    · exact ⟨d, (p3 d hd).1, (p3 d hd).2, rfl⟩
    · exact ⟨d, (r3 d hd).1, (r3 d hd).2, rfl⟩
  | none =>
    simp only [Bool.true_and]
    split
    · refine ⟨r1, ?_, r2⟩
      intro p hp
      simp only [List.mem_append, List.mem_map] at hp
      rcases hp with hp | ⟨d, hd, rfl⟩
      · exact h.att_sound p hp
      · exact ⟨d, (r3 d hd).1, (r3 d hd).2, rfl⟩
    · exact ⟨p1, h.att_sound, p2⟩

theorem pmInsert_bc (nd : Node) (b : Blk) : (pmInsert nd b).1.bc = nd.bc := by
  unfold pmInsert pmInsertG
  simp only [List.foldl_nil]
  cases insertBlock nd.chain b ((ccPop b.height b.hash nd.cc).1.map (·.sig)) with
  | some ch => rfl
  | none =>
    simp only [Bool.true_and]
    split <;> rfl

/-- `pm.insertBlock` of a tree block whose parent is known: afterwards the block is in the chain -/
theorem pmInsert_tree {base : Blk} {T : List Blk} (hT : IsTree base T) (nd : Node) (hc : TC base T nd.chain)
    (x : Blk) (hx : x ∈ T) (hp : hasBlock nd.chain x.parent = true) :
    TC base T (pmInsert nd x).1.chain ∧ x ∈ (pmInsert nd x).1.chain.known ∧
    (∀ y ∈ nd.chain.known, y ∈ (pmInsert nd x).1.chain.known) ∧
    ((pmInsert nd x).2 = false → x ∈ nd.chain.known) := by
  unfold pmInsert pmInsertG
  simp only [List.foldl_nil]
  rcases insertBlock_tree hT hc x hx hp (((ccPop x.height x.hash nd.cc).1).map (·.sig)) with
    ⟨ch', he, hkn', _, _, hc'⟩ | ⟨he, hin⟩
  · simp only [he, if_true]
    refine ⟨tc_attached hc' _, by rw [hkn']; simp, ?_, by simp⟩
    intro y hy; rw [hkn']; exact List.mem_cons_of_mem _ hy
  · have hb : hasBlock nd.chain x.hash = true := has_of_known hin
    simp only [he, hb, Bool.and_self, if_true]
    exact ⟨tc_attached hc _, hin, fun y hy => hy, fun _ => hin⟩

/-! ### no quorum ⇒ the stable block stays at the base block -/

/-- distinct signers among the delivered confirmations that name block hash `h` -/
def dsigs (D : List Confirm) (h : Nat) : Nat :=
  (dedupN ((D.filter (fun c => c.hash == h)).map (·.sig))).length

/-- guard of the tree theorems: no block of the tree collects `q` distinct confirmations during the run -/
def NoQuorum (q : Nat) (T : List Blk) (D : List Confirm) : Prop := ∀ x ∈ T, dsigs D x.hash < q

theorem sigCount_le_dsigs (D : List Confirm) (att : List (Nat × Nat)) (h : Nat)
    (hs : ∀ p ∈ att, ∃ c ∈ D, c.hash = p.1 ∧ c.sig = p.2) : sigCount att h ≤ dsigs D h := by
  unfold sigCount dsigs
  apply nodup_subset_length_le _ _ (nodup_dedupN _)
  intro s hsm
  rw [mem_dedupN] at hsm ⊢
  obtain ⟨p, hp, rfl⟩ := List.mem_map.mp hsm
  obtain ⟨hp1, hp2⟩ := List.mem_filter.mp hp
  obtain ⟨c, hc, e1, e2⟩ := hs p hp1
  refine List.mem_map.mpr ⟨c, List.mem_filter.mpr ⟨hc, ?_⟩, e2⟩
  have : p.1 = h := by simpa using hp2
  simp [e1, this]

theorem stable_le {base : Blk} {T : List Blk} {D : List Confirm} {q : Nat} {nd : Node}
    (hc : TC base T nd.chain) (hcl : CL D nd) (hq : NoQuorum q T D) :
    stableHeight q nd.chain ≤ base.height := by
  unfold stableHeight
  apply maxL_le
  intro h hh
  obtain ⟨x, hx, rfl⟩ := List.mem_map.mp hh
  obtain ⟨hx1, hx2⟩ := List.mem_filter.mp hx
  have hx2 : q ≤ sigCount nd.chain.attached x.hash := by simpa using hx2
  rcases hc.known_sub x hx1 with rfl | hxT
  · exact Nat.le_refl _
  · have h1 := sigCount_le_dsigs D nd.chain.attached x.hash hcl.att_sound
    have h2 := hq x hxT
    omega

/-! ### the node -/

/-- what the receive loop needs from `Add` while blocks with heights in `(lo, lo + d]` are being delivered -/
def AddOkH (lo d : Nat) (addF : Blk → BlockCache → BlockCache) : Prop :=
  ∀ b c, WF c → InRange lo d c.cache → lo < b.height → b.height ≤ lo + d →
    WF (addF b c) ∧ (∀ x, x ∈ blocksOf (addF b c).cache ↔ x = b ∨ x ∈ blocksOf c.cache) ∧
    InRange lo d (addF b c).cache

theorem addFixed_okH (lo d : Nat) : AddOkH lo d addFixed := by
  intro b c hc hr h1 h2
  obtain ⟨w1, w2⟩ := addWith_refines middleInsertFixed b c hc (midOk_fixed b c)
  refine ⟨w1, w2, ?_⟩
  intro g hg
  rcases addWith_heights middleInsertFixed b c hc.sorted (midOk_fixed b c) g hg with e | ⟨g', hg', e⟩
  · rw [e]; exact ⟨h1, h2⟩
  · rw [← e]; exact hr g' hg'

/-- the `Add` of /repo never flushes while the delivered heights span at most `limit` values -/
theorem addLive_okH (lo d limit : Nat) (hd : d ≤ limit) : AddOkH lo d (addLive limit) := by
  intro b c hc hr h1 h2
  obtain ⟨w1, w2, w3⟩ := addFixed_okH lo d b c hc hr h1 h2
  have hlen : (addFixed b c).cache.length ≤ lo + d - lo := sorted_length_le _ lo (lo + d) w1.sorted w3
  have e : addLive limit b c = addFixed b c := by
    unfold addLive
    have : ¬ (addFixed b c).cache.length > limit := by omega
    simp only [this, if_false]
  rw [e]
  exact ⟨w1, w2, w3⟩

structure TI (base : Blk) (T : List Blk) (d : Nat) (D : List Confirm) (nd : Node) : Prop where
  ch : TC base T nd.chain
  wf : WF nd.bc
  cache_T : ∀ x ∈ blocksOf nd.bc.cache, x ∈ T
  hrange : InRange base.height d nd.bc.cache
  cl : CL D nd

/-- block `x` has reached the node: it is in the chain or waits in the cache -/
def HaveB (nd : Node) (x : Blk) : Prop := x ∈ nd.chain.known ∨ x ∈ blocksOf nd.bc.cache

theorem ti_congr {base : Blk} {T : List Blk} {d : Nat} {D : List Confirm} {a b : Node}
    (h1 : b.chain = a.chain) (h2 : b.bc = a.bc) (h3 : b.cc = a.cc) (h : TI base T d D a) : TI base T d D b :=
  ⟨by rw [h1]; exact h.ch, by rw [h2]; exact h.wf, by rw [h2]; exact h.cache_T, by rw [h2]; exact h.hrange,
    cl_congr h1 h3 h.cl⟩

theorem haveB_congr {a b : Node} (h1 : b.chain = a.chain) (h2 : b.bc = a.bc) (x : Blk) (h : HaveB a x) :
    HaveB b x := by
  unfold HaveB at *; rw [h1, h2]; exact h

/-- the hypotheses shared by all loop lemmas -/
structure Ctx (base : Blk) (T : List Blk) (d q : Nat) (D : List Confirm)
    (addF : Blk → BlockCache → BlockCache) : Prop where
  tree : IsTree base T
  hbase : 1 ≤ base.height
  depth : ∀ x ∈ T, x.height ≤ base.height + d
  noq : NoQuorum q T D
  add : AddOkH base.height d addF

/-- one block of a blocks message -/
theorem rcvBlockAt_tree {base : Blk} {T : List Blk} {d q : Nat} {D : List Confirm}
    {addF : Blk → BlockCache → BlockCache} (cx : Ctx base T d q D addF) (nd : Node) (hi : TI base T d D nd)
    (x : Blk) (hx : x ∈ T) :
    (rcvBlockAt true none addF q nd x).2 = true ∧
    TI base T d D (rcvBlockAt true none addF q nd x).1 ∧
    (∀ y, HaveB nd y → HaveB (rcvBlockAt true none addF q nd x).1 y) ∧
    HaveB (rcvBlockAt true none addF q nd x).1 x := by
  have hgt := height_gt cx.tree x hx
  have hst := stable_le hi.ch hi.cl cx.noq
  unfold rcvBlockAt
  simp only []
  split
  · rename_i c1
    refine ⟨rfl, hi, fun y hy => hy, Or.inl ?_⟩
    simp only [Bool.or_eq_true, decide_eq_true_eq] at c1
    rcases c1 with c1 | c1
    · omega
    · exact known_of_has cx.tree hi.ch (Or.inr hx) c1
  · rename_i c1
    simp only [Bool.or_eq_true, decide_eq_true_eq, not_or] at c1
    split
    · rename_i c2
      have hvic : (if (none : Option Nat) = some x.hash then (pmInsertG true [] nd x).1 else nd) = nd := by simp
      rw [hvic]
      obtain ⟨p2, p3, p4, p5⟩ := pmInsert_tree cx.tree nd hi.ch x hx c2
      have p1 := pmInsert_bc nd x
      have hr : (pmInsert nd x).2 = true := by
        cases hh : (pmInsert nd x).2 with
        | true => rfl
        | false => exact absurd (has_of_known (p5 hh)) c1.2
      have hr' : (pmInsertG true [] nd x).2 = true := hr
      simp only [hr', if_true]
      have hi' : TI base T d D (pmInsert nd x).1 :=
        ⟨p2, by rw [p1]; exact hi.wf, by rw [p1]; exact hi.cache_T, by rw [p1]; exact hi.hrange,
          pmInsert_cl D nd x hi.cl⟩
      refine ⟨trivial, hi', ?_, Or.inl p3⟩
      intro y hy
      rcases hy with hy | hy
      · exact Or.inl (p4 _ hy)
      · right; show y ∈ blocksOf (pmInsert nd x).1.bc.cache; rw [p1]; exact hy
    · split
      · have := cx.hbase
        omega
      · obtain ⟨a1, a2, a3⟩ := cx.add x nd.bc hi.wf hi.hrange hgt (cx.depth x hx)
        refine ⟨rfl, ⟨hi.ch, a1, ?_, a3, cl_congr (a := nd) rfl rfl hi.cl⟩, ?_, Or.inr ((a2 _).mpr (Or.inl rfl))⟩
        · intro y hy
          rcases (a2 y).mp hy with rfl | hy
          · exact hx
          · exact hi.cache_T y hy
        · intro y hy
          rcases hy with hy | hy
          · exact Or.inl hy
          · exact Or.inr ((a2 _).mpr (Or.inr hy))

theorem rcvBlock_tree {base : Blk} {T : List Blk} {d q : Nat} {D : List Confirm}
    {addF : Blk → BlockCache → BlockCache} (cx : Ctx base T d q D addF) (nd0 : Node) (hi0 : TI base T d D nd0)
    (x : Blk) (hx : x ∈ T) :
    (rcvBlock true none addF q nd0 x).2 = true ∧
    TI base T d D (rcvBlock true none addF q nd0 x).1 ∧
    (∀ y, HaveB nd0 y → HaveB (rcvBlock true none addF q nd0 x).1 y) ∧
    HaveB (rcvBlock true none addF q nd0 x).1 x := by
  unfold rcvBlock
  have hi : TI base T d D { nd0 with peerMax := max nd0.peerMax x.height } := ti_congr (a := nd0) rfl rfl rfl hi0
  obtain ⟨r1, r2, r3, r4⟩ := rcvBlockAt_tree cx _ hi x hx
  exact ⟨r1, r2, fun y hy => r3 y (haveB_congr (a := nd0) rfl rfl y hy), r4⟩

theorem rcvBlocks_tree {base : Blk} {T : List Blk} {d q : Nat} {D : List Confirm}
    {addF : Blk → BlockCache → BlockCache} (cx : Ctx base T d q D addF) :
    ∀ (bs : List Blk) (nd : Node), TI base T d D nd → (∀ b ∈ bs, b ∈ T) →
    TI base T d D (rcvBlocksG true none addF q nd bs) ∧
    (∀ y, HaveB nd y → HaveB (rcvBlocksG true none addF q nd bs) y) ∧
    (∀ x ∈ bs, HaveB (rcvBlocksG true none addF q nd bs) x)
  | [], nd, hi, _ => by simp [rcvBlocksG, hi]
  | b :: rest, nd, hi, hbs => by
    obtain ⟨r1, r2, r3, r4⟩ := rcvBlock_tree cx nd hi b (hbs b (by simp))
    obtain ⟨i1, i2, i3⟩ := rcvBlocks_tree cx rest _ r2 (fun b hb => hbs b (by simp [hb]))
    simp only [rcvBlocksG, r1, if_true]
    refine ⟨i1, fun y hy => i2 y (r3 y hy), ?_⟩
    intro y hy
    rcases List.mem_cons.mp hy with rfl | hy
    · exact i2 _ r4
    · exact i3 y hy

/-! ### the drain timer -/

/-- what one tick guarantees, independent of how the spawned inserts are scheduled -/
structure TickOkT (base : Blk) (T : List Blk) (d : Nat) (D : List Confirm) (nd nd' : Node) : Prop where
  inv : TI base T d D nd'
  mono : ∀ y, HaveB nd y → HaveB nd' y
  kmono : ∀ y ∈ nd.chain.known, y ∈ nd'.chain.known
  /-- a block that has arrived and whose parent was in the chain when the tick started is in the chain -/
  progress : ∀ x ∈ T, hasBlock nd.chain x.parent = true → HaveB nd x → x ∈ nd'.chain.known
  /-- … and whatever is still cached had no parent in the chain when the tick started -/
  drained : ∀ x ∈ blocksOf nd'.bc.cache, hasBlock nd.chain x.parent = false

theorem tickNow_tree {base : Blk} {T : List Blk} {d : Nat} {D : List Confirm} (hT : IsTree base T) (nd : Node)
    (hi : TI base T d D nd) :
    TickOkT base T d D nd
      { (iterateP true tickNow nd nd.bc).1 with bc := (iterateP true tickNow nd nd.bc).2.1 } := by
  obtain ⟨w1, w2, w3, _, w5, _⟩ := iterateP_wf true tickNow nd nd.bc hi.wf
  have hspec := visitKeys_spec tickNow (· ∈ T)
    (fun s => TC base T s.chain ∧ CL D s ∧ ∀ y ∈ nd.chain.known, y ∈ s.chain.known)
    (fun x s => x ∈ s.chain.known)
    (fun x => hasBlock nd.chain x.parent = true)
    (by
      rintro s x hx ⟨hc, hcl, hsub⟩
      unfold tickNow
      split
      · rename_i c
        obtain ⟨p2, _, p4, _⟩ := pmInsert_tree hT s hc x hx c
        exact ⟨p2, pmInsert_cl D s x hcl, fun y hy => p4 y (hsub y hy)⟩
      · exact ⟨hc, hcl, hsub⟩)
    (by
      rintro s x hx ⟨hc, _, _⟩ ht
      unfold tickNow at ht ⊢
      split
      · rename_i c
        exact (pmInsert_tree hT s hc x hx c).2.1
      · rename_i c; simp [c] at ht)
    (by
      rintro s x y hx ⟨hc, _, _⟩ hy
      unfold tickNow
      split
      · rename_i c
        exact (pmInsert_tree hT s hc x hx c).2.2.1 y hy
      · exact hy)
    (by
      rintro s x _ ⟨_, _, hsub⟩ hg
      unfold tickNow
      have : hasBlock s.chain x.parent = true := hasBlock_mono hsub _ hg
      simp [this])
    (blocksOf nd.bc.cache) nd hi.cache_T ⟨hi.ch, hi.cl, fun y hy => hy⟩
  obtain ⟨⟨s1, s1c, s1b⟩, s2, _, s4⟩ := hspec
  rw [← w2] at s1 s1b s1c s2
  refine ⟨⟨s1, w1, ?_, ?_, cl_congr (a := (iterateP true tickNow nd nd.bc).1) rfl rfl s1c⟩, ?_, s1b, ?_, ?_⟩
  · intro x hx
    exact hi.cache_T x ((w3 x).mp hx).1
  · intro g hg
    obtain ⟨g', hg', e⟩ := w5 g hg
    rw [← e]; exact hi.hrange g' hg'
  · intro y hy
    rcases hy with hy | hy
    · exact Or.inl (s1b _ hy)
    · by_cases hd : y ∈ (visitKeys tickNow nd (blocksOf nd.bc.cache)).2
      · exact Or.inl (s2 _ hd)
      · exact Or.inr ((w3 _).mpr ⟨hy, hd⟩)
  · intro x _ hp hy
    rcases hy with hy | hy
    · exact s1b _ hy
    · exact s2 _ (s4 _ hy hp)
  · intro x hx
    obtain ⟨h1, h2⟩ := (w3 x).mp hx
    cases hp : hasBlock nd.chain x.parent with
    | false => rfl
    | true => exact absurd (s4 x h1 hp) h2

theorem foldl_pmInsert_tree {base : Blk} {T : List Blk} {D : List Confirm} (hT : IsTree base T) :
    ∀ (pend : List Blk) (nd : Node), TC base T nd.chain → CL D nd →
    (∀ x ∈ pend, x ∈ T ∧ hasBlock nd.chain x.parent = true) →
    (pend.foldl (fun m b => (pmInsert m b).1) nd).bc = nd.bc ∧
    TC base T (pend.foldl (fun m b => (pmInsert m b).1) nd).chain ∧
    CL D (pend.foldl (fun m b => (pmInsert m b).1) nd) ∧
    (∀ y ∈ nd.chain.known, y ∈ (pend.foldl (fun m b => (pmInsert m b).1) nd).chain.known) ∧
    (∀ x ∈ pend, x ∈ (pend.foldl (fun m b => (pmInsert m b).1) nd).chain.known)
  | [], nd, hc, hcl, _ => by simp [hc, hcl]
  | b :: rest, nd, hc, hcl, hp => by
    obtain ⟨hbT, hbp⟩ := hp b (by simp)
    obtain ⟨p2, p3, p4, _⟩ := pmInsert_tree hT nd hc b hbT hbp
    have p1 := pmInsert_bc nd b
    obtain ⟨i1, i2, i3, i4, i5⟩ := foldl_pmInsert_tree hT rest (pmInsert nd b).1 p2 (pmInsert_cl D nd b hcl) (by
      intro x hx
      obtain ⟨a1, a2⟩ := hp x (by simp [hx])
      exact ⟨a1, hasBlock_mono p4 _ a2⟩)
    simp only [List.foldl_cons]
    refine ⟨by rw [i1, p1], i2, i3, fun y hy => i4 y (p4 y hy), ?_⟩
    intro x hx
    rcases List.mem_cons.mp hx with rfl | hx
    · exact i4 _ p3
    · exact i5 x hx

theorem tickLater_tree {base : Blk} {T : List Blk} {d : Nat} {D : List Confirm} (hT : IsTree base T) (nd : Node)
    (hi : TI base T d D nd) :
    TickOkT base T d D nd
      ((iterateP true (fun pend b => tickLater nd.chain pend b) [] nd.bc).1.foldl (fun m b => (pmInsert m b).1)
        { nd with bc := (iterateP true (fun pend b => tickLater nd.chain pend b) [] nd.bc).2.1 }) := by
  obtain ⟨w1, w2, w3, _, w5, _⟩ := iterateP_wf true (fun pend b => tickLater nd.chain pend b) [] nd.bc hi.wf
  have hspec := visitKeys_spec (fun pend b => tickLater nd.chain pend b) (· ∈ T)
    (fun pend => ∀ x ∈ pend, x ∈ T ∧ hasBlock nd.chain x.parent = true)
    (fun x pend => x ∈ pend)
    (fun x => hasBlock nd.chain x.parent = true)
    (by
      rintro pend x hx hp
      unfold tickLater
      split
      · rename_i c
        intro y hy
        rcases List.mem_append.mp hy with hy | hy
        · exact hp y hy
        · simp at hy; subst hy
          exact ⟨hx, c⟩
      · exact hp)
    (by
      rintro pend x _ _ ht
      unfold tickLater at ht ⊢
      split
      · simp
      · rename_i c; simp [c] at ht)
    (by
      rintro pend x y _ _ hy
      unfold tickLater
      split
      · exact List.mem_append_left _ hy
      · exact hy)
    (by
      rintro pend x _ _ hg
      unfold tickLater
      simp [hg])
    (blocksOf nd.bc.cache) [] hi.cache_T (by simp)
  obtain ⟨s1, s2, _, s4⟩ := hspec
  rw [← w2] at s1 s2
  obtain ⟨f1, f2, f2c, f3, f4⟩ := foldl_pmInsert_tree (D := D) hT _
    { nd with bc := (iterateP true (fun pend b => tickLater nd.chain pend b) [] nd.bc).2.1 } hi.ch
    (cl_congr (a := nd) rfl rfl hi.cl) s1
  refine ⟨⟨f2, by rw [f1]; exact w1, ?_, ?_, f2c⟩, ?_, f3, ?_, ?_⟩
  · intro x hx
    rw [f1] at hx
    exact hi.cache_T x ((w3 x).mp hx).1
  · rw [f1]
    intro g hg
    obtain ⟨g', hg', e⟩ := w5 g hg
    rw [← e]; exact hi.hrange g' hg'
  · intro y hy
    rcases hy with hy | hy
    · exact Or.inl (f3 _ hy)
    · by_cases hd : y ∈ (visitKeys (fun pend b => tickLater nd.chain pend b) [] (blocksOf nd.bc.cache)).2
      · exact Or.inl (f4 _ (s2 _ hd))
      · right; rw [f1]; exact (w3 _).mpr ⟨hy, hd⟩
  · intro x _ hp hy
    rcases hy with hy | hy
    · exact f3 _ hy
    · exact f4 _ (s2 _ (s4 _ hy hp))
  · intro x hx
    rw [f1] at hx
    obtain ⟨h1, h2⟩ := (w3 x).mp hx
    cases hp : hasBlock nd.chain x.parent with
    | false => rfl
    | true => exact absurd (s4 x h1 hp) h2

theorem tick_tree {base : Blk} {T : List Blk} {d : Nat} {D : List Confirm} (hT : IsTree base T) (async : Bool)
    (nd : Node) (hi : TI base T d D nd) : TickOkT base T d D nd (tick async nd) := by
  have key : ∀ (nd' : Node) (cond : Bool) (r : Nat), TickOkT base T d D nd nd' →
      TickOkT base T d D nd (if cond = true then { nd' with requests := r :: nd'.requests } else nd') := by
    intro nd' cond r h
    split
    · exact ⟨ti_congr (a := nd') rfl rfl rfl h.inv, fun y hy => haveB_congr (a := nd') rfl rfl y (h.mono y hy),
        h.kmono, h.progress, h.drained⟩
    · exact h
  unfold tick tickG
  cases async with
  | true => exact key _ _ _ (tickLater_tree hT nd hi)
  | false => exact key _ _ _ (tickNow_tree hT nd hi)

/-! ### confirms and stable events -/

theorem rcvConfirm_tree {base : Blk} {T : List Blk} {d : Nat} {D : List Confirm} (nd : Node) (c : Confirm)
    (hc : c ∈ D) (hi : TI base T d D nd) :
    TI base T d D (rcvConfirm nd c) ∧ (∀ y, HaveB nd y → HaveB (rcvConfirm nd c) y) := by
  unfold rcvConfirm
  split
  · refine ⟨⟨tc_attached hi.ch _, hi.wf, hi.cache_T, hi.hrange, ⟨hi.cl.keyok, ?_, hi.cl.cc_sound⟩⟩, fun y hy => hy⟩
    intro p hp
    simp only [List.mem_append, List.mem_singleton] at hp
    rcases hp with hp | rfl
    · exact hi.cl.att_sound p hp
    · exact ⟨c, hc, rfl, rfl⟩
  · obtain ⟨k1, k2⟩ := pushLive_sound D c nd.cc hi.cl.keyok hi.cl.cc_sound hc
    exact ⟨⟨hi.ch, hi.wf, hi.cache_T, hi.hrange, ⟨k1, hi.cl.att_sound, k2⟩⟩, fun y hy => hy⟩

/-- `stableBlockLoop`'s cache clearing at a stable height that never passed the base block removes no tree block -/
theorem onStable_tree {base : Blk} {T : List Blk} {d q : Nat} {D : List Confirm} (hT : IsTree base T)
    (hq : NoQuorum q T D) (nd : Node) (hi : TI base T d D nd) :
    TI base T d D (onStable (stableHeight q nd.chain) nd) ∧
    (∀ y, HaveB nd y → HaveB (onStable (stableHeight q nd.chain) nd) y) := by
  have hst := stable_le hi.ch hi.cl hq
  unfold onStable
  refine ⟨⟨hi.ch, clear_wf _ _ hi.wf, ?_, ?_, ⟨keyOK_clear _ _ hi.cl.keyok, hi.cl.att_sound, ?_⟩⟩, ?_⟩
  · intro x hx
    simp only [clear] at hx
    exact hi.cache_T x ((mem_clear_sorted _ nd.bc.cache hi.wf.sorted hi.wf.hts x).mp hx).1
  · intro g hg
    simp only [clear] at hg
    exact hi.hrange g ((List.dropWhile_sublist _).subset hg)
  · intro c hc
    exact hi.cl.cc_sound c ((ccMem_clear _ _ _).mp hc).1
  · intro y hy
    rcases hy with hy | hy
    · exact Or.inl hy
    · right
      simp only [clear]
      have := height_gt hT y (hi.cache_T y hy)
      exact (mem_clear_sorted _ nd.bc.cache hi.wf.sorted hi.wf.hts _).mpr ⟨hy, by omega⟩

/-! ### whole runs -/

/-- messages of the tree theorems: blocks of the tree (any number per height, from any peer); confirmations
    among `D`; ticks; stable events -/
def ValidMsgT (T : List Blk) (D : List Confirm) : Msg → Prop
  | .blocks bs => ∀ b ∈ bs, b ∈ T
  | .confirm c => c ∈ D
  | _ => True

theorem step_tree {base : Blk} {T : List Blk} {d q : Nat} {D : List Confirm}
    {addF : Blk → BlockCache → BlockCache} (cx : Ctx base T d q D addF) (nd : Node) (m : Msg)
    (hi : TI base T d D nd) (hv : ValidMsgT T D m) :
    TI base T d D (step addF q nd m) ∧ (∀ y, HaveB nd y → HaveB (step addF q nd m) y) ∧
    (∀ bs, m = .blocks bs → ∀ x ∈ bs, HaveB (step addF q nd m) x) := by
  cases m with
  | blocks bs =>
    obtain ⟨i1, i2, i3⟩ := rcvBlocks_tree cx bs nd hi hv
    exact ⟨i1, i2, fun bs' he x hx => by cases he; exact i3 x hx⟩
  | confirm c =>
    obtain ⟨i1, i2⟩ := rcvConfirm_tree nd c hv hi
    exact ⟨i1, i2, fun bs' he => by cases he⟩
  | tick a =>
    have h := tick_tree cx.tree a nd hi
    exact ⟨h.inv, h.mono, fun bs' he => by cases he⟩
  | stable =>
    obtain ⟨i1, i2⟩ := onStable_tree cx.tree cx.noq nd hi
    exact ⟨i1, i2, fun bs' he => by cases he⟩

theorem run_tree {base : Blk} {T : List Blk} {d q : Nat} {D : List Confirm}
    {addF : Blk → BlockCache → BlockCache} (cx : Ctx base T d q D addF) :
    ∀ (ms : List Msg) (nd : Node), TI base T d D nd → (∀ m ∈ ms, ValidMsgT T D m) →
    TI base T d D (runMsgs addF q nd ms) ∧ (∀ y, HaveB nd y → HaveB (runMsgs addF q nd ms) y) ∧
    (∀ bs, Msg.blocks bs ∈ ms → ∀ x ∈ bs, HaveB (runMsgs addF q nd ms) x)
  | [], nd, hi, _ => by simp [runMsgs, hi]
  | m :: ms, nd, hi, hv => by
    obtain ⟨s1, s2, s3⟩ := step_tree cx nd m hi (hv m (by simp))
    obtain ⟨r1, r2, r3⟩ := run_tree cx ms (step addF q nd m) s1 (fun m' hm' => hv m' (by simp [hm']))
    have e : runMsgs addF q nd (m :: ms) = runMsgs addF q (step addF q nd m) ms := by simp [runMsgs]
    rw [e]
    refine ⟨r1, fun y hy => r2 y (s2 y hy), ?_⟩
    intro bs hbs x hx
    rcases List.mem_cons.mp hbs with hbs | hbs
    · exact r2 x (s3 bs hbs.symm x hx)
    · exact r3 bs hbs x hx

/-- once every block of the tree has arrived, `j` drain ticks (any scheduling) put every block up to `j` levels
    above the base block into the chain and out of the cache -/
theorem ticks_tree {base : Blk} {T : List Blk} {d q : Nat} {D : List Confirm}
    {addF : Blk → BlockCache → BlockCache} (hT : IsTree base T) :
    ∀ (modes : List Bool) (nd : Node) (j : Nat), TI base T d D nd → (∀ x ∈ T, HaveB nd x) →
    (∀ x ∈ T, x.height ≤ base.height + j → x ∈ nd.chain.known ∧ x ∉ blocksOf nd.bc.cache) →
    TI base T d D (runMsgs addF q nd (modes.map Msg.tick)) ∧
    (∀ x ∈ T, x.height ≤ base.height + j + modes.length →
      x ∈ (runMsgs addF q nd (modes.map Msg.tick)).chain.known ∧
      x ∉ blocksOf (runMsgs addF q nd (modes.map Msg.tick)).bc.cache)
  | [], nd, j, hi, _, hj => by
    simp only [List.map_nil, runMsgs, List.foldl_nil, List.length_nil, Nat.add_zero]
    exact ⟨hi, hj⟩
  | a :: modes, nd, j, hi, hall, hj => by
    have h := tick_tree hT a nd hi
    have e : runMsgs addF q nd ((a :: modes).map Msg.tick) = runMsgs addF q (tick a nd) (modes.map Msg.tick) := by
      simp [runMsgs, step]
    rw [e]
    have hj' : ∀ x ∈ T, x.height ≤ base.height + (j + 1) →
        x ∈ (tick a nd).chain.known ∧ x ∉ blocksOf (tick a nd).bc.cache := by
      intro x hx hle
      obtain ⟨p, hp, hph, hxh⟩ := hT.par x hx
      have hpk : p ∈ nd.chain.known := by
        rcases hp with rfl | hp
        · exact hi.ch.base_known
        · exact (hj p hp (by omega)).1
      have hpar : hasBlock nd.chain x.parent = true := by
        rw [← hph]; exact has_of_known hpk
      refine ⟨h.progress x hx hpar (hall x hx), ?_⟩
      intro hin
      have := h.drained x hin
      rw [hpar] at this
      cases this
    obtain ⟨r1, r2⟩ := ticks_tree (addF := addF) (q := q) hT modes (tick a nd) (j + 1) h.inv
      (fun x hx => h.mono x (hall x hx)) hj'
    refine ⟨r1, ?_⟩
    intro x hx hle
    apply r2 x hx
    simp only [List.length_cons] at hle
    omega

end LemoProofs.SyncTree

/-
  C20 — block trees: (1) the parent-before-child delivery needs no cache and no tick; (2) confirmations over a
  tree: every delivered confirmation of a tree block ends up attached to its block (early through the confirm
  cache and `mergeConfirmsFromCache`, late through `InsertConfirms`), whatever fork the block is on.
-/
import LemoModel.Sync
import LemoProofs.Lemmas.Sync
import LemoProofs.Lemmas.SyncLoop
import LemoProofs.Lemmas.SyncConfirm
import LemoProofs.Lemmas.SyncTree
namespace LemoProofs.SyncTree
open LemoModel.Sync LemoProofs.SyncLemmas LemoProofs.SyncLoop LemoProofs.SyncConfirm

/-! ### parent before child -/

/-- a block whose parent is in the chain goes straight into the chain: the cache is not touched -/
theorem rcvBlockAt_direct {base : Blk} {T : List Blk} {d q : Nat} {D : List Confirm}
    {addF : Blk → BlockCache → BlockCache} (cx : Ctx base T d q D addF) (nd : Node) (hi : TI base T d D nd)
    (x : Blk) (hx : x ∈ T) (hp : hasBlock nd.chain x.parent = true) :
    (rcvBlockAt true none addF q nd x).1.bc = nd.bc ∧ x ∈ (rcvBlockAt true none addF q nd x).1.chain.known ∧
    (∀ y ∈ nd.chain.known, y ∈ (rcvBlockAt true none addF q nd x).1.chain.known) := by
  have hgt := height_gt cx.tree x hx
  have hst := stable_le hi.ch hi.cl cx.noq
  unfold rcvBlockAt
  simp only []
  split
  · rename_i c1
    refine ⟨rfl, ?_, fun y hy => hy⟩
    simp only [Bool.or_eq_true, decide_eq_true_eq] at c1
    rcases c1 with c1 | c1
    · omega
    · exact known_of_has cx.tree hi.ch (Or.inr hx) c1
  · rename_i c1
    simp only [Bool.or_eq_true, decide_eq_true_eq, not_or] at c1
    have hvic : (if (none : Option Nat) = some x.hash then (pmInsertG true [] nd x).1 else nd) = nd := by simp
    rw [hvic]
    obtain ⟨_, p3, p4, p5⟩ := pmInsert_tree cx.tree nd hi.ch x hx hp
    have p1 := pmInsert_bc nd x
    have hr : (pmInsertG true [] nd x).2 = true := by
      cases hh : (pmInsert nd x).2 with
      | true => exact hh
      | false => exact absurd (has_of_known (p5 hh)) c1.2
    simp only [hr, if_true]
    exact ⟨p1, p3, p4⟩

/-- the list is in parent-before-child order: the parent of every block is among `seen` (hashes) or earlier in
    the list -/
def ParentFirst : List Nat → List Blk → Prop
  | _, [] => True
  | seen, x :: rest => x.parent ∈ seen ∧ ParentFirst (x.hash :: seen) rest

theorem inorder_tree {base : Blk} {T : List Blk} {d q : Nat} {D : List Confirm}
    {addF : Blk → BlockCache → BlockCache} (cx : Ctx base T d q D addF) :
    ∀ (L : List Blk) (seen : List Nat) (nd : Node), TI base T d D nd → (∀ x ∈ L, x ∈ T) →
    ParentFirst seen L → (∀ h ∈ seen, hasBlock nd.chain h = true) →
    TI base T d D (runMsgs addF q nd (L.map (fun b => Msg.blocks [b]))) ∧
    (runMsgs addF q nd (L.map (fun b => Msg.blocks [b]))).bc = nd.bc ∧
    (∀ y ∈ nd.chain.known, y ∈ (runMsgs addF q nd (L.map (fun b => Msg.blocks [b]))).chain.known) ∧
    (∀ x ∈ L, x ∈ (runMsgs addF q nd (L.map (fun b => Msg.blocks [b]))).chain.known)
  | [], seen, nd, hi, _, _, _ => by simp [runMsgs, hi]
  | x :: rest, seen, nd, hi, hL, hpf, hseen => by
    obtain ⟨hpar, hpf'⟩ := hpf
    have hx := hL x (by simp)
    have hp : hasBlock nd.chain x.parent = true := hseen _ hpar
    have e : runMsgs addF q nd ((x :: rest).map (fun b => Msg.blocks [b])) =
        runMsgs addF q (rcvBlock true none addF q nd x).1 (rest.map (fun b => Msg.blocks [b])) := by
      simp only [List.map_cons, runMsgs, List.foldl_cons, step, rcvBlocks, rcvBlocksG]
      split <;> rfl
    rw [e]
    obtain ⟨_, r2, _, _⟩ := rcvBlock_tree cx nd hi x hx
    have hi0 : TI base T d D { nd with peerMax := max nd.peerMax x.height } := ti_congr (a := nd) rfl rfl rfl hi
    obtain ⟨d1, d2, d3⟩ := rcvBlockAt_direct cx _ hi0 x hx hp
    have d1' : (rcvBlock true none addF q nd x).1.bc = nd.bc := d1
    have d2' : x ∈ (rcvBlock true none addF q nd x).1.chain.known := d2
    have d3' : ∀ y ∈ nd.chain.known, y ∈ (rcvBlock true none addF q nd x).1.chain.known := d3
    obtain ⟨i1, i2, i3, i4⟩ := inorder_tree cx rest (x.hash :: seen) _ r2 (fun y hy => hL y (by simp [hy])) hpf' (by
      intro h hh
      rcases List.mem_cons.mp hh with rfl | hh
      · exact has_of_known d2'
      · exact hasBlock_mono d3' _ (hseen h hh))
    refine ⟨i1, by rw [i2, d1'], fun y hy => i3 y (d3' y hy), ?_⟩
    intro y hy
    rcases List.mem_cons.mp hy with rfl | hy
    · exact i3 _ d2'
    · exact i4 y hy

/-! ### confirmations -/

/-- a confirmation of a block of the tree (right hash, right height) -/
def VCT (T : List Blk) (c : Confirm) : Prop := ∃ x ∈ T, c.hash = x.hash ∧ c.height = x.height

/-- `D` = the confirmations delivered so far: each of them is attached if its block is in the chain and waits in the
    confirm cache otherwise.  (Soundness — nothing else is attached or cached — is `CL`.) -/
structure CIT (base : Blk) (d : Nat) (D : List Confirm) (nd : Node) : Prop where
  att_complete : ∀ c ∈ D, hasBlock nd.chain c.hash = true → (c.hash, c.sig) ∈ nd.chain.attached
  pending : ∀ c ∈ D, hasBlock nd.chain c.hash = false → ccMem c nd.cc
  cc_unknown : ∀ c, ccMem c nd.cc → hasBlock nd.chain c.hash = false
  keys_nodup : (nd.cc.map (·.1)).Nodup
  keys_range : ∀ h ∈ nd.cc.map (·.1), base.height < h ∧ h ≤ base.height + d

theorem cit_congr {base : Blk} {d : Nat} {D : List Confirm} {a b : Node} (h1 : b.chain = a.chain) (h2 : b.cc = a.cc)
    (h : CIT base d D a) : CIT base d D b := by
  obtain ⟨a1, a2, a3, a4, a5⟩ := h
  exact ⟨by rw [h1]; exact a1, by rw [h1, h2]; exact a2, by rw [h1, h2]; exact a3, by rw [h2]; exact a4,
    by rw [h2]; exact a5⟩

theorem cit_perm {base : Blk} {d : Nat} {D D' : List Confirm} {nd : Node} (hd : ∀ c, c ∈ D ↔ c ∈ D')
    (h : CIT base d D nd) : CIT base d D' nd :=
  ⟨fun c hc => h.att_complete c ((hd c).mpr hc), fun c hc => h.pending c ((hd c).mpr hc), h.cc_unknown,
    h.keys_nodup, h.keys_range⟩

theorem hasBlock_att (ch : Chain) (a : List (Nat × Nat)) (h : Nat) :
    hasBlock { ch with attached := a } h = hasBlock ch h := rfl

theorem hasBlock_cons_known (ch ch' : Chain) (x : Blk) (hk : ch'.known = x :: ch.known) (h : Nat) :
    hasBlock ch' h = true ↔ h = x.hash ∨ hasBlock ch h = true := by
  rw [hasBlock_iff_mem, hasBlock_iff_mem, hk]
  constructor
  · rintro ⟨y, hy, e⟩
    rcases List.mem_cons.mp hy with rfl | hy
    · exact Or.inl e.symm
    · exact Or.inr ⟨y, hy, e⟩
  · rintro (rfl | ⟨y, hy, e⟩)
    · exact ⟨x, by simp, rfl⟩
    · exact ⟨y, List.mem_cons_of_mem _ hy, e⟩

/-- a valid confirmation that names the hash of tree block `x` carries the height of `x` -/
theorem vct_height {base : Blk} {T : List Blk} (hT : IsTree base T) {c : Confirm} (hv : VCT T c) {x : Blk}
    (hx : x ∈ T) (e : c.hash = x.hash) : c.height = x.height := by
  obtain ⟨y, hy, e1, e2⟩ := hv
  have : y = x := hT.inj y hy x hx (by rw [← e1, e])
  rw [e2, this]

/-- `pm.insertBlock` keeps the confirmation invariant: the early confirmations of the block move from the cache to
    the chain exactly when the block enters the chain — whatever competes with it at the same height -/
theorem pmInsert_cit {base : Blk} {T : List Blk} {d : Nat} (hT : IsTree base T) (Dt D : List Confirm)
    (hdv : ∀ c ∈ Dt, VCT T c) (nd : Node) (hc : TC base T nd.chain) (hcl : CL Dt nd) (hci : CIT base d D nd)
    (x : Blk) (hx : x ∈ T) (hp : hasBlock nd.chain x.parent = true) : CIT base d D (pmInsert nd x).1 := by
  obtain ⟨q1, q2, q3, q4⟩ := ccPop_spec x.height x.hash nd.cc hcl.keyok
  obtain ⟨r1, r2, _, r4⟩ := ccPop_spec x.height x.hash (ccPop x.height x.hash nd.cc).2 q3
  have hmem2 : ∀ c, ccMem c (ccPop x.height x.hash (ccPop x.height x.hash nd.cc).2).2 ↔
      ccMem c nd.cc ∧ ¬ (c.height = x.height ∧ c.hash = x.hash) := by
    intro c
    rw [r2 c, q2 c]
    constructor
    · exact fun h => h.1
    · exact fun h => ⟨h, h.2⟩
  have hmatch : ∀ c, ccMem c nd.cc → c.hash = x.hash → c.height = x.height ∧ c.hash = x.hash := by
    intro c hm e
    exact ⟨vct_height hT (hdv c (hcl.cc_sound c hm)) hx e, e⟩
  unfold pmInsert pmInsertG
  simp only [List.foldl_nil]
  rcases insertBlock_tree hT hc x hx hp (((ccPop x.height x.hash nd.cc).1).map (·.sig)) with
    ⟨ch', he, hkn', hatt', hnk, _⟩ | ⟨he, hin⟩
  · simp only [he, if_true]
    have hnb : hasBlock nd.chain x.hash = false := by
      cases hh : hasBlock nd.chain x.hash with
      | false => rfl
      | true => exact absurd (known_of_has hT hc (Or.inr hx) hh) hnk
    have hb' : ∀ (h : Nat), hasBlock ch' h = true ↔ h = x.hash ∨ hasBlock nd.chain h = true :=
      hasBlock_cons_known nd.chain ch' x hkn'
    refine ⟨?_, ?_, ?_, by rw [r4, q4]; exact hci.keys_nodup, by rw [r4, q4]; exact hci.keys_range⟩
    · intro c hcD hb
      have hb1 : hasBlock ch' c.hash = true := hb
      simp only [List.mem_append, List.mem_map]
      rcases (hb' _).mp hb1 with e | hold
      · have hm := hci.pending c hcD (by rw [e]; exact hnb)
        have hpop : c ∈ (ccPop x.height x.hash nd.cc).1 := (q1 c).mpr ⟨hm, hmatch c hm e⟩
        left
        rw [hatt']
        simp only [List.mem_append, List.mem_map]
        right
        exact ⟨c.sig, ⟨c, hpop, rfl⟩, by rw [e]⟩
      · left
        rw [hatt']
        exact List.mem_append_left _ (hci.att_complete c hcD hold)
    · intro c hcD hb
      have hb1 : hasBlock ch' c.hash = false := hb
      have hb2 : ¬ (c.hash = x.hash ∨ hasBlock nd.chain c.hash = true) := by
        intro h
        have := (hb' _).mpr h
        rw [hb1] at this
        cases this
      have hold : hasBlock nd.chain c.hash = false := by
        cases hh : hasBlock nd.chain c.hash with
        | false => rfl
        | true => exact absurd (Or.inr hh) hb2
      exact (hmem2 c).mpr ⟨hci.pending c hcD hold, fun h => hb2 (Or.inl h.2)⟩
    · intro c hm
      obtain ⟨hm1, hnm⟩ := (hmem2 c).mp hm
      show hasBlock ch' c.hash = false
      cases hh : hasBlock ch' c.hash with
      | false => rfl
      | true =>
        rcases (hb' _).mp hh with e | hold
        · exact absurd (hmatch c hm1 e) hnm
        · rw [hci.cc_unknown c hm1] at hold; cases hold
  · have hb : hasBlock nd.chain x.hash = true := has_of_known hin
    simp only [he, hb, Bool.and_self, if_true]
    have hnone : ∀ c, ccMem c nd.cc → ¬ (c.height = x.height ∧ c.hash = x.hash) := by
      intro c hm hk
      have := hci.cc_unknown c hm
      rw [hk.2, hb] at this
      cases this
    refine ⟨?_, ?_, ?_, by rw [r4, q4]; exact hci.keys_nodup, by rw [r4, q4]; exact hci.keys_range⟩
    · intro c hcD hbc
      exact List.mem_append_left _ (hci.att_complete c hcD hbc)
    · intro c hcD hbc
      have hm := hci.pending c hcD hbc
      exact (hmem2 c).mpr ⟨hm, hnone c hm⟩
    · intro c hm
      exact hci.cc_unknown c ((hmem2 c).mp hm).1

/-- `handleConfirmMsg` for a confirmation of a tree block (the confirm cache never holds more than `d` heights, so
    `Push` does not flush while `d ≤ 10240`) -/
theorem rcvConfirm_cit {base : Blk} {T : List Blk} {d : Nat} (hT : IsTree base T) (hd : d ≤ 10240)
    (hdepth : ∀ x ∈ T, x.height ≤ base.height + d) (D : List Confirm) (nd : Node)
    (hci : CIT base d D nd) (c : Confirm) (hv : VCT T c) : CIT base d (c :: D) (rcvConfirm nd c) := by
  unfold rcvConfirm
  split
  · rename_i hb
    refine ⟨?_, ?_, hci.cc_unknown, hci.keys_nodup, hci.keys_range⟩
    · intro y hy hby
      simp only [List.mem_append, List.mem_singleton]
      rcases List.mem_cons.mp hy with rfl | hy
      · exact Or.inr rfl
      · exact Or.inl (hci.att_complete y hy hby)
    · intro y hy hby
      rcases List.mem_cons.mp hy with rfl | hy
      · have : hasBlock nd.chain y.hash = false := hby
        rw [hb] at this; cases this
      · exact hci.pending y hy hby
  · rename_i hb
    have hnb : hasBlock nd.chain c.hash = false := by simpa using hb
    obtain ⟨x, hx, e1, e2⟩ := hv
    have hgt := height_gt hT x hx
    have hle := hdepth x hx
    have hkeys : (ccPush c nd.cc).map (·.1) =
        if c.height ∈ nd.cc.map (·.1) then nd.cc.map (·.1) else nd.cc.map (·.1) ++ [c.height] := by
      unfold ccPush; exact keys_alSet _ _ _
    have hnd : ((ccPush c nd.cc).map (·.1)).Nodup := by
      rw [hkeys]
      split
      · exact hci.keys_nodup
      · rename_i hnot
        rw [List.nodup_append]
        refine ⟨hci.keys_nodup, by simp, ?_⟩
        intro a ha b hb'
        simp at hb'; subst hb'
        intro e; subst e; exact hnot ha
    have hrg : ∀ h ∈ (ccPush c nd.cc).map (·.1), base.height < h ∧ h ≤ base.height + d := by
      rw [hkeys]
      split
      · exact hci.keys_range
      · intro h hh
        rcases List.mem_append.mp hh with hh | hh
        · exact hci.keys_range h hh
        · simp at hh; subst hh; omega
    have hlen : (ccPush c nd.cc).length ≤ d := by
      have := keys_length_le base.height d _ hnd hrg
      simpa using this
    have hlive : ccPushLive 10240 c nd.cc = ccPush c nd.cc := by
      unfold ccPushLive
      have : ¬ (ccPush c nd.cc).length > 10240 := by omega
      simp only [this, if_false]
    rw [hlive]
    refine ⟨?_, ?_, ?_, hnd, hrg⟩
    · intro y hy hby
      rcases List.mem_cons.mp hy with rfl | hy
      · have : hasBlock nd.chain y.hash = true := hby
        rw [hnb] at this; cases this
      · exact hci.att_complete y hy hby
    · intro y hy hby
      rcases List.mem_cons.mp hy with rfl | hy
      · exact (ccMem_push _ _ _).mpr (Or.inl rfl)
      · exact (ccMem_push _ _ _).mpr (Or.inr (hci.pending y hy hby))
    · intro y hm
      rcases (ccMem_push _ _ _).mp hm with rfl | hm
      · exact hnb
      · exact hci.cc_unknown y hm

/-- `stableBlockLoop`'s `Clear` at a stable height that never passed the base block removes no confirmation -/
theorem onStable_cit {base : Blk} {T : List Blk} {d q : Nat} {Dt : List Confirm} (D : List Confirm) (nd : Node)
    (hc : TC base T nd.chain) (hcl : CL Dt nd) (hq : NoQuorum q T Dt) (hci : CIT base d D nd) :
    CIT base d D (onStable (stableHeight q nd.chain) nd) := by
  have hst := stable_le hc hcl hq
  unfold onStable
  have hkeep : ∀ c, ccMem c nd.cc → stableHeight q nd.chain < c.height := by
    intro c hm
    obtain ⟨hm', l, e1, _, _⟩ := hm
    have := hci.keys_range c.height (alGet_some_mem_keys _ _ _ e1)
    omega
  refine ⟨hci.att_complete, ?_, ?_, ?_, ?_⟩
  · intro c hcD hb
    have hm := hci.pending c hcD hb
    exact (ccMem_clear _ _ _).mpr ⟨hm, hkeep c hm⟩
  · intro c hm
    exact hci.cc_unknown c ((ccMem_clear _ _ _).mp hm).1
  · unfold ccClear
    exact hci.keys_nodup.sublist (List.Sublist.map _ List.filter_sublist)
  · unfold ccClear
    intro h hh
    exact hci.keys_range h ((List.Sublist.map _ List.filter_sublist).subset hh)

/-! ### through the receive loop -/

theorem rcvBlockAt_cit {base : Blk} {T : List Blk} {d q : Nat} {Dt : List Confirm}
    {addF : Blk → BlockCache → BlockCache} (cx : Ctx base T d q Dt addF) (hdv : ∀ c ∈ Dt, VCT T c)
    (D : List Confirm) (nd : Node) (hi : TI base T d Dt nd) (hci : CIT base d D nd) (x : Blk) (hx : x ∈ T) :
    CIT base d D (rcvBlockAt true none addF q nd x).1 := by
  unfold rcvBlockAt
  simp only []
  split
  · exact hci
  · split
    · rename_i c2
      have hvic : (if (none : Option Nat) = some x.hash then (pmInsertG true [] nd x).1 else nd) = nd := by simp
      rw [hvic]
      have h := pmInsert_cit cx.tree Dt D hdv nd hi.ch hi.cl hci x hx c2
      have e : ∀ (r : Node × Bool) (c : Bool),
          (if r.2 = true then (r.1, true) else if c = true then (r.1, true) else (r.1, false)).1 = r.1 := by
        intro r c; split
        · rfl
        · split <;> rfl
      rw [e]
      exact h
    · split
      · exact hci
      · exact cit_congr (a := nd) rfl rfl hci

theorem rcvBlocks_cit {base : Blk} {T : List Blk} {d q : Nat} {Dt : List Confirm}
    {addF : Blk → BlockCache → BlockCache} (cx : Ctx base T d q Dt addF) (hdv : ∀ c ∈ Dt, VCT T c)
    (D : List Confirm) : ∀ (bs : List Blk) (nd : Node), TI base T d Dt nd → CIT base d D nd →
    (∀ b ∈ bs, b ∈ T) → CIT base d D (rcvBlocksG true none addF q nd bs)
  | [], nd, _, hci, _ => by simpa [rcvBlocksG] using hci
  | b :: rest, nd, hi, hci, hbs => by
    have hb := hbs b (by simp)
    obtain ⟨r1, r2, _, _⟩ := rcvBlock_tree cx nd hi b hb
    have hci' : CIT base d D (rcvBlock true none addF q nd b).1 := by
      unfold rcvBlock
      exact rcvBlockAt_cit cx hdv D ({ nd with peerMax := max nd.peerMax b.height } : Node)
        (ti_congr (a := nd) rfl rfl rfl hi) (cit_congr (a := nd) rfl rfl hci) b hb
    simp only [rcvBlocksG, r1, if_true]
    exact rcvBlocks_cit cx hdv D rest _ r2 hci' (fun b hb => hbs b (by simp [hb]))

theorem foldl_pmInsert_cit {base : Blk} {T : List Blk} {d : Nat} (hT : IsTree base T) (Dt D : List Confirm)
    (hdv : ∀ c ∈ Dt, VCT T c) : ∀ (pend : List Blk) (nd : Node), TC base T nd.chain → CL Dt nd → CIT base d D nd →
    (∀ x ∈ pend, x ∈ T ∧ hasBlock nd.chain x.parent = true) →
    CIT base d D (pend.foldl (fun m b => (pmInsert m b).1) nd)
  | [], nd, _, _, hci, _ => by simpa using hci
  | b :: rest, nd, hc, hcl, hci, hp => by
    obtain ⟨hbT, hbp⟩ := hp b (by simp)
    obtain ⟨p2, _, p4, _⟩ := pmInsert_tree hT nd hc b hbT hbp
    simp only [List.foldl_cons]
    exact foldl_pmInsert_cit hT Dt D hdv rest _ p2 (pmInsert_cl Dt nd b hcl)
      (pmInsert_cit hT Dt D hdv nd hc hcl hci b hbT hbp) (by
        intro x hx
        obtain ⟨a1, a2⟩ := hp x (by simp [hx])
        exact ⟨a1, hasBlock_mono p4 _ a2⟩)

theorem tick_cit {base : Blk} {T : List Blk} {d : Nat} (hT : IsTree base T) (Dt D : List Confirm)
    (hdv : ∀ c ∈ Dt, VCT T c) (async : Bool) (nd : Node) (hi : TI base T d Dt nd) (hci : CIT base d D nd) :
    CIT base d D (tick async nd) := by
  have key : ∀ (nd' : Node) (cond : Bool) (r : Nat), CIT base d D nd' →
      CIT base d D (if cond = true then { nd' with requests := r :: nd'.requests } else nd') := by
    intro nd' cond r h
    split
    · exact cit_congr (a := nd') rfl rfl h
    · exact h
  unfold tick tickG
  cases async with
  | false =>
    apply key
    obtain ⟨_, w2, _⟩ := iterateP_wf true tickNow nd nd.bc hi.wf
    have hspec := visitKeys_spec tickNow (· ∈ T)
      (fun s => TC base T s.chain ∧ CL Dt s ∧ CIT base d D s) (fun _ _ => True) (fun _ => False)
      (by
        rintro s x hx ⟨hc, hcl, hcs⟩
        unfold tickNow
        split
        · rename_i c
          exact ⟨(pmInsert_tree hT s hc x hx c).1, pmInsert_cl Dt s x hcl, pmInsert_cit hT Dt D hdv s hc hcl hcs x hx c⟩
        · exact ⟨hc, hcl, hcs⟩)
      (by intros; trivial) (by intros; trivial) (by intro _ _ _ _ h; exact absurd h id)
      (blocksOf nd.bc.cache) nd hi.cache_T ⟨hi.ch, hi.cl, hci⟩
    obtain ⟨⟨_, _, s1⟩, _⟩ := hspec
    rw [← w2] at s1
    simp only [Bool.false_eq_true, if_false]
    exact cit_congr (a := (iterateP true tickNow nd nd.bc).1) rfl rfl s1
  | true =>
    apply key
    obtain ⟨_, w2, _⟩ := iterateP_wf true (fun pend b => tickLater nd.chain pend b) [] nd.bc hi.wf
    have hspec := visitKeys_spec (fun pend b => tickLater nd.chain pend b) (· ∈ T)
      (fun pend => ∀ x ∈ pend, x ∈ T ∧ hasBlock nd.chain x.parent = true)
      (fun _ _ => True) (fun _ => False)
      (by
        rintro pend x hx hp
        unfold tickLater
        split
        · rename_i c
          intro y hy
          rcases List.mem_append.mp hy with hy | hy
          · exact hp y hy
          · simp at hy; subst hy
            exact ⟨hx, c⟩
        · exact hp)
      (by intros; trivial) (by intros; trivial) (by intro _ _ _ _ h; exact absurd h id)
      (blocksOf nd.bc.cache) [] hi.cache_T (by simp)
    obtain ⟨s1, _⟩ := hspec
    rw [← w2] at s1
    simp only [if_true]
    exact foldl_pmInsert_cit hT Dt D hdv _ _ hi.ch (cl_congr (a := nd) rfl rfl hi.cl)
      (cit_congr (a := nd) rfl rfl hci) s1

/-- messages of the confirmation theorem: blocks of the tree; confirmations OF TREE BLOCKS (right height); ticks;
    stable events -/
def ValidMsgTC (T : List Blk) : Msg → Prop
  | .blocks bs => ∀ b ∈ bs, b ∈ T
  | .confirm c => VCT T c
  | _ => True

theorem step_cit {base : Blk} {T : List Blk} {d q : Nat} {Dt : List Confirm}
    {addF : Blk → BlockCache → BlockCache} (cx : Ctx base T d q Dt addF) (hd : d ≤ 10240)
    (hdv : ∀ c ∈ Dt, VCT T c) (D : List Confirm) (nd : Node) (m : Msg) (hi : TI base T d Dt nd)
    (hci : CIT base d D nd) (hv : ValidMsgTC T m) : CIT base d (confs [m] ++ D) (step addF q nd m) := by
  cases m with
  | blocks bs => exact rcvBlocks_cit cx hdv D bs nd hi hci hv
  | confirm c => exact rcvConfirm_cit cx.tree hd cx.depth D nd hci c hv
  | tick a => exact tick_cit cx.tree Dt D hdv a nd hi hci
  | stable => exact onStable_cit D nd hi.ch hi.cl cx.noq hci

theorem run_cit {base : Blk} {T : List Blk} {d q : Nat} {Dt : List Confirm}
    {addF : Blk → BlockCache → BlockCache} (cx : Ctx base T d q Dt addF) (hd : d ≤ 10240)
    (hdv : ∀ c ∈ Dt, VCT T c) : ∀ (ms : List Msg) (D : List Confirm) (nd : Node), TI base T d Dt nd →
    CIT base d D nd → (∀ m ∈ ms, ValidMsgT T Dt m) → (∀ m ∈ ms, ValidMsgTC T m) →
    CIT base d (confs ms ++ D) (runMsgs addF q nd ms)
  | [], D, nd, _, hci, _, _ => by simpa [runMsgs, confs] using hci
  | m :: ms, D, nd, hi, hci, hv, hvc => by
    obtain ⟨s1, _, _⟩ := step_tree cx nd m hi (hv m (by simp))
    have s2 := step_cit cx hd hdv D nd m hi hci (hvc m (by simp))
    have ih := run_cit cx hd hdv ms _ _ s1 s2 (fun m' hm' => hv m' (by simp [hm']))
      (fun m' hm' => hvc m' (by simp [hm']))
    have e : runMsgs addF q nd (m :: ms) = runMsgs addF q (step addF q nd m) ms := by simp [runMsgs]
    rw [e]
    apply cit_perm _ ih
    intro c
    rw [confs_cons m ms]
    simp only [List.mem_append]
    constructor
    · rintro (h | h | h)
      · exact Or.inl (Or.inr h)
      · exact Or.inl (Or.inl h)
      · exact Or.inr h
    · rintro ((h | h) | h)
      · exact Or.inr (Or.inl h)
      · exact Or.inl h
      · exact Or.inr (Or.inr h)

end LemoProofs.SyncTree

/-
  C04 helper lemmas: window arithmetic, time buckets, cache, tracer.
-/
import LemoModel.TxGuard
namespace LemoProofs.TxGuardLemmas
open LemoModel LemoModel.TxGuard LemoGen.TxWindow

/-! ### window arithmetic (generated VerifyTxBody comparisons) -/

theorem lifeTime_eq : lifeTime = 1800 := by decide
theorem bucketDuration_eq : BucketDuration = 60 := rfl

theorem windowOk_iff {t exp : Nat} (he : exp < 2 ^ 64) :
    windowOk t exp = true ↔ t ≤ exp ∧ exp ≤ t + 1800 := by
  unfold windowOk txExpiredCond txTooFarCond
  by_cases h : exp < t
  · simp [h]; omega
  · have hs : GoSem.usub 18446744073709551616 exp t = exp - t :=
      GoSem.usub_small (by omega) (by simpa using he)
    simp [h, hs]; omega

theorem bucketIndex_eq (t base : Nat) :
    getBucketIndex t base = (Int.ofNat (t / 60)) - (Int.ofNat (base / 60)) := rfl

/-- the 30 min / 60 s / stable-time arithmetic: a tx valid in a block of time `tb` whose bucket is
    before the bucket of `T - 1800` is expired at every time `≥ T`. -/
theorem window_arith {tb exp T tn base : Nat} (he : exp < 2 ^ 64)
    (hvalid : windowOk tb exp = true)
    (hdrop : getBucketIndex tb base < getBucketIndex (T - lifeTime) base)
    (hT : lifeTime ≤ T) (htn : T ≤ tn) : txExpiredCond tn exp = true := by
  rw [windowOk_iff he] at hvalid
  rw [lifeTime_eq] at hdrop hT
  simp only [bucketIndex_eq] at hdrop
  unfold txExpiredCond
  have : tb / 60 < (T - 1800) / 60 := by
    have := hdrop; simp only [Int.ofNat_eq_natCast] at this; omega
  simp; omega

/-! ### slots -/

/-- hash `h` is stored in slot `j` -/
def slotMem (l : List (List Nat)) (j h : Nat) : Prop := ∃ s, l[j]? = some s ∧ h ∈ s

theorem slotMem_pad (l : List (List Nat)) (n j h : Nat) :
    slotMem (l ++ List.replicate n []) j h ↔ slotMem l j h := by
  unfold slotMem
  by_cases hj : j < l.length
  · rw [List.getElem?_append_left hj]
  · have hj' : l.length ≤ j := Nat.le_of_not_lt hj
    rw [List.getElem?_append_right hj', List.getElem?_replicate]
    have : l[j]? = none := List.getElem?_eq_none hj'
    rw [this]
    constructor
    · rintro ⟨s, hs, hm⟩
      split at hs
      · cases hs; simp at hm
      · cases hs
    · rintro ⟨s, hs, _⟩; cases hs

theorem slotMem_modify (l : List (List Nat)) (i x j h : Nat) (hi : i < l.length) :
    slotMem (l.modify i (· ++ [x])) j h ↔ slotMem l j h ∨ (j = i ∧ h = x) := by
  unfold slotMem
  rw [List.getElem?_modify]
  by_cases hij : i = j
  · subst hij
    have : ∃ s0, l[i]? = some s0 := ⟨l[i], List.getElem?_eq_getElem hi⟩
    obtain ⟨s0, hs0⟩ := this
    rw [hs0]
    constructor
    · rintro ⟨s, hs, hm⟩
      simp at hs; subst hs
      rcases List.mem_append.1 hm with h1 | h1
      · exact Or.inl ⟨s0, rfl, h1⟩
      · simp at h1; exact Or.inr ⟨rfl, h1⟩
    · rintro (⟨s, hs, hm⟩ | ⟨_, hx⟩)
      · cases hs; exact ⟨s0 ++ [x], by simp, List.mem_append.2 (Or.inl hm)⟩
      · exact ⟨s0 ++ [x], by simp, List.mem_append.2 (Or.inr (by simp [hx]))⟩
  · constructor
    · rintro ⟨s, hs, hm⟩
      cases hl : l[j]? with
      | none => rw [hl] at hs; simp at hs
      | some s1 =>
        rw [hl] at hs; simp [hij] at hs; subst hs
        exact Or.inl ⟨s1, rfl, hm⟩
    · rintro (⟨s, hs, hm⟩ | ⟨hji, _⟩)
      · exact ⟨s, by rw [hs]; simp [hij], hm⟩
      · exact absurd hji.symm hij

theorem mem_take_flatten (l : List (List Nat)) (k h : Nat) :
    h ∈ (l.take k).flatten ↔ ∃ j, j < k ∧ slotMem l j h := by
  unfold slotMem
  rw [List.mem_flatten]
  constructor
  · rintro ⟨s, hs, hm⟩
    obtain ⟨j, hj⟩ := List.mem_iff_getElem?.1 hs
    rw [List.getElem?_take] at hj
    split at hj
    · exact ⟨j, ‹_›, s, hj, hm⟩
    · cases hj
  · rintro ⟨j, hjk, s, hs, hm⟩
    exact ⟨s, List.mem_iff_getElem?.2 ⟨j, by rw [List.getElem?_take]; simp [hjk, hs]⟩, hm⟩

theorem slotMem_drop (l : List (List Nat)) (k j h : Nat) :
    slotMem (l.drop k) j h ↔ slotMem l (k + j) h := by
  unfold slotMem; rw [List.getElem?_drop]

theorem slotMem_lt_length {l : List (List Nat)} {j h : Nat} (hm : slotMem l j h) : j < l.length := by
  obtain ⟨s, hs, _⟩ := hm
  by_cases hj : j < l.length
  · exact hj
  · rw [List.getElem?_eq_none (Nat.le_of_not_lt hj)] at hs; cases hs

/-! ### Buckets.add -/

theorem grow_spec (tb : Buckets) (i : Nat) (hlc : tb.slots.length ≤ tb.cap) :
    (tb.grow i).timeBase = tb.timeBase ∧ (tb.grow i).slots.length ≤ (tb.grow i).cap ∧ tb.cap ≤ (tb.grow i).cap ∧
    (1 ≤ tb.cap → i < (tb.grow i).slots.length) ∧
    ∀ j x, slotMem (tb.grow i).slots j x ↔ slotMem tb.slots j x := by
  by_cases hge : i ≥ tb.slots.length
  · generalize hcap : (if i ≥ tb.cap then i * 2 else tb.cap) = cap'
    have hcl : tb.slots.length ≤ cap' := by rw [← hcap]; split <;> omega
    have hcc : tb.cap ≤ cap' := by rw [← hcap]; split <;> omega
    have htake : (tb.slots ++ List.replicate (cap' - tb.slots.length) ([] : List Nat)).take cap' =
        tb.slots ++ List.replicate (cap' - tb.slots.length) [] := by
      apply List.take_of_length_le; simp; omega
    have hg : tb.grow i = { tb with cap := cap', slots := tb.slots ++ List.replicate (cap' - tb.slots.length) [] } := by
      unfold Buckets.grow; rw [if_pos hge]; simp only [hcap, htake]
    rw [hg]
    refine ⟨rfl, ?_, hcc, ?_, ?_⟩
    · show (tb.slots ++ List.replicate (cap' - tb.slots.length) ([] : List Nat)).length ≤ cap'
      simp; omega
    · intro h1
      show i < (tb.slots ++ List.replicate (cap' - tb.slots.length) ([] : List Nat)).length
      simp; rw [← hcap]; split <;> omega
    · intro j x; exact slotMem_pad _ _ _ _
  · have hg : tb.grow i = tb := by unfold Buckets.grow; rw [if_neg hge]
    rw [hg]
    exact ⟨rfl, hlc, Nat.le_refl _, fun _ => Nat.lt_of_not_ge hge, fun _ _ => Iff.rfl⟩

theorem add_eq (tb : Buckets) (time hash : Nat) :
    tb.add time hash =
      if time / 60 < tb.timeBase / 60 then .errTime else
      if time / 60 - tb.timeBase / 60 < (tb.grow (time / 60 - tb.timeBase / 60)).slots.length then
        .ok { tb.grow (time / 60 - tb.timeBase / 60) with
              slots := (tb.grow (time / 60 - tb.timeBase / 60)).slots.modify (time / 60 - tb.timeBase / 60) (· ++ [hash]) }
      else .panic := by
  unfold Buckets.add
  have hidx := bucketIndex_eq time tb.timeBase
  generalize getBucketIndex time tb.timeBase = idx at hidx ⊢
  by_cases h : time / 60 < tb.timeBase / 60
  · have : idx < 0 := by rw [hidx]; simp only [Int.ofNat_eq_natCast]; omega
    rw [if_pos this, if_pos h]
  · have hn : ¬ idx < 0 := by rw [hidx]; simp only [Int.ofNat_eq_natCast]; omega
    have hi : idx.toNat = time / 60 - tb.timeBase / 60 := by
      rw [hidx]; simp only [Int.ofNat_eq_natCast]; omega
    rw [if_neg hn, if_neg h]
    simp only [hi]

theorem add_errTime_iff (tb : Buckets) (time hash : Nat) :
    tb.add time hash = .errTime ↔ time / 60 < tb.timeBase / 60 := by
  rw [add_eq]
  by_cases h : time / 60 < tb.timeBase / 60
  · simp [h]
  · rw [if_neg h]
    constructor
    · intro h2; split at h2 <;> cases h2
    · intro h2; exact absurd h2 h

/-- what a successful `Add` does, given the slice invariant `len ≤ cap` -/
theorem add_ok {tb tb' : Buckets} {time hash : Nat} (hlc : tb.slots.length ≤ tb.cap)
    (h : tb.add time hash = .ok tb') :
    tb'.timeBase = tb.timeBase ∧ tb.timeBase / 60 ≤ time / 60 ∧ tb'.slots.length ≤ tb'.cap ∧ tb.cap ≤ tb'.cap ∧
    ∀ j x, slotMem tb'.slots j x ↔ slotMem tb.slots j x ∨ (j = time / 60 - tb.timeBase / 60 ∧ x = hash) := by
  rw [add_eq] at h
  by_cases hneg : time / 60 < tb.timeBase / 60
  · rw [if_pos hneg] at h; cases h
  · rw [if_neg hneg] at h
    generalize time / 60 - tb.timeBase / 60 = i at h
    obtain ⟨g1, g2, g3, _, g5⟩ := grow_spec tb i hlc
    by_cases hlt : i < (tb.grow i).slots.length
    · rw [if_pos hlt] at h
      cases h
      refine ⟨g1, by omega, ?_, g3, ?_⟩
      · show ((tb.grow i).slots.modify i (· ++ [hash])).length ≤ (tb.grow i).cap
        rw [List.length_modify]; exact g2
      · intro j x
        show slotMem ((tb.grow i).slots.modify i (· ++ [hash])) j x ↔ _
        rw [slotMem_modify _ _ _ _ _ hlt, g5]
    · rw [if_neg hlt] at h; cases h

theorem add_no_panic {tb : Buckets} {time hash : Nat} (hlc : tb.slots.length ≤ tb.cap) (hc : 1 ≤ tb.cap) :
    tb.add time hash ≠ .panic := by
  rw [add_eq]
  split
  · intro h; cases h
  · have := (grow_spec tb (time / 60 - tb.timeBase / 60) hlc).2.2.2.1 hc
    rw [if_pos this]
    intro h; cases h

/-! ### Buckets.expire -/

/-- `Expire` without the clamp and the Int detour -/
theorem expire_eq (tb : Buckets) (nb : Nat) :
    tb.expire nb =
      if nb / 60 ≤ tb.timeBase / 60 then ([], tb) else
      ((tb.slots.take (nb / 60 - tb.timeBase / 60)).flatten,
       { tb with timeBase := nb / 60 * 60, slots := tb.slots.drop (nb / 60 - tb.timeBase / 60) }) := by
  unfold Buckets.expire
  have hidx := bucketIndex_eq nb tb.timeBase
  generalize getBucketIndex nb tb.timeBase = idx at hidx ⊢
  by_cases h : nb / 60 ≤ tb.timeBase / 60
  · have : idx ≤ 0 := by rw [hidx]; simp only [Int.ofNat_eq_natCast]; omega
    rw [if_pos this, if_pos h]
  · have hn : ¬ idx ≤ 0 := by rw [hidx]; simp only [Int.ofNat_eq_natCast]; omega
    have hi : idx.toNat = nb / 60 - tb.timeBase / 60 := by
      rw [hidx]; simp only [Int.ofNat_eq_natCast]; omega
    rw [if_neg hn, if_neg h]
    simp only [hi, bucketDuration_eq]
    generalize nb / 60 - tb.timeBase / 60 = k
    by_cases hgt : k > tb.slots.length
    · rw [if_pos hgt]
      rw [List.take_of_length_le (Nat.le_refl _), List.take_of_length_le (Nat.le_of_lt hgt),
        List.drop_of_length_le (Nat.le_refl _), List.drop_of_length_le (Nat.le_of_lt hgt)]
    · rw [if_neg hgt]

theorem expire_noop {tb : Buckets} {nb : Nat} (h : nb / 60 ≤ tb.timeBase / 60) : tb.expire nb = ([], tb) := by
  rw [expire_eq, if_pos h]

theorem expire_move {tb : Buckets} {nb : Nat} (h : tb.timeBase / 60 < nb / 60) :
    (tb.expire nb).2.timeBase / 60 = nb / 60 ∧ (tb.expire nb).2.timeBase ≤ nb ∧
    (tb.expire nb).2.cap = tb.cap ∧ (tb.expire nb).2.slots.length ≤ tb.slots.length ∧
    (∀ x, x ∈ (tb.expire nb).1 ↔ ∃ j, j < nb / 60 - tb.timeBase / 60 ∧ slotMem tb.slots j x) ∧
    (∀ j x, slotMem (tb.expire nb).2.slots j x ↔ slotMem tb.slots (nb / 60 - tb.timeBase / 60 + j) x) := by
  rw [expire_eq, if_neg (by omega)]
  refine ⟨?_, ?_, rfl, ?_, ?_, ?_⟩
  · show nb / 60 * 60 / 60 = nb / 60
    omega
  · show nb / 60 * 60 ≤ nb
    omega
  · show (tb.slots.drop (nb / 60 - tb.timeBase / 60)).length ≤ tb.slots.length
    simp
  · intro x; exact mem_take_flatten _ _ _
  · intro j x; exact slotMem_drop _ _ _ _

/-! ### cache -/

theorem cacheGet_some {c : Cache} {h : Nat} {b : Block} (hg : cacheGet c h = some b) : b ∈ c ∧ b.hash = h := by
  unfold cacheGet at hg
  exact ⟨List.mem_of_find?_eq_some hg, by simpa using List.find?_some hg⟩

theorem cacheGet_none {c : Cache} {h : Nat} (hg : cacheGet c h = none) : ∀ b ∈ c, b.hash ≠ h := by
  unfold cacheGet at hg
  intro b hb
  have := List.find?_eq_none.1 hg b hb
  simpa using this

theorem cacheGet_isSome_of_mem {c : Cache} {b : Block} (hb : b ∈ c) : ∃ b', cacheGet c b.hash = some b' := by
  cases hg : cacheGet c b.hash with
  | some b' => exact ⟨b', rfl⟩
  | none => exact absurd rfl (cacheGet_none hg b hb)

/-- on a hash-functional cache a lookup returns THE block of that hash -/
theorem cacheGet_eq {c : Cache} {b : Block} (hfun : ∀ a ∈ c, ∀ a' ∈ c, a.hash = a'.hash → a = a')
    (hb : b ∈ c) : cacheGet c b.hash = some b := by
  obtain ⟨b', hb'⟩ := cacheGet_isSome_of_mem hb
  have := cacheGet_some hb'
  rw [hb', hfun b' this.1 b hb this.2]

theorem mem_cacheAdd {c : Cache} {b x : Block} : x ∈ cacheAdd c b ↔ x ∈ c ∨ (x = b ∧ ∀ a ∈ c, a.hash ≠ b.hash) := by
  unfold cacheAdd
  cases hg : cacheGet c b.hash with
  | some b' =>
    simp only [Option.isSome_some, if_true]
    constructor
    · exact Or.inl
    · rintro (h | ⟨_, h⟩)
      · exact h
      · exact absurd (cacheGet_some hg).2 (h b' (cacheGet_some hg).1)
  | none =>
    simp only [Option.isSome_none, Bool.false_eq_true, if_false, List.mem_append, List.mem_singleton]
    constructor
    · rintro (h | h)
      · exact Or.inl h
      · exact Or.inr ⟨h, cacheGet_none hg⟩
    · rintro (h | ⟨h, _⟩)
      · exact Or.inl h
      · exact Or.inr h

theorem mem_cacheDel {c : Cache} {h : Nat} {x : Block} : x ∈ cacheDel c h ↔ x ∈ c ∧ x.hash ≠ h := by
  unfold cacheDel; simp [List.mem_filter]

/-! ### tracer -/

theorem mem_addTrace1 {t : Tracer} {id h : Nat} {p : Nat × Nat} :
    p ∈ addTrace1 t id h ↔ p ∈ t ∨ p = (id, h) := by
  unfold addTrace1
  split
  · rename_i hc
    have := List.contains_iff_mem.1 hc
    constructor
    · exact Or.inl
    · rintro (h1 | h1)
      · exact h1
      · rw [h1]; exact this
  · simp

theorem mem_addTrace {tx : Tx} {h : Nat} {p : Nat × Nat} (t : Tracer) :
    p ∈ addTrace t tx h ↔ p ∈ t ∨ (p.2 = h ∧ p.1 ∈ tx.ids) := by
  unfold addTrace
  generalize tx.ids = ids
  induction ids generalizing t with
  | nil => simp
  | cons id rest ih =>
    rw [List.foldl_cons, ih, mem_addTrace1]
    constructor
    · rintro ((h1 | h1) | ⟨h2, h3⟩)
      · exact Or.inl h1
      · subst h1; exact Or.inr ⟨rfl, by simp⟩
      · exact Or.inr ⟨h2, List.mem_cons_of_mem _ h3⟩
    · rintro (h1 | ⟨h2, h3⟩)
      · exact Or.inl (Or.inl h1)
      · rcases List.mem_cons.1 h3 with h4 | h4
        · exact Or.inl (Or.inr (by cases p; simp at h2 h4; simp [h2, h4]))
        · exact Or.inr ⟨h2, h4⟩

theorem mem_addTraces (txs : List Tx) {h : Nat} {p : Nat × Nat} (t : Tracer) :
    p ∈ txs.foldl (fun t tx => addTrace t tx h) t ↔ p ∈ t ∨ (p.2 = h ∧ p.1 ∈ idsOf txs) := by
  induction txs generalizing t with
  | nil => simp [idsOf]
  | cons tx rest ih =>
    rw [List.foldl_cons, ih, mem_addTrace]
    simp only [idsOf, List.flatMap_cons, List.mem_append]
    constructor
    · rintro ((h1 | ⟨h2, h3⟩) | ⟨h2, h3⟩)
      · exact Or.inl h1
      · exact Or.inr ⟨h2, Or.inl h3⟩
      · exact Or.inr ⟨h2, Or.inr h3⟩
    · rintro (h1 | ⟨h2, h3 | h3⟩)
      · exact Or.inl (Or.inl h1)
      · exact Or.inl (Or.inr ⟨h2, h3⟩)
      · exact Or.inr ⟨h2, h3⟩

theorem mem_delTrace {t : Tracer} {tx : Tx} {p : Nat × Nat} :
    p ∈ delTrace t tx ↔ p ∈ t ∧ p.1 ∉ tx.ids := by
  unfold delTrace
  rw [List.mem_filter]
  constructor
  · rintro ⟨h1, h2⟩
    refine ⟨h1, fun hm => ?_⟩
    have := List.contains_iff_mem.2 hm
    rw [this] at h2; cases h2
  · rintro ⟨h1, h2⟩
    refine ⟨h1, ?_⟩
    cases hc : tx.ids.contains p.1 with
    | true => exact absurd (List.contains_iff_mem.1 hc) h2
    | false => rfl

theorem mem_delTraces (txs : List Tx) {p : Nat × Nat} (t : Tracer) :
    p ∈ txs.foldl delTrace t ↔ p ∈ t ∧ p.1 ∉ idsOf txs := by
  induction txs generalizing t with
  | nil => simp [idsOf]
  | cons tx rest ih =>
    rw [List.foldl_cons, ih, mem_delTrace]
    simp only [idsOf, List.flatMap_cons, List.mem_append]
    constructor
    · rintro ⟨⟨h1, h2⟩, h3⟩; exact ⟨h1, fun h => h.elim h2 h3⟩
    · rintro ⟨h1, h2⟩; exact ⟨⟨h1, fun h => h2 (Or.inl h)⟩, fun h => h2 (Or.inr h)⟩

theorem mem_traceGet {t : Tracer} {id h : Nat} : h ∈ traceGet t id ↔ (id, h) ∈ t := by
  unfold traceGet
  rw [List.mem_map]
  constructor
  · rintro ⟨p, hp, rfl⟩
    rw [List.mem_filter] at hp
    have : p.1 = id := by simpa using hp.2
    rw [← this]; exact hp.1
  · intro hm
    exact ⟨(id, h), List.mem_filter.2 ⟨hm, by simp⟩, rfl⟩

theorem mem_loadTraces {t : Tracer} {txs : List Tx} {h : Nat} :
    h ∈ loadTraces t txs ↔ ∃ id ∈ idsOf txs, (id, h) ∈ t := by
  unfold loadTraces
  rw [List.mem_eraseDups, List.mem_flatMap]
  constructor
  · rintro ⟨id, hid, hm⟩; exact ⟨id, hid, mem_traceGet.1 hm⟩
  · rintro ⟨id, hid, hm⟩; exact ⟨id, hid, mem_traceGet.2 hm⟩

theorem block_ids_eq (b : Block) : b.ids = idsOf b.txs := rfl

end LemoProofs.TxGuardLemmas

/-
  C04: reachable guard states and their invariant.
-/
import LemoProofs.Lemmas.TxGuard
namespace LemoProofs.TxGuardLemmas
open LemoModel LemoModel.TxGuard LemoGen.TxWindow

/-- block hashes are collision free on the set of blocks ever saved -/
def HashFun (U : List Block) : Prop := ∀ a ∈ U, ∀ b ∈ U, a.hash = b.hash → a = b

/-- `Reach g U K T`: `g` is reachable from `NewTxGuard` by `SaveBlock` / `DelOldBlocks` calls;
    `U` = every block ever passed to SaveBlock, `K` = the tx hashes (incl. box sub-tx hashes) of the
    blocks dropped so far ("killed": `DelTrace` erased their whole trace entry), `T` = the largest
    stable time seen (the constructor argument or a `DelOldBlocks` argument).
    A restart (`initTxPool`) is `init` followed by `save`s. -/
inductive Reach : Guard → List Block → List Nat → Nat → Prop
  | init (t : Nat) : Reach (newTxGuard t) [] [] t
  | save {g g' : Guard} {U : List Block} {K : List Nat} {T : Nat} (b : Block) :
      Reach g U K T → (∀ a ∈ U, a.hash = b.hash → a = b) → g.saveBlock b = .ok g' → Reach g' (b :: U) K T
  | del {g g' : Guard} {U : List Block} {K : List Nat} {T : Nat} (T' : Nat) :
      Reach g U K T → g.delOldBlocks T' = .ok g' →
      Reach g' U (K ++ (g.cache.filter (fun b => decide (b ∉ g'.cache))).flatMap Block.ids) (max T T')

structure Inv (g : Guard) (U : List Block) (K : List Nat) (T : Nat) : Prop where
  hfun : HashFun U
  lenCap : g.tb.slots.length ≤ g.tb.cap
  capPos : 1 ≤ g.tb.cap
  baseT : g.tb.timeBase ≤ T - 1800
  /-- THE characterisation of the cache: the saved blocks whose bucket is not before the base bucket -/
  cacheIff : ∀ b, b ∈ g.cache ↔ (b ∈ U ∧ g.tb.timeBase / 60 ≤ b.time / 60)
  slotOf : ∀ b ∈ g.cache, slotMem g.tb.slots (b.time / 60 - g.tb.timeBase / 60) b.hash
  slotInv : ∀ j h, slotMem g.tb.slots j h → ∃ b ∈ U, b.hash = h ∧ b.time / 60 = g.tb.timeBase / 60 + j
  trSound : ∀ id h, (id, h) ∈ g.tracer → ∃ b ∈ g.cache, b.hash = h ∧ id ∈ b.ids
  trComplete : ∀ b ∈ g.cache, ∀ id ∈ b.ids, id ∉ K → (id, b.hash) ∈ g.tracer
  killed : ∀ id ∈ K, ∃ b ∈ U, id ∈ b.ids ∧ b.time / 60 < g.tb.timeBase / 60

theorem Inv.cacheFun {g U K T} (inv : Inv g U K T) :
    ∀ a ∈ g.cache, ∀ a' ∈ g.cache, a.hash = a'.hash → a = a' :=
  fun a ha a' ha' h => inv.hfun a ((inv.cacheIff a).1 ha).1 a' ((inv.cacheIff a').1 ha').1 h

/-! ### the loop of DelOldBlocks -/

theorem dropOne_tb (g : Guard) (h : Nat) : (dropOne g h).tb = g.tb := by
  unfold dropOne; split <;> rfl

theorem dropOne_cache (g : Guard) (h : Nat) (x : Block) : x ∈ (dropOne g h).cache ↔ x ∈ g.cache ∧ x.hash ≠ h := by
  unfold dropOne
  split
  · rename_i hg
    exact ⟨fun hx => ⟨hx, cacheGet_none hg x hx⟩, fun hx => hx.1⟩
  · exact mem_cacheDel

theorem dropOne_tracer_sub (g : Guard) (h : Nat) (p : Nat × Nat) : p ∈ (dropOne g h).tracer → p ∈ g.tracer := by
  unfold dropOne
  split
  · exact id
  · intro hp; exact ((mem_delTraces _ _).1 hp).1

theorem drop_tb (hs : List Nat) (g : Guard) : (hs.foldl dropOne g).tb = g.tb := by
  induction hs generalizing g with
  | nil => rfl
  | cons h rest ih => rw [List.foldl_cons, ih, dropOne_tb]

theorem drop_cache (hs : List Nat) (g : Guard) (x : Block) :
    x ∈ (hs.foldl dropOne g).cache ↔ x ∈ g.cache ∧ x.hash ∉ hs := by
  induction hs generalizing g with
  | nil => simp
  | cons h rest ih =>
    rw [List.foldl_cons, ih, dropOne_cache]
    simp only [List.mem_cons, not_or]
    constructor
    · rintro ⟨⟨h1, h2⟩, h3⟩; exact ⟨h1, h2, h3⟩
    · rintro ⟨h1, h2, h3⟩; exact ⟨⟨h1, h2⟩, h3⟩

theorem drop_tracer_sub (hs : List Nat) (g : Guard) (p : Nat × Nat) :
    p ∈ (hs.foldl dropOne g).tracer → p ∈ g.tracer := by
  induction hs generalizing g with
  | nil => exact id
  | cons h rest ih =>
    rw [List.foldl_cons]
    intro hp; exact dropOne_tracer_sub _ _ _ (ih _ hp)

/-- the traces of every id of a dropped block are gone, whatever block they pointed at -/
theorem drop_tracer_killed (hs : List Nat) (g : Guard)
    (hfun : ∀ a ∈ g.cache, ∀ a' ∈ g.cache, a.hash = a'.hash → a = a')
    (b : Block) (hb : b ∈ g.cache) (hh : b.hash ∈ hs) (id : Nat) (hid : id ∈ b.ids) (h' : Nat) :
    (id, h') ∉ (hs.foldl dropOne g).tracer := by
  induction hs generalizing g with
  | nil => cases hh
  | cons h rest ih =>
    rw [List.foldl_cons]
    by_cases heq : b.hash = h
    · -- this step processes b itself
      intro hp
      have hp1 := drop_tracer_sub rest _ _ hp
      have hget : cacheGet g.cache h = some b := by rw [← heq]; exact cacheGet_eq hfun hb
      unfold dropOne at hp1
      rw [hget] at hp1
      exact ((mem_delTraces _ _).1 hp1).2 hid
    · have hrest : b.hash ∈ rest := by
        rcases List.mem_cons.1 hh with h1 | h1
        · exact absurd h1 heq
        · exact h1
      apply ih (dropOne g h)
      · intro a ha a' ha' he
        exact hfun a ((dropOne_cache _ _ _).1 ha).1 a' ((dropOne_cache _ _ _).1 ha').1 he
      · exact (dropOne_cache _ _ _).2 ⟨hb, heq⟩
      · exact hrest

theorem drop_tracer_keep (hs : List Nat) (g : Guard) (p : Nat × Nat) (hp : p ∈ g.tracer)
    (hk : ∀ b ∈ g.cache, b.hash ∈ hs → p.1 ∉ b.ids) : p ∈ (hs.foldl dropOne g).tracer := by
  induction hs generalizing g with
  | nil => exact hp
  | cons h rest ih =>
    rw [List.foldl_cons]
    apply ih
    · unfold dropOne
      split
      · exact hp
      · rename_i b hg
        have := cacheGet_some hg
        exact (mem_delTraces _ _).2 ⟨hp, hk b this.1 (by rw [this.2]; exact List.mem_cons_self ..)⟩
    · intro b hb hh
      exact hk b ((dropOne_cache _ _ _).1 hb).1 (List.mem_cons_of_mem _ hh)

/-! ### the invariant holds in every reachable state -/

theorem inv_init (t : Nat) : Inv (newTxGuard t) [] [] t := by
  have hslots : ∀ j h, ¬ slotMem (newTxGuard t).tb.slots j h := by
    intro j h ⟨s, hs, hm⟩
    simp only [newTxGuard, newTimeBucket] at hs
    rw [List.getElem?_replicate] at hs
    split at hs
    · cases hs; cases hm
    · cases hs
  refine ⟨?_, ?_, ?_, ?_, ?_, ?_, ?_, ?_, ?_, ?_⟩
  · intro a ha; cases ha
  · simp [newTxGuard, newTimeBucket]
  · simp [newTxGuard, newTimeBucket]
  · show (if t > lifeTime then t - lifeTime else 0) / BucketDuration * BucketDuration ≤ t - 1800
    rw [lifeTime_eq, bucketDuration_eq]; split <;> omega
  · intro b; simp [newTxGuard]
  · intro b hb; cases hb
  · intro j h hm; exact absurd hm (hslots j h)
  · intro id h hp; cases hp
  · intro b hb; cases hb
  · intro id hid; cases hid

theorem inv_save {g g' : Guard} {U : List Block} {K : List Nat} {T : Nat} {b : Block}
    (inv : Inv g U K T) (hnew : ∀ a ∈ U, a.hash = b.hash → a = b) (hs : g.saveBlock b = .ok g') :
    Inv g' (b :: U) K T := by
  have hfun' : HashFun (b :: U) := by
    intro a ha a' ha' he
    rcases List.mem_cons.1 ha with h1 | h1 <;> rcases List.mem_cons.1 ha' with h2 | h2
    · rw [h1, h2]
    · rw [h1]; rw [h1] at he; exact (hnew a' h2 he.symm).symm
    · rw [h2]; rw [h2] at he; exact hnew a h1 he
    · exact inv.hfun a h1 a' h2 he
  unfold Guard.saveBlock at hs
  cases hadd : g.tb.add b.time b.hash with
  | errTime =>
    rw [hadd] at hs
    cases hs
    have hlt := (add_errTime_iff _ _ _).1 hadd
    refine ⟨hfun', inv.lenCap, inv.capPos, inv.baseT, ?_, inv.slotOf, ?_, inv.trSound, inv.trComplete, ?_⟩
    · intro x
      rw [inv.cacheIff x]
      constructor
      · rintro ⟨h1, h2⟩; exact ⟨List.mem_cons_of_mem _ h1, h2⟩
      · rintro ⟨h1, h2⟩
        rcases List.mem_cons.1 h1 with h3 | h3
        · rw [h3] at h2; omega
        · exact ⟨h3, h2⟩
    · intro j h hm
      obtain ⟨x, hx, hh⟩ := inv.slotInv j h hm
      exact ⟨x, List.mem_cons_of_mem _ hx, hh⟩
    · intro id hid
      obtain ⟨x, hx, hh⟩ := inv.killed id hid
      exact ⟨x, List.mem_cons_of_mem _ hx, hh⟩
  | panic => rw [hadd] at hs; cases hs
  | ok tb' =>
    rw [hadd] at hs
    cases hs
    obtain ⟨a1, a2, a3, a4, a5⟩ := add_ok inv.lenCap hadd
    -- b is in the new cache
    have hbin : b ∈ cacheAdd g.cache b := by
      rw [mem_cacheAdd]
      by_cases hex : ∃ a ∈ g.cache, a.hash = b.hash
      · obtain ⟨a, ha, he⟩ := hex
        have := hnew a ((inv.cacheIff a).1 ha).1 he
        exact Or.inl (this ▸ ha)
      · exact Or.inr ⟨rfl, fun a ha he => hex ⟨a, ha, he⟩⟩
    have hsub : ∀ x, x ∈ cacheAdd g.cache b → x ∈ g.cache ∨ x = b := by
      intro x hx
      rcases mem_cacheAdd.1 hx with h1 | h1
      · exact Or.inl h1
      · exact Or.inr h1.1
    have hsup : ∀ x, x ∈ g.cache → x ∈ cacheAdd g.cache b := fun x hx => mem_cacheAdd.2 (Or.inl hx)
    refine ⟨hfun', a3, (by show 1 ≤ tb'.cap; exact Nat.le_trans inv.capPos a4), (by show tb'.timeBase ≤ T - 1800; rw [a1]; exact inv.baseT), ?_, ?_, ?_, ?_, ?_, ?_⟩
    · intro x
      show x ∈ cacheAdd g.cache b ↔ x ∈ b :: U ∧ tb'.timeBase / 60 ≤ x.time / 60
      rw [a1]
      constructor
      · intro hx
        rcases hsub x hx with h1 | h1
        · have := (inv.cacheIff x).1 h1
          exact ⟨List.mem_cons_of_mem _ this.1, this.2⟩
        · rw [h1]; exact ⟨List.mem_cons_self .., a2⟩
      · rintro ⟨h1, h2⟩
        rcases List.mem_cons.1 h1 with h3 | h3
        · rw [h3]; exact hbin
        · exact hsup x ((inv.cacheIff x).2 ⟨h3, h2⟩)
    · intro x hx
      show slotMem tb'.slots (x.time / 60 - tb'.timeBase / 60) x.hash
      rw [a1, a5]
      rcases hsub x hx with h1 | h1
      · exact Or.inl (inv.slotOf x h1)
      · rw [h1]; exact Or.inr ⟨rfl, rfl⟩
    · intro j h hm
      show ∃ x ∈ b :: U, x.hash = h ∧ x.time / 60 = tb'.timeBase / 60 + j
      rw [a1]
      rcases (a5 j h).1 hm with h1 | ⟨h1, h2⟩
      · obtain ⟨x, hx, hh⟩ := inv.slotInv j h h1
        exact ⟨x, List.mem_cons_of_mem _ hx, hh⟩
      · exact ⟨b, List.mem_cons_self .., h2.symm, by omega⟩
    · intro id h hp
      show ∃ x ∈ cacheAdd g.cache b, x.hash = h ∧ id ∈ x.ids
      rcases (mem_addTraces _ _).1 hp with h1 | ⟨h1, h2⟩
      · obtain ⟨x, hx, hh⟩ := inv.trSound id h h1
        exact ⟨x, hsup x hx, hh⟩
      · exact ⟨b, hbin, h1.symm, h2⟩
    · intro x hx id hid hk
      show (id, x.hash) ∈ b.txs.foldl (fun t tx => addTrace t tx b.hash) g.tracer
      rw [mem_addTraces]
      rcases hsub x hx with h1 | h1
      · exact Or.inl (inv.trComplete x h1 id hid hk)
      · rw [h1]; exact Or.inr ⟨rfl, by rw [h1] at hid; exact hid⟩
    · intro id hid
      show ∃ x ∈ b :: U, id ∈ x.ids ∧ x.time / 60 < tb'.timeBase / 60
      rw [a1]
      obtain ⟨x, hx, hh⟩ := inv.killed id hid
      exact ⟨x, List.mem_cons_of_mem _ hx, hh⟩

theorem base_le_max_right {b T T' : Nat} (h : b ≤ T' - 1800) : b ≤ max T T' - 1800 := by
  have hm := Nat.le_max_right T T'
  exact Nat.le_trans h (Nat.sub_le_sub_right hm 1800)

theorem base_le_max_left {b T T' : Nat} (h : b ≤ T - 1800) : b ≤ max T T' - 1800 := by
  have hm := Nat.le_max_left T T'
  exact Nat.le_trans h (Nat.sub_le_sub_right hm 1800)

/-- what `DelOldBlocks` computes -/
theorem delOldBlocks_eq {g g' : Guard} {T' : Nat} (hd : g.delOldBlocks T' = .ok g') :
    1800 ≤ T' ∧ g' = (g.tb.expire (T' - 1800)).1.foldl dropOne { g with tb := (g.tb.expire (T' - 1800)).2 } := by
  unfold Guard.delOldBlocks at hd
  rw [lifeTime_eq] at hd
  by_cases h : T' < 1800
  · rw [if_pos h] at hd; cases hd
  · rw [if_neg h] at hd
    cases hd
    exact ⟨by omega, rfl⟩

theorem mem_K' {g g' : Guard} {K : List Nat} {id : Nat} :
    id ∈ K ++ (g.cache.filter (fun b => decide (b ∉ g'.cache))).flatMap Block.ids ↔
      id ∈ K ∨ ∃ b ∈ g.cache, b ∉ g'.cache ∧ id ∈ b.ids := by
  rw [List.mem_append, List.mem_flatMap]
  constructor
  · rintro (h | ⟨b, hb, hid⟩)
    · exact Or.inl h
    · rw [List.mem_filter] at hb
      exact Or.inr ⟨b, hb.1, by simpa using hb.2, hid⟩
  · rintro (h | ⟨b, hb, hn, hid⟩)
    · exact Or.inl h
    · exact Or.inr ⟨b, List.mem_filter.2 ⟨hb, by simpa using hn⟩, hid⟩

theorem inv_del {g g' : Guard} {U : List Block} {K : List Nat} {T T' : Nat}
    (inv : Inv g U K T) (hd : g.delOldBlocks T' = .ok g') :
    Inv g' U (K ++ (g.cache.filter (fun b => decide (b ∉ g'.cache))).flatMap Block.ids) (max T T') := by
  obtain ⟨hT', hg'⟩ := delOldBlocks_eq hd
  by_cases hmove : g.tb.timeBase / 60 < (T' - 1800) / 60
  · -- the base bucket moves
    obtain ⟨e1, e2, e3, e4, e5, e6⟩ := expire_move hmove
    generalize hhs : (g.tb.expire (T' - 1800)).1 = hs at hg' e5
    generalize htb : (g.tb.expire (T' - 1800)).2 = tb' at hg' e1 e2 e3 e4 e6
    have hcache : ∀ x, x ∈ g'.cache ↔ x ∈ g.cache ∧ x.hash ∉ hs := by
      intro x; rw [hg', drop_cache]
    have htb' : g'.tb = tb' := by rw [hg', drop_tb]
    -- new characterisation of the cache
    have hcacheIff : ∀ x, x ∈ g'.cache ↔ (x ∈ U ∧ (T' - 1800) / 60 ≤ x.time / 60) := by
      intro x
      rw [hcache]
      constructor
      · rintro ⟨hx, hn⟩
        have hxU := (inv.cacheIff x).1 hx
        refine ⟨hxU.1, ?_⟩
        apply Nat.le_of_not_lt
        intro hlt
        apply hn
        rw [e5]
        exact ⟨x.time / 60 - g.tb.timeBase / 60, by omega, inv.slotOf x hx⟩
      · rintro ⟨hxU, hle⟩
        refine ⟨(inv.cacheIff x).2 ⟨hxU, Nat.le_trans (Nat.le_of_lt hmove) hle⟩, ?_⟩
        intro hin
        obtain ⟨j, hj, hm⟩ := (e5 _).1 hin
        obtain ⟨y, hyU, hyh, hyt⟩ := inv.slotInv j _ hm
        have := inv.hfun y hyU x hxU hyh
        rw [this] at hyt
        omega
    refine ⟨inv.hfun, ?_, ?_, ?_, ?_, ?_, ?_, ?_, ?_, ?_⟩
    · rw [htb', e3]; have := inv.lenCap; omega
    · rw [htb', e3]; exact inv.capPos
    · rw [htb']; exact base_le_max_right e2
    · intro x; rw [htb', e1]; exact hcacheIff x
    · intro x hx
      rw [htb', e1, e6]
      have h1 := (hcacheIff x).1 hx
      have h2 := (hcache x).1 hx
      have : (T' - 1800) / 60 - g.tb.timeBase / 60 + (x.time / 60 - (T' - 1800) / 60) = x.time / 60 - g.tb.timeBase / 60 := by omega
      rw [this]
      exact inv.slotOf x h2.1
    · intro j h hm
      rw [htb'] at hm
      rw [htb', e1]
      obtain ⟨y, hyU, hyh, hyt⟩ := inv.slotInv _ h ((e6 j h).1 hm)
      exact ⟨y, hyU, hyh, by omega⟩
    · intro id h hp
      rw [hg'] at hp
      have hp0 : (id, h) ∈ g.tracer := drop_tracer_sub hs { g with tb := tb' } _ hp
      obtain ⟨y, hy, hyh, hyid⟩ := inv.trSound id h hp0
      refine ⟨y, (hcache y).2 ⟨hy, fun hin => ?_⟩, hyh, hyid⟩
      exact drop_tracer_killed hs { g with tb := tb' } inv.cacheFun y hy hin id hyid h hp
    · intro x hx id hid hk
      have h2 := (hcache x).1 hx
      have hk1 : id ∉ K := fun h => hk (mem_K'.2 (Or.inl h))
      have hp0 := inv.trComplete x h2.1 id hid hk1
      rw [hg']
      apply drop_tracer_keep hs { g with tb := tb' } _ hp0
      intro y hy hyh hyid
      apply hk
      exact mem_K'.2 (Or.inr ⟨y, hy, fun hin => ((hcache y).1 hin).2 hyh, hyid⟩)
    · intro id hid
      rw [htb', e1]
      rcases mem_K'.1 hid with h | ⟨y, hy, hn, hyid⟩
      · obtain ⟨y, hyU, hyid, hyt⟩ := inv.killed id h
        exact ⟨y, hyU, hyid, Nat.lt_trans hyt hmove⟩
      · have hyU := (inv.cacheIff y).1 hy
        refine ⟨y, hyU.1, hyid, ?_⟩
        apply Nat.lt_of_not_le
        intro hle
        exact hn ((hcacheIff y).2 ⟨hyU.1, hle⟩)
  · -- nothing expires
    have hno := expire_noop (Nat.le_of_not_lt hmove)
    rw [hno] at hg'
    have hgg : g' = g := by rw [hg']; rfl
    subst hgg
    refine ⟨inv.hfun, inv.lenCap, inv.capPos, base_le_max_left inv.baseT, inv.cacheIff, inv.slotOf, inv.slotInv,
      inv.trSound, ?_, ?_⟩
    · intro x hx id hid hk
      exact inv.trComplete x hx id hid (fun h => hk (mem_K'.2 (Or.inl h)))
    · intro id hid
      rcases mem_K'.1 hid with h | ⟨y, hy, hn, _⟩
      · exact inv.killed id h
      · exact absurd hy hn

theorem reach_inv {g : Guard} {U : List Block} {K : List Nat} {T : Nat} (h : Reach g U K T) : Inv g U K T := by
  induction h with
  | init t => exact inv_init t
  | save b _ hnew hs ih => exact inv_save ih hnew hs
  | del T' _ hd ih => exact inv_del ih hd

/-- SaveBlock never panics in a reachable state -/
theorem save_no_panic {g : Guard} {U : List Block} {K : List Nat} {T : Nat} (h : Reach g U K T) (b : Block) :
    ∃ g', g.saveBlock b = .ok g' := by
  have inv := reach_inv h
  unfold Guard.saveBlock
  cases hadd : g.tb.add b.time b.hash with
  | errTime => exact ⟨g, rfl⟩
  | panic => exact absurd hadd (add_no_panic inv.lenCap inv.capPos)
  | ok tb' => exact ⟨_, rfl⟩

end LemoProofs.TxGuardLemmas

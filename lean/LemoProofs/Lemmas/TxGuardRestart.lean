/-
  C04: what `initTxPool` (chain/blockchain.go) loads after a restart: exactly the blocks of the stable
  chain with `stableTime - time ≤ MaxTxLifeTime`, under monotone block times.
-/
import LemoProofs.Lemmas.TxGuardWalk
namespace LemoProofs.TxGuardLemmas
open LemoModel LemoModel.TxGuard LemoGen.TxWindow

/-- the stable chain as the database returns it, newest block first, down to the genesis block:
    consecutive blocks are parent-linked, heights fall by one, times never grow going down -/
inductive ChainOK : List Block → Prop
  | single (b : Block) : b.height = 0 → ChainOK [b]
  | cons {x y : Block} {rest : List Block} : y.hash = x.parent → y.height + 1 = x.height → y.time ≤ x.time →
      ChainOK (y :: rest) → ChainOK (x :: y :: rest)

theorem chain_time_le {x : Block} {rest : List Block} (h : ChainOK (x :: rest)) : ∀ a ∈ x :: rest, a.time ≤ x.time := by
  generalize hl : x :: rest = l at h
  induction h generalizing x rest with
  | single b _ =>
    cases hl
    intro a ha
    rw [List.mem_singleton.1 ha]; exact Nat.le_refl _
  | @cons x' y rest' _ _ ht _ ih =>
    cases hl
    intro a ha
    rcases List.mem_cons.1 ha with h1 | h1
    · rw [h1]; exact Nat.le_refl _
    · exact Nat.le_trans (ih rfl a h1) ht

theorem chain_tail {x : Block} {y : Block} {rest : List Block} (h : ChainOK (x :: y :: rest)) :
    ChainOK (y :: rest) ∧ y.hash = x.parent ∧ y.height + 1 = x.height ∧ y.time ≤ x.time := by
  cases h with
  | cons h1 h2 h3 h4 => exact ⟨h4, h1, h2, h3⟩

theorem chain_single_height {x : Block} (h : ChainOK [x]) : x.height = 0 := by
  cases h with
  | single _ h0 => exact h0

/-- the loop test of initTxPool is the plain window test as long as times are uint32 and monotone -/
theorem inWin_iff {sT t : Nat} (hsT : sT < 2 ^ 32) (ht : t ≤ sT) :
    GoSem.usub 4294967296 sT t ≤ lifeTime ↔ sT ≤ t + 1800 := by
  rw [GoSem.usub_small ht (by simpa using hsT), lifeTime_eq]
  omega

/-- **what the loop of initTxPool loads**: started at block `iter` of the stable chain, it saves exactly
    the blocks of `iter :: l` (the chain from `iter` down to genesis) that satisfy
    `stableTime ≤ time + 1800`, and nothing else; the result is a reachable guard. -/
theorem initLoop_loads (byHeight : Nat → Option Block) (sT : Nat) (hsT : sT < 2 ^ 32)
    (hfun : ∀ h1 h2 b1 b2, byHeight h1 = some b1 → byHeight h2 = some b2 → b1.hash = b2.hash → b1 = b2) :
    ∀ (l : List Block) (iter : Block), ChainOK (iter :: l) →
      (∀ y ∈ iter :: l, byHeight y.height = some y) → (∀ y ∈ iter :: l, y.time ≤ sT) →
      ∀ (fuel : Nat) (g : Guard) (U : List Block) (T : Nat) (g' : Guard), Reach g U [] T →
        (∀ x ∈ U, ∃ h, byHeight h = some x) →
        initLoop byHeight sT fuel iter.height iter g = .ok g' →
        ∃ U', Reach g' U' [] T ∧ (∀ x ∈ U', ∃ h, byHeight h = some x) ∧
          ∀ a, a ∈ U' ↔ a ∈ U ∨ (a ∈ iter :: l ∧ sT ≤ a.time + 1800) := by
  intro l
  induction l with
  | nil =>
    intro iter hch hby htime fuel g U T g' hr hU h
    cases fuel with
    | zero => cases h
    | succ fuel =>
      unfold initLoop at h
      have hit := htime iter (List.mem_cons_self ..)
      by_cases hw : GoSem.usub 4294967296 sT iter.time ≤ lifeTime
      · rw [if_pos hw] at h
        have hw' := (inWin_iff hsT hit).1 hw
        cases hs : g.saveBlock iter with
        | ok g1 =>
          rw [hs] at h
          simp only at h
          rw [if_pos (chain_single_height hch)] at h
          have hr1 : Reach g1 (iter :: U) [] T := by
            refine Reach.save iter hr ?_ hs
            intro a ha he
            obtain ⟨ha', hha'⟩ := hU a ha
            exact hfun _ _ _ _ hha' (hby iter (List.mem_cons_self ..)) he
          cases h
          refine ⟨iter :: U, hr1, ?_, ?_⟩
          · intro x hx
            rcases List.mem_cons.1 hx with h1 | h1
            · exact ⟨iter.height, by rw [h1]; exact hby iter (List.mem_cons_self ..)⟩
            · exact hU x h1
          · intro a
            constructor
            · intro ha
              rcases List.mem_cons.1 ha with h1 | h1
              · exact Or.inr ⟨by rw [h1]; exact List.mem_cons_self .., by rw [h1]; exact hw'⟩
              · exact Or.inl h1
            · rintro (h1 | ⟨h1, _⟩)
              · exact List.mem_cons_of_mem _ h1
              · rw [List.mem_singleton.1 h1]; exact List.mem_cons_self ..
        | panic => rw [hs] at h; cases h
        | hang => rw [hs] at h; cases h
      · rw [if_neg hw] at h
        cases h
        refine ⟨U, hr, hU, fun a => ⟨Or.inl, ?_⟩⟩
        rintro (h1 | ⟨h1, h2⟩)
        · exact h1
        · rw [List.mem_singleton.1 h1] at h2
          exact absurd ((inWin_iff hsT hit).2 h2) hw
  | cons y rest ih =>
    intro iter hch hby htime fuel g U T g' hr hU h
    obtain ⟨hch', _, hhy, hty⟩ := chain_tail hch
    cases fuel with
    | zero => cases h
    | succ fuel =>
      unfold initLoop at h
      have hit := htime iter (List.mem_cons_self ..)
      by_cases hw : GoSem.usub 4294967296 sT iter.time ≤ lifeTime
      · rw [if_pos hw] at h
        have hw' := (inWin_iff hsT hit).1 hw
        cases hs : g.saveBlock iter with
        | ok g1 =>
          rw [hs] at h
          simp only at h
          rw [if_neg (by omega)] at h
          have hyh : iter.height - 1 = y.height := by omega
          have hby' : byHeight (iter.height - 1) = some y := by
            rw [hyh]; exact hby y (List.mem_cons_of_mem _ (List.mem_cons_self ..))
          rw [hby'] at h
          simp only at h
          rw [hyh] at h
          have hr1 : Reach g1 (iter :: U) [] T := by
            refine Reach.save iter hr ?_ hs
            intro a ha he
            obtain ⟨ha', hha'⟩ := hU a ha
            exact hfun _ _ _ _ hha' (hby iter (List.mem_cons_self ..)) he
          have hU1 : ∀ x ∈ iter :: U, ∃ h, byHeight h = some x := by
            intro x hx
            rcases List.mem_cons.1 hx with h1 | h1
            · exact ⟨iter.height, by rw [h1]; exact hby iter (List.mem_cons_self ..)⟩
            · exact hU x h1
          obtain ⟨U', hr', hU', hmem⟩ := ih y hch' (fun z hz => hby z (List.mem_cons_of_mem _ hz))
            (fun z hz => htime z (List.mem_cons_of_mem _ hz)) fuel g1 (iter :: U) T g' hr1 hU1 h
          refine ⟨U', hr', hU', fun a => ?_⟩
          rw [hmem]
          constructor
          · rintro (h1 | ⟨h1, h2⟩)
            · rcases List.mem_cons.1 h1 with h3 | h3
              · exact Or.inr ⟨by rw [h3]; exact List.mem_cons_self .., by rw [h3]; exact hw'⟩
              · exact Or.inl h3
            · exact Or.inr ⟨List.mem_cons_of_mem _ h1, h2⟩
          · rintro (h1 | ⟨h1, h2⟩)
            · exact Or.inl (List.mem_cons_of_mem _ h1)
            · rcases List.mem_cons.1 h1 with h3 | h3
              · exact Or.inl (by rw [h3]; exact List.mem_cons_self ..)
              · exact Or.inr ⟨h3, h2⟩
        | panic => rw [hs] at h; cases h
        | hang => rw [hs] at h; cases h
      · rw [if_neg hw] at h
        cases h
        refine ⟨U, hr, hU, fun a => ⟨Or.inl, ?_⟩⟩
        rintro (h1 | ⟨h1, h2⟩)
        · exact h1
        · have hat := chain_time_le hch a h1
          have hnot : ¬ sT ≤ iter.time + 1800 := fun hc => hw ((inWin_iff hsT hit).2 hc)
          omega

/-- the loop of initTxPool returns (no panic: every `GetBlockByHeight` hits; no hang: `height + 1` steps
    suffice) on a stable chain that reaches genesis -/
theorem initLoop_total (byHeight : Nat → Option Block) (sT : Nat)
    (hfun : ∀ h1 h2 b1 b2, byHeight h1 = some b1 → byHeight h2 = some b2 → b1.hash = b2.hash → b1 = b2) :
    ∀ (l : List Block) (iter : Block), ChainOK (iter :: l) →
      (∀ y ∈ iter :: l, byHeight y.height = some y) →
      ∀ (fuel : Nat) (g : Guard) (U : List Block) (T : Nat), iter.height < fuel → Reach g U [] T →
        (∀ x ∈ U, ∃ h, byHeight h = some x) →
        ∃ g', initLoop byHeight sT fuel iter.height iter g = .ok g' := by
  intro l
  induction l with
  | nil =>
    intro iter hch hby fuel g U T hf hr hU
    cases fuel with
    | zero => exact absurd hf (Nat.not_lt_zero _)
    | succ fuel =>
      unfold initLoop
      split
      · obtain ⟨g1, hs⟩ := save_no_panic hr iter
        rw [hs]
        simp only
        rw [if_pos (chain_single_height hch)]
        exact ⟨g1, rfl⟩
      · exact ⟨g, rfl⟩
  | cons y rest ih =>
    intro iter hch hby fuel g U T hf hr hU
    obtain ⟨hch', _, hhy, _⟩ := chain_tail hch
    cases fuel with
    | zero => exact absurd hf (Nat.not_lt_zero _)
    | succ fuel =>
      unfold initLoop
      split
      · obtain ⟨g1, hs⟩ := save_no_panic hr iter
        rw [hs]
        simp only
        rw [if_neg (by omega)]
        have hyh : iter.height - 1 = y.height := by omega
        have hby' : byHeight (iter.height - 1) = some y := by
          rw [hyh]; exact hby y (List.mem_cons_of_mem _ (List.mem_cons_self ..))
        rw [hby']
        simp only
        rw [hyh]
        have hr1 : Reach g1 (iter :: U) [] T := by
          refine Reach.save iter hr ?_ hs
          intro a ha he
          obtain ⟨ha', hha'⟩ := hU a ha
          exact hfun _ _ _ _ hha' (hby iter (List.mem_cons_self ..)) he
        have hU1 : ∀ x ∈ iter :: U, ∃ h, byHeight h = some x := by
          intro x hx
          rcases List.mem_cons.1 hx with h1 | h1
          · exact ⟨iter.height, by rw [h1]; exact hby iter (List.mem_cons_self ..)⟩
          · exact hU x h1
        exact ih y hch' (fun z hz => hby z (List.mem_cons_of_mem _ hz)) fuel g1 (iter :: U) T (by omega) hr1 hU1
      · exact ⟨g, rfl⟩

/-- the ancestors of the chain head inside a time-closed set that contains the in-window chain blocks -/
theorem anc_of_chain {U : List Block} {sT : Nat} :
    ∀ (l : List Block) (x : Block), ChainOK (x :: l) →
      (∀ y ∈ x :: l, sT ≤ y.time + 1800 → y ∈ U) →
      ∀ a ∈ x :: l, sT ≤ a.time + 1800 → Anc U x.hash a := by
  intro l
  induction l with
  | nil =>
    intro x _ hin a ha hw
    rw [List.mem_singleton.1 ha] at hw ⊢
    exact Anc.self (hin x (List.mem_cons_self ..) hw)
  | cons y rest ih =>
    intro x hch hin a ha hw
    obtain ⟨hch', hyh, _, hty⟩ := chain_tail hch
    rcases List.mem_cons.1 ha with h1 | h1
    · rw [h1] at hw ⊢
      exact Anc.self (hin x (List.mem_cons_self ..) hw)
    · have hat := chain_time_le hch' a h1
      have hxU : x ∈ U := hin x (List.mem_cons_self ..) (by omega)
      have := ih y hch' (fun z hz hzw => hin z (List.mem_cons_of_mem _ hz) hzw) a h1 hw
      rw [hyh] at this
      exact Anc.step hxU this

end LemoProofs.TxGuardLemmas

/-
  C04: the ancestor walk of `SliceOnFork` (restricted to the traces' height range) loses nothing.
-/
import LemoProofs.Lemmas.TxGuardInv
namespace LemoProofs.TxGuardLemmas
open LemoModel LemoModel.TxGuard LemoGen.TxWindow

/-- what consensus guarantees about the blocks that reach `SaveBlock`
    (verifyHeight, verifyMiner's `ErrSmallerMineTime`, hash-chain acyclicity) -/
structure TreeOK (U : List Block) : Prop where
  parentLt : ∀ b ∈ U, b.parent < b.hash
  height : ∀ b ∈ U, ∀ p ∈ U, p.hash = b.parent → p.height + 1 = b.height
  time : ∀ b ∈ U, ∀ p ∈ U, p.hash = b.parent → p.time ≤ b.time

/-- `Anc U p a`: `a` is the block of hash `p` or one of its ancestors, inside the abstract tree `U` -/
inductive Anc (U : List Block) : Nat → Block → Prop
  | self {a : Block} : a ∈ U → Anc U a.hash a
  | step {b a : Block} : b ∈ U → Anc U b.parent a → Anc U b.hash a

/-- the chain the code can walk: parent links resolved through the cache -/
inductive CAnc (c : Cache) : Block → Block → Prop
  | self (b : Block) : CAnc c b b
  | step {b pb a : Block} : cacheGet c b.parent = some pb → CAnc c pb a → CAnc c b a

theorem anc_mem {U : List Block} {p : Nat} {a : Block} (h : Anc U p a) : a ∈ U := by
  induction h with
  | self ha => exact ha
  | step _ _ ih => exact ih

theorem anc_head {U : List Block} {p : Nat} {a : Block} (h : Anc U p a) : ∃ x ∈ U, x.hash = p := by
  cases h with
  | self ha => exact ⟨a, ha, rfl⟩
  | step hb _ => exact ⟨_, hb, rfl⟩

theorem anc_time {U : List Block} (hfun : HashFun U) (tree : TreeOK U) {p : Nat} {a : Block} (h : Anc U p a) :
    ∀ x ∈ U, x.hash = p → a.time ≤ x.time := by
  induction h with
  | self ha => intro x hx he; rw [hfun x hx _ ha he]; exact Nat.le_refl _
  | step hb hanc ih =>
    rename_i b a
    intro x hx he
    have hxb := hfun x hx b hb he
    rw [hxb]
    obtain ⟨pp, hpp, hph⟩ := anc_head hanc
    exact Nat.le_trans (ih pp hpp hph) (tree.time b hb pp hpp hph)

theorem canc_mem {c : Cache} {b a : Block} (h : CAnc c b a) (hb : b ∈ c) : a ∈ c := by
  induction h with
  | self _ => exact hb
  | step hg _ ih => exact ih (cacheGet_some hg).1

theorem canc_height {c : Cache} (hlink : ∀ b ∈ c, ∀ pb, cacheGet c b.parent = some pb → pb.height < b.height)
    {b a : Block} (h : CAnc c b a) : b ∈ c → a.height ≤ b.height := by
  induction h with
  | self _ => intro _; exact Nat.le_refl _
  | @step b pb a hg _ ih =>
    intro hb
    have h1 := hlink b hb pb hg
    have h2 := ih (cacheGet_some hg).1
    omega

/-- the loop of SliceOnFork collects exactly the cache-chain ancestors whose height is in range -/
theorem sliceLoop_spec {c : Cache} (minH maxH : Nat)
    (hlink : ∀ b ∈ c, ∀ pb, cacheGet c b.parent = some pb → pb.height < b.height ∧ pb.hash < b.hash) :
    ∀ (fuel : Nat) (pBlock : Block), pBlock ∈ c → pBlock.hash < fuel →
    ∃ l, sliceLoop c minH maxH fuel pBlock.hash pBlock = some l ∧
      ∀ h, h ∈ l ↔ ∃ a, CAnc c pBlock a ∧ a.hash = h ∧ minH ≤ a.height ∧ a.height ≤ maxH := by
  have hl1 : ∀ b ∈ c, ∀ pb, cacheGet c b.parent = some pb → pb.height < b.height :=
    fun b hb pb hg => (hlink b hb pb hg).1
  intro fuel
  induction fuel with
  | zero => intro pBlock _ hlt; exact absurd hlt (Nat.not_lt_zero _)
  | succ fuel ih =>
    intro pBlock hpb hlt
    unfold sliceLoop
    by_cases hlow : pBlock.height < minH
    · rw [if_pos hlow]
      refine ⟨[], rfl, fun h => ⟨fun hm => (by cases hm), ?_⟩⟩
      rintro ⟨a, hca, _, hmin, _⟩
      have := canc_height hl1 hca hpb
      omega
    · rw [if_neg hlow]
      cases hg : cacheGet c pBlock.parent with
      | none =>
        refine ⟨_, rfl, fun h => ?_⟩
        constructor
        · intro hm
          by_cases hin : minH ≤ pBlock.height ∧ pBlock.height ≤ maxH
          · rw [if_pos hin] at hm
            simp at hm
            exact ⟨pBlock, CAnc.self _, hm.symm, hin.1, hin.2⟩
          · rw [if_neg hin] at hm; cases hm
        · rintro ⟨a, hca, hah, hmin, hmax⟩
          cases hca with
          | self _ => rw [if_pos ⟨hmin, hmax⟩]; simp [hah]
          | step hg' _ => rw [hg] at hg'; cases hg'
      | some pb =>
        have hpbm := cacheGet_some hg
        have hlk := hlink pBlock hpb pb hg
        obtain ⟨l', hl', hspec⟩ := ih pb hpbm.1 (by omega)
        rw [hpbm.2] at hl'
        refine ⟨_, by simp only [hl', Option.map_some]; rfl, fun h => ?_⟩
        rw [List.mem_append, hspec]
        constructor
        · rintro (hm | ⟨a, hca, hh⟩)
          · by_cases hin : minH ≤ pBlock.height ∧ pBlock.height ≤ maxH
            · rw [if_pos hin] at hm
              simp at hm
              exact ⟨pBlock, CAnc.self _, hm.symm, hin.1, hin.2⟩
            · rw [if_neg hin] at hm; cases hm
          · exact ⟨a, CAnc.step hg hca, hh⟩
        · rintro ⟨a, hca, hah, hmin, hmax⟩
          cases hca with
          | self _ => left; rw [if_pos ⟨hmin, hmax⟩]; simp [hah]
          | step hg' hca' =>
            rw [hg] at hg'; cases hg'
            exact Or.inr ⟨a, hca', hah, hmin, hmax⟩

theorem heightRange_fold (bs : List Block) (lo hi : Nat) :
    let r := bs.foldl (fun (r : Nat × Nat) b =>
      (if b.height < r.1 then b.height else r.1, if b.height > r.2 then b.height else r.2)) (lo, hi)
    r.1 ≤ lo ∧ hi ≤ r.2 ∧ ∀ b ∈ bs, r.1 ≤ b.height ∧ b.height ≤ r.2 := by
  induction bs generalizing lo hi with
  | nil => simp
  | cons b rest ih =>
    simp only [List.foldl_cons]
    have hlo1 : (if b.height < lo then b.height else lo) ≤ lo := by split <;> omega
    have hlo2 : (if b.height < lo then b.height else lo) ≤ b.height := by split <;> omega
    have hhi1 : hi ≤ (if b.height > hi then b.height else hi) := by split <;> omega
    have hhi2 : b.height ≤ (if b.height > hi then b.height else hi) := by split <;> omega
    generalize (if b.height < lo then b.height else lo) = lo' at hlo1 hlo2 ⊢
    generalize (if b.height > hi then b.height else hi) = hi' at hhi1 hhi2 ⊢
    have := ih lo' hi'
    simp only at this
    obtain ⟨h1, h2, h3⟩ := this
    refine ⟨by omega, by omega, ?_⟩
    intro x hx
    rcases List.mem_cons.1 hx with hxb | hxr
    · rw [hxb]; constructor <;> omega
    · exact h3 x hxr

theorem heightRange_spec {bs : List Block} (hne : bs ≠ []) :
    (∀ b ∈ bs, (heightRange bs).1 ≤ b.height ∧ b.height ≤ (heightRange bs).2) ∧
    (heightRange bs).1 ≤ (heightRange bs).2 := by
  unfold heightRange
  have hemp : bs.isEmpty = false := by cases bs with | nil => exact absurd rfl hne | cons _ _ => rfl
  rw [hemp]
  simp only [Bool.false_eq_true, if_false]
  have := heightRange_fold bs 4294967295 0
  simp only at this
  refine ⟨this.2.2, ?_⟩
  cases bs with
  | nil => exact absurd rfl hne
  | cons b _ =>
    have := this.2.2 b (List.mem_cons_self ..)
    omega

theorem collectBlocks_spec {c : Cache} : ∀ (trace : List Nat), (∀ h ∈ trace, ∃ b ∈ c, b.hash = h) →
    ∃ bs, collectBlocks c trace = some bs ∧ bs.length = trace.length ∧ (∀ b ∈ bs, b ∈ c) ∧
      ∀ h ∈ trace, ∃ b ∈ bs, b.hash = h := by
  intro trace
  induction trace with
  | nil => intro _; exact ⟨[], rfl, rfl, fun b hb => (by cases hb), fun h hh => (by cases hh)⟩
  | cons h rest ih =>
    intro hall
    obtain ⟨bs, hbs, hlen, hin, hcov⟩ := ih (fun h' hh' => hall h' (List.mem_cons_of_mem _ hh'))
    obtain ⟨b, hb, hbh⟩ := hall h (List.mem_cons_self ..)
    obtain ⟨b', hb'⟩ := cacheGet_isSome_of_mem hb
    rw [hbh] at hb'
    have hb'm := cacheGet_some hb'
    refine ⟨b' :: bs, by simp only [collectBlocks, hb', hbs, Option.map_some], by simp [hlen], ?_, ?_⟩
    · intro x hx
      rcases List.mem_cons.1 hx with h1 | h1
      · rw [h1]; exact hb'm.1
      · exact hin x h1
    · intro h' hh'
      rcases List.mem_cons.1 hh' with h1 | h1
      · exact ⟨b', List.mem_cons_self .., by rw [h1]; exact hb'm.2⟩
      · obtain ⟨x, hx, hxh⟩ := hcov h' h1
        exact ⟨x, List.mem_cons_of_mem _ hx, hxh⟩

theorem ids_iff_cores (b : Block) (id : Nat) : id ∈ b.ids ↔ ∃ c ∈ b.cores, c.txId = id := by
  unfold Block.ids Block.cores
  simp only [List.mem_flatMap]
  constructor
  · rintro ⟨tx, htx, hid⟩
    unfold Tx.ids at hid
    rcases List.mem_cons.1 hid with h | h
    · exact ⟨tx.core, ⟨tx, htx, List.mem_cons_self ..⟩, h.symm⟩
    · obtain ⟨s, hs, hsid⟩ := List.mem_map.1 h
      exact ⟨s, ⟨tx, htx, List.mem_cons_of_mem _ hs⟩, hsid⟩
  · rintro ⟨c, ⟨tx, htx, hc⟩, hcid⟩
    refine ⟨tx, htx, ?_⟩
    unfold Tx.ids
    rcases List.mem_cons.1 hc with h | h
    · rw [← hcid, h]; exact List.mem_cons_self ..
    · exact List.mem_cons_of_mem _ (List.mem_map.2 ⟨c, h, hcid⟩)

/-- the exact meaning of `ExistTxs` in a reachable state, in terms of the chain the code walks and of
    the tracer: true iff some block of the walked chain is traced for one of the queried hashes -/
theorem exist_tracer {g : Guard} {U : List Block} {K : List Nat} {T : Nat} (inv : Inv g U K T) (tree : TreeOK U)
    {pb : Block} (hpb : pb ∈ g.cache) (txs : List Tx) :
    ∃ r, g.existTxs pb.hash txs = .ok r ∧
      (r = true ↔ ∃ a, CAnc g.cache pb a ∧ ∃ id ∈ idsOf txs, (id, a.hash) ∈ g.tracer) := by
  have hsub : ∀ x ∈ g.cache, x ∈ U := fun x hx => ((inv.cacheIff x).1 hx).1
  have hlink : ∀ b ∈ g.cache, ∀ p, cacheGet g.cache b.parent = some p → p.height < b.height ∧ p.hash < b.hash := by
    intro b hb p hg
    have hp := cacheGet_some hg
    have h1 := tree.height b (hsub b hb) p (hsub p hp.1) hp.2
    have h2 := tree.parentLt b (hsub b hb)
    rw [hp.2]; omega
  unfold Guard.existTxs isAppearedOnFork
  generalize htr : loadTraces g.tracer txs = trace
  have htrace : ∀ h, h ∈ trace ↔ ∃ id ∈ idsOf txs, (id, h) ∈ g.tracer := by
    intro h; rw [← htr]; exact mem_loadTraces
  cases hemp : trace.isEmpty with
  | true =>
    simp only [if_true]
    refine ⟨false, rfl, fun h => (by cases h), ?_⟩
    rintro ⟨a, _, id, hid, hp⟩
    have := (htrace a.hash).2 ⟨id, hid, hp⟩
    rw [List.isEmpty_iff.1 hemp] at this
    cases this
  | false =>
    simp only [Bool.false_eq_true, if_false]
    have hall : ∀ h ∈ trace, ∃ b ∈ g.cache, b.hash = h := by
      intro h hh
      obtain ⟨id, _, hp⟩ := (htrace h).1 hh
      obtain ⟨b, hb, hbh, _⟩ := inv.trSound id h hp
      exact ⟨b, hb, hbh⟩
    obtain ⟨bs, hbs, hlen, hbsin, hcov⟩ := collectBlocks_spec trace hall
    rw [hbs]
    simp only
    have hne : bs ≠ [] := by
      intro he
      rw [he] at hlen
      have : trace = [] := List.eq_nil_of_length_eq_zero hlen.symm
      rw [this] at hemp; cases hemp
    obtain ⟨hrange, hminmax⟩ := heightRange_spec hne
    generalize heightRange bs = rg at hrange hminmax
    -- SliceOnFork
    have hstart : pb.hash ≠ 0 := by have := tree.parentLt pb (hsub pb hpb); omega
    have hget : cacheGet g.cache pb.hash = some pb := cacheGet_eq inv.cacheFun hpb
    obtain ⟨l, hl, hspec⟩ := sliceLoop_spec rg.1 rg.2 hlink (pb.hash + 1) pb hpb (Nat.lt_succ_self _)
    have hslice : ∃ l', sliceOnFork g.cache pb.hash rg.1 rg.2 = .ok l' ∧
        ∀ h, h ∈ l' ↔ ∃ a, CAnc g.cache pb a ∧ a.hash = h ∧ rg.1 ≤ a.height ∧ a.height ≤ rg.2 := by
      unfold sliceOnFork
      rw [if_neg (by intro h; rcases h with h | h; exact hstart h; omega), hget]
      simp only
      by_cases hlow : pb.height < rg.1
      · rw [if_pos hlow]
        refine ⟨[], rfl, fun h => ⟨fun hm => (by cases hm), ?_⟩⟩
        rintro ⟨a, hca, _, hmin, _⟩
        have := canc_height (fun b hb p hg => (hlink b hb p hg).1) hca hpb
        omega
      · rw [if_neg hlow, hl]
        exact ⟨l, rfl, hspec⟩
    obtain ⟨l', hl', hspec'⟩ := hslice
    rw [hl']
    simp only
    refine ⟨_, rfl, ?_, ?_⟩
    · intro hany
      obtain ⟨h, hhl, hht⟩ := List.any_eq_true.1 hany
      have hht' : h ∈ trace := List.contains_iff_mem.1 hht
      obtain ⟨a, hca, hah, _, _⟩ := (hspec' h).1 hhl
      obtain ⟨id, hid, hp⟩ := (htrace h).1 hht'
      exact ⟨a, hca, id, hid, by rw [hah]; exact hp⟩
    · rintro ⟨a, hca, id, hid, hp⟩
      have hat : a.hash ∈ trace := (htrace _).2 ⟨id, hid, hp⟩
      obtain ⟨b, hb, hbh⟩ := hcov _ hat
      have hba : b = a := inv.cacheFun b (hbsin b hb) a (canc_mem hca hpb) hbh
      have hr := hrange b hb
      rw [hba] at hr
      apply List.any_eq_true.2
      exact ⟨a.hash, (hspec' _).2 ⟨a, hca, rfl, hr.1, hr.2⟩, List.contains_iff_mem.2 hat⟩

/-- in terms of block contents: sound always, complete for hashes that were never in a dropped block -/
theorem exist_spec {g : Guard} {U : List Block} {K : List Nat} {T : Nat} (inv : Inv g U K T) (tree : TreeOK U)
    {pb : Block} (hpb : pb ∈ g.cache) (txs : List Tx) :
    ∃ r, g.existTxs pb.hash txs = .ok r ∧
      (r = true → ∃ a, CAnc g.cache pb a ∧ ∃ id ∈ idsOf txs, id ∈ a.ids) ∧
      ((∃ a, CAnc g.cache pb a ∧ ∃ id ∈ idsOf txs, id ∈ a.ids ∧ id ∉ K) → r = true) := by
  obtain ⟨r, hr, hiff⟩ := exist_tracer inv tree hpb txs
  refine ⟨r, hr, ?_, ?_⟩
  · intro h
    obtain ⟨a, hca, id, hid, hp⟩ := hiff.1 h
    obtain ⟨b, hb, hbh, hbid⟩ := inv.trSound id a.hash hp
    have : b = a := inv.cacheFun b hb a (canc_mem hca hpb) hbh
    exact ⟨a, hca, id, hid, this ▸ hbid⟩
  · rintro ⟨a, hca, id, hid, hida, hk⟩
    exact hiff.2 ⟨a, hca, id, hid, inv.trComplete a (canc_mem hca hpb) id hida hk⟩

/-- cache chain = abstract ancestors that are still cached -/
theorem canc_to_anc {g : Guard} {U : List Block} {K : List Nat} {T : Nat} (inv : Inv g U K T)
    {pb a : Block} (h : CAnc g.cache pb a) : pb ∈ g.cache → Anc U pb.hash a := by
  induction h with
  | self b => intro hpb; exact Anc.self ((inv.cacheIff b).1 hpb).1
  | @step b p a hg _ ih =>
    intro hpb
    have hp := cacheGet_some hg
    have := ih hp.1
    rw [hp.2] at this
    exact Anc.step ((inv.cacheIff b).1 hpb).1 this

theorem anc_to_canc {g : Guard} {U : List Block} {K : List Nat} {T : Nat} (inv : Inv g U K T) (tree : TreeOK U)
    {p : Nat} {a : Block} (h : Anc U p a) (ha : a ∈ g.cache) :
    ∀ pb ∈ g.cache, pb.hash = p → CAnc g.cache pb a := by
  induction h with
  | self haU =>
    intro pb hpb he
    have := inv.hfun pb ((inv.cacheIff pb).1 hpb).1 _ haU he
    rw [this]; exact CAnc.self _
  | step hbU hanc ih =>
    rename_i b a
    intro pb hpb he
    have hpbb := inv.hfun pb ((inv.cacheIff pb).1 hpb).1 b hbU he
    rw [hpbb]
    obtain ⟨pp, hppU, hpph⟩ := anc_head hanc
    have htime := anc_time inv.hfun tree hanc pp hppU hpph
    have haC := (inv.cacheIff a).1 (ha)
    have hppC : pp ∈ g.cache := (inv.cacheIff pp).2 ⟨hppU, by
      have : a.time / 60 ≤ pp.time / 60 := Nat.div_le_div_right htime
      omega⟩
    have hget : cacheGet g.cache b.parent = some pp := by rw [← hpph]; exact cacheGet_eq inv.cacheFun hppC
    exact CAnc.step hget (ih ha pp hppC hpph)

/-! ### the two-cursor walk of getBlocksByBranch -/

theorem anc_height {U : List Block} (hfun : HashFun U) (tree : TreeOK U) {p : Nat} {a : Block} (h : Anc U p a) :
    ∀ x ∈ U, x.hash = p → a.height ≤ x.height ∧ (a.height = x.height → a = x) := by
  induction h with
  | self ha =>
    intro x hx he
    have := hfun x hx _ ha he
    rw [this]; exact ⟨Nat.le_refl _, fun _ => rfl⟩
  | @step b a hb hanc ih =>
    intro x hx he
    have hxb := hfun x hx b hb he
    rw [hxb]
    obtain ⟨pp, hpp, hph⟩ := anc_head hanc
    have h1 := ih pp hpp hph
    have h2 := tree.height b hb pp hpp hph
    exact ⟨by omega, fun heq => by omega⟩

/-- a proper descendant of `c` has a parent in `U` that still descends from `c` -/
theorem anc_parent {U : List Block} (hfun : HashFun U) {x c : Block} (hx : x ∈ U) (h : Anc U x.hash c) (hne : x ≠ c) :
    ∃ p ∈ U, p.hash = x.parent ∧ Anc U x.parent c := by
  generalize hp : x.hash = ph at h
  cases h with
  | self hc => exact absurd (hfun x hx c hc hp) hne
  | @step b _ hb hanc =>
    have := hfun x hx b hb hp
    rw [← this] at hanc
    obtain ⟨pp, hpp, hph⟩ := anc_head hanc
    exact ⟨pp, hpp, hph, hanc⟩

/-- `getBlocksByBranch` cannot fail (ErrNotFoundBlockCache / ErrDifferentGenesis / hang) when the two
    leaves are saved blocks with a common ancestor that is still cached: every block on the two paths
    is at least as young as that ancestor, hence cached.  (In the engine the common ancestor of two
    heads is the stable block or younger.) -/
theorem branchLoop_total {g : Guard} {U : List Block} {K : List Nat} {T : Nat} (inv : Inv g U K T) (tree : TreeOK U)
    {c : Block} (hc : c ∈ g.cache) :
    ∀ (fuel : Nat) (x1 x2 : Block) (a1 a2 : List Block), x1 ∈ U → x2 ∈ U → Anc U x1.hash c → Anc U x2.hash c →
      x1.height + x2.height < fuel →
      ∃ r1 r2, branchLoop g.cache fuel x1.hash x2.hash x1.height x2.height a1 a2 = .ok r1 r2 := by
  have hcU := ((inv.cacheIff c).1 hc)
  have hcached : ∀ x ∈ U, Anc U x.hash c → cacheGet g.cache x.hash = some x := by
    intro x hx hanc
    have ht := anc_time inv.hfun tree hanc x hx rfl
    have hxc : x ∈ g.cache := (inv.cacheIff x).2 ⟨hx, by
      have : c.time / 60 ≤ x.time / 60 := Nat.div_le_div_right ht
      omega⟩
    exact cacheGet_eq inv.cacheFun hxc
  intro fuel
  induction fuel with
  | zero => intro x1 x2 _ _ _ _ _ _ hf; exact absurd hf (Nat.not_lt_zero _)
  | succ fuel ih =>
    intro x1 x2 a1 a2 hx1 hx2 han1 han2 hf
    have hh1 := anc_height inv.hfun tree han1 x1 hx1 rfl
    have hh2 := anc_height inv.hfun tree han2 x2 hx2 rfl
    unfold branchLoop
    by_cases hgt : x1.height > x2.height
    · rw [if_pos hgt, hcached x1 hx1 han1]
      simp only
      have hne : x1 ≠ c := by intro he; rw [he] at hgt; omega
      obtain ⟨p, hp, hph, hpa⟩ := anc_parent inv.hfun hx1 han1 hne
      have hht := tree.height x1 hx1 p hp hph
      have e1 : x1.height - 1 = p.height := by omega
      rw [← hph, e1]
      exact ih p x2 _ _ hp hx2 (by rw [hph]; exact hpa) han2 (by omega)
    · rw [if_neg hgt]
      by_cases hlt : x1.height < x2.height
      · rw [if_pos hlt, hcached x2 hx2 han2]
        simp only
        have hne : x2 ≠ c := by intro he; rw [he] at hlt; omega
        obtain ⟨p, hp, hph, hpa⟩ := anc_parent inv.hfun hx2 han2 hne
        have hht := tree.height x2 hx2 p hp hph
        have e1 : x2.height - 1 = p.height := by omega
        rw [← hph, e1]
        exact ih x1 p _ _ hx1 hp han1 (by rw [hph]; exact hpa) (by omega)
      · rw [if_neg hlt]
        have heq : x1.height = x2.height := by omega
        by_cases hhash : x1.hash = x2.hash
        · rw [if_pos hhash]; exact ⟨_, _, rfl⟩
        · rw [if_neg hhash]
          have hne1 : x1 ≠ c := by
            intro he
            have : c = x2 := hh2.2 (by rw [← he]; exact heq)
            exact hhash (by rw [he, this])
          have hne2 : x2 ≠ c := by
            intro he
            have : c = x1 := hh1.2 (by rw [← he]; exact heq.symm)
            exact hhash (by rw [he, this])
          obtain ⟨p1, hp1, hph1, hpa1⟩ := anc_parent inv.hfun hx1 han1 hne1
          obtain ⟨p2, hp2, hph2, hpa2⟩ := anc_parent inv.hfun hx2 han2 hne2
          have hht1 := tree.height x1 hx1 p1 hp1 hph1
          have hht2 := tree.height x2 hx2 p2 hp2 hph2
          rw [if_neg (by omega), hcached x1 hx1 han1]
          simp only
          rw [hcached x2 hx2 han2]
          simp only
          have e1 : x1.height - 1 = p1.height := by omega
          have e2 : x2.height - 1 = p2.height := by omega
          rw [← hph1, ← hph2, e1, e2]
          exact ih p1 p2 _ _ hp1 hp2 (by rw [hph1]; exact hpa1) (by rw [hph2]; exact hpa2) (by omega)

end LemoProofs.TxGuardLemmas

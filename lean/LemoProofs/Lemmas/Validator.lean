/-
  Helper lemmas for C02: what each stage of `LemoModel.Validator` yields when it passes.
-/
import LemoModel.Validator
import LemoProofs.C13
namespace LemoProofs.ValidatorLemmas
open LemoModel LemoModel.Validator LemoModel.Sched LemoGen.Schedule LemoGen.TxWindow

/-! ### GetCorrectMiner: the three outcomes -/

/-- since fix 26f228d (`return ErrSmallerMineTime` instead of `panic("mineTime should be milliseconds")`)
    the generated arithmetic has no panic branch at all -/
theorem gcm_not_panic (mt T : Int) (pts : Nat) (n : Int) (ph pm : Nat) :
    GetCorrectMiner (mineTime := mt) (mineTimeout := T) (parent_Time := pts) (nodeCount := n)
      (parent_Height := ph) (parent_MinerAddress := pm) ≠ .panic := by
  unfold GetCorrectMiner
  by_cases h1 : mt < 10000000000
  · simp [h1]
  · by_cases h2 : mt < (pts : Int) * 1000
    · simp [h1, h2]
    · simp [h1, h2]

/-- both a stamp below 10^10 ms and a stamp before the parent's give an error -/
theorem gcm_err_iff (mt T : Int) (pts : Nat) (n : Int) (ph pm : Nat) :
    (∃ e, GetCorrectMiner (mineTime := mt) (mineTimeout := T) (parent_Time := pts) (nodeCount := n)
      (parent_Height := ph) (parent_MinerAddress := pm) = .err e) ↔
      (mt < 10000000000 ∨ mt < (pts : Int) * 1000) := by
  unfold GetCorrectMiner
  by_cases h1 : mt < 10000000000
  · simp [h1]
  · by_cases h2 : mt < (pts : Int) * 1000
    · simp [h1, h2]
    · simp [h1, h2]

theorem gcm_ok_iff (mt T : Int) (pts : Nat) (n : Int) (ph pm : Nat) :
    (∃ v, GetCorrectMiner (mineTime := mt) (mineTimeout := T) (parent_Time := pts) (nodeCount := n)
      (parent_Height := ph) (parent_MinerAddress := pm) = .ok v) ↔
      (10000000000 ≤ mt ∧ (pts : Int) * 1000 ≤ mt) := by
  unfold GetCorrectMiner
  by_cases h1 : mt < 10000000000
  · simp [h1]
  · by_cases h2 : mt < (pts : Int) * 1000
    · simp [h1, h2]
    · simp [h1, h2]; omega

/-! ### verifySigner -/

theorem verifySigner_none {c : Ctx} {b : Block} (h : verifySigner c b = none) :
    ∃ d, c.recover (c.hash b.header.hashed) b.header.signData = some d.nodeId ∧
      d ∈ c.deputies b.header.height ∧ d.miner = b.header.miner := by
  unfold verifySigner at h
  split at h
  · cases h
  · rename_i nid hrec
    split at h
    · cases h
    · rename_i d hfind
      split at h
      · rename_i hm
        refine ⟨d, ?_, List.mem_of_find?_eq_some hfind, by simpa using hm⟩
        have := List.find?_some hfind
        simp at this
        rw [hrec, this]
      · cases h

/-! ### verifyTxs -/

theorem window_bounds {t e : Nat} (hexp : e < 18446744073709551616)
    (h : (!(txExpiredCond (timeStamp := t) (tx_Expiration := e)) &&
          !(txTooFarCond (timeStamp := t) (tx_Expiration := e))) = true) : t ≤ e ∧ e ≤ t + 1800 := by
  unfold txExpiredCond txTooFarCond at h
  simp only [Bool.and_eq_true, Bool.not_eq_true', decide_eq_false_iff_not] at h
  obtain ⟨h1, h2⟩ := h
  have hle : t ≤ e := by omega
  refine ⟨hle, ?_⟩
  rw [GoSem.usub_small hle hexp] at h2
  omega

theorem txOk_bounds {t : Nat} {tx : Tx} (hexp : tx.exp < 18446744073709551616) (h : txOk t tx = true) :
    t ≤ tx.exp ∧ tx.exp ≤ t + 1800 ∧ tx.bodyOk = true := by
  unfold txOk at h
  simp only [Bool.and_eq_true] at h
  obtain ⟨⟨⟨h1, h2⟩, h3⟩, _⟩ := h
  obtain ⟨a, b⟩ := window_bounds (t := t) hexp (by rw [h1, h2]; rfl)
  exact ⟨a, b, h3⟩

/-- the transactions inside a box are inside the window of the BLOCK time too -/
theorem txOk_sub_bounds {t : Nat} {tx : Tx} (h : txOk t tx = true) :
    ∀ e ∈ tx.subExps, e < 18446744073709551616 → t ≤ e ∧ e ≤ t + 1800 := by
  unfold txOk at h
  simp only [Bool.and_eq_true, List.all_eq_true] at h
  intro e he hexp
  have := h.2 e he
  exact window_bounds hexp (by simpa using this)

theorem txsLoop_ok {t : Nat} : ∀ {txs : List Tx}, txsLoop t txs = .ok →
    ∀ tx ∈ txs, txOk t tx = true ∧ tx.bodyPanics = false
  | [], _ => by intro tx htx; cases htx
  | x :: rest, h => by
    unfold txsLoop at h
    split at h
    · cases h
    · split at h
      · cases h
      · rename_i hp
        split at h
        · rename_i hok
          intro tx htx
          rcases List.mem_cons.mp htx with rfl | hr
          · exact ⟨hok, by simpa using hp⟩
          · exact txsLoop_ok h tx hr
        · cases h

theorem txsLoop_panic {t : Nat} : ∀ {txs : List Tx}, txsLoop t txs = .panic → ∃ tx ∈ txs, tx.bodyPanics = true
  | [], h => by unfold txsLoop at h; cases h
  | x :: rest, h => by
    unfold txsLoop at h
    split at h
    · cases h
    · split at h
      · rename_i hp
        exact ⟨x, List.mem_cons_self, hp⟩
      · split at h
        · obtain ⟨tx, htx, hp⟩ := txsLoop_panic h
          exact ⟨tx, List.mem_cons_of_mem _ htx, hp⟩
        · cases h

theorem txsLoop_ne_saveFailed (t : Nat) : ∀ (txs : List Tx), txsLoop t txs ≠ .saveFailed
  | [] => by unfold txsLoop; simp
  | x :: rest => by
    unfold txsLoop
    split
    · simp
    · split
      · simp
      · split
        · exact txsLoop_ne_saveFailed t rest
        · simp

theorem verifyTxs_ok {c : Ctx} {b : Block} (h : verifyTxs c b = .ok) :
    (c.dupCheck = true → hasDup (blockHashes b.txs) = false) ∧
    c.onAncestor b.header.parentHash b.txs = some false ∧
    ∀ tx ∈ b.txs, txOk b.header.time tx = true ∧ tx.bodyPanics = false := by
  unfold verifyTxs at h
  split at h
  · cases h
  · rename_i hdup
    split at h
    · cases h
    · cases h
    · rename_i hanc
      refine ⟨?_, hanc, txsLoop_ok h⟩
      intro hc
      simpa [hc] using hdup

/-- `verifyTxs` panics only through its two named inputs -/
theorem verifyTxs_panic {c : Ctx} {b : Block} (h : verifyTxs c b = .panic) :
    c.onAncestor b.header.parentHash b.txs = none ∨ ∃ tx ∈ b.txs, tx.bodyPanics = true := by
  unfold verifyTxs at h
  split at h
  · cases h
  · split at h
    · rename_i hanc
      exact Or.inl hanc
    · cases h
    · exact Or.inr (txsLoop_panic h)

/-! ### rankOfMiner -/

theorem rankOfMiner_some {ds : List Deputy} {m p : Nat} (h : rankOfMiner ds m = some p) : p < ds.length := by
  unfold rankOfMiner at h
  simp only at h
  split at h
  · injection h with h; omega
  · cases h

/-! ### verifyMiner -/

theorem turnCore_ok {g : GoRes (Nat × Nat × Nat)} {loop : Int} {target : Nat} {cm : GoRes Nat} {r : Nat}
    (hv : turnCore g loop target cm = .ok r) : (∃ v, g = .ok v) ∧ loop ≠ 0 ∧ target ≠ 0 ∧ cm = .ok r := by
  unfold turnCore at hv
  split at hv
  · cases hv
  · cases hv
  · rename_i v
    split at hv
    · cases hv
    · rename_i hz
      split at hv
      · cases hv
      · rename_i ht
        exact ⟨⟨v, rfl⟩, by simpa using hz, by simpa using ht, hv⟩

theorem turn_ok {c : Ctx} {t : Nat} {parent : Header} {r : Nat} (hv : turn c t parent = .ok r) :
    10000000 ≤ t ∧ parent.time ≤ t ∧
    ((c.deputies (GoSem.uadd u32 parent.height 1)).length : Int) * c.mineTimeout ≠ 0 ∧
    GoSem.uadd u32 parent.height 1 ≠ 0 ∧
    correctMiner (c.deputies (GoSem.uadd u32 parent.height 1)).length
        (isSpecial (GoSem.uadd u32 parent.height 1) c.termDuration c.interimDuration)
        (rankOfMiner (c.deputies (GoSem.uadd u32 parent.height 1)) parent.miner)
        parent.time parent.height ((t : Int) * 1000) c.mineTimeout = .ok r := by
  unfold turn at hv
  simp only at hv
  obtain ⟨hg, hz, ht, hcm⟩ := turnCore_ok hv
  have hok := (gcm_ok_iff _ _ _ _ _ _).mp hg
  exact ⟨by omega, by omega, hz, ht, hcm⟩

theorem verifyMinerCore_ok {t : GoRes Nat} {ds : List Deputy} {miner : Nat} (hv : verifyMinerCore t ds miner = .ok) :
    ∃ r d, t = .ok r ∧ ds[r]? = some d ∧ d.miner = miner := by
  unfold verifyMinerCore at hv
  split at hv
  · cases hv
  · cases hv
  · rename_i r
    split at hv
    · cases hv
    · rename_i d hd
      split at hv
      · rename_i hm
        exact ⟨r, d, rfl, hd, by simpa using hm⟩
      · cases hv

theorem verifyMiner_ok {c : Ctx} {h parent : Header} (hv : verifyMiner c h parent = .ok) :
    ∃ r d, turn c h.time parent = .ok r ∧
      (c.deputies (GoSem.uadd u32 parent.height 1))[r]? = some d ∧ d.miner = h.miner := by
  unfold verifyMiner at hv
  exact verifyMinerCore_ok hv

/-! ### verifyBefore -/

theorem verifyBefore_ok {c : Ctx} {b : Block} (hv : verifyBefore c b = .ok) :
    ∃ parent, c.load b.header.parentHash = some parent ∧ verifySigner c b = none ∧
      c.merkleRoot b.txs = b.header.txRoot ∧ GoSem.uadd u32 parent.height 1 = b.header.height ∧
      (b.header.time : Int) ≤ c.now + 1 ∧ b.header.extra.length ≤ maxExtraDataLen ∧ verifyTxs c b = .ok ∧
      verifyMiner c b.header parent = .ok := by
  unfold verifyBefore at hv
  simp only at hv
  split at hv
  · cases hv
  · rename_i parent hload
    split at hv
    · cases hv
    · rename_i hsig
      split at hv
      · cases hv
      · rename_i htx
        split at hv
        · cases hv
        · rename_i hh
          split at hv
          · cases hv
          · rename_i hfut
            split at hv
            · cases hv
            · rename_i hex
              split at hv
              · rename_i htxs
                refine ⟨parent, hload, hsig, by simpa using htx, by simpa using hh, by omega, by omega, htxs, hv⟩
              · rename_i hne
                exact absurd hv (hne · )

/-! ### verifyAfter -/

theorem bodyLogsBad_false {b : Block} (h : bodyLogsBad b = false) : ∀ r, b.logsRoot = some r → r = b.header.logRoot := by
  intro r hr
  unfold bodyLogsBad at h
  rw [hr] at h
  simpa using h

theorem verifyAfter_ok {c : Ctx} {b : Block} (hv : verifyAfter c b = .ok) :
    ∃ vr lr tr gu ldr, c.reexec b = .ok vr lr tr gu ldr ∧
      (IsSnapshotBlock (height := b.header.height) (params_TermDuration := c.termDuration) = true →
        b.deputyNodesRoot = b.header.deputyRoot ∧ ldr = b.header.deputyRoot) ∧
      (∀ r, b.logsRoot = some r → r = b.header.logRoot) ∧ lr = b.header.logRoot ∧
      c.hash (sealHeader c b.header vr lr tr gu ldr).hashed = c.hash b.header.hashed := by
  unfold verifyAfter at hv
  simp only at hv
  split at hv
  · cases hv
  · cases hv
  · rename_i vr lr tr gu ldr hre
    split at hv
    · cases hv
    · rename_i h1
      split at hv
      · cases hv
      · rename_i h2
        split at hv
        · cases hv
        · rename_i h3
          split at hv
          · cases hv
          · rename_i h4
            split at hv
            · cases hv
            · rename_i h5
              refine ⟨vr, lr, tr, gu, ldr, hre, ?_, bodyLogsBad_false (by simpa using h3), by simpa using h4, by simpa using h5⟩
              intro hs
              simp only [hs, Bool.true_and, bne_iff_ne, ne_eq, Decidable.not_not] at h1 h2
              exact ⟨h1, h2⟩

/-! ### where a panic can come from -/

theorem verifyAfter_panic {c : Ctx} {b : Block} (hv : verifyAfter c b = .panic) : c.reexec b = .panic := by
  unfold verifyAfter at hv
  simp only at hv
  split at hv
  · assumption
  · cases hv
  · split at hv
    · cases hv
    · split at hv
      · cases hv
      · split at hv
        · cases hv
        · split at hv
          · cases hv
          · split at hv
            · cases hv
            · cases hv

theorem verifyBefore_panic {c : Ctx} {b : Block} (hv : verifyBefore c b = .panic) :
    verifyTxs c b = .panic ∨
    ∃ parent, c.load b.header.parentHash = some parent ∧ verifySigner c b = none ∧
      GoSem.uadd u32 parent.height 1 = b.header.height ∧ verifyMiner c b.header parent = .panic := by
  unfold verifyBefore at hv
  simp only at hv
  split at hv
  · cases hv
  · rename_i parent hload
    split at hv
    · cases hv
    · rename_i hsig
      split at hv
      · cases hv
      · split at hv
        · cases hv
        · rename_i hh
          split at hv
          · cases hv
          · split at hv
            · cases hv
            · split at hv
              · exact Or.inr ⟨parent, hload, hsig, by simpa using hh, hv⟩
              · exact Or.inl hv

theorem verifyMinerCore_panic {t : GoRes Nat} {ds : List Deputy} {miner : Nat} (hv : verifyMinerCore t ds miner = .panic) :
    t = .panic ∨ ∃ r, t = .ok r ∧ ds[r]? = none := by
  unfold verifyMinerCore at hv
  split at hv
  · exact Or.inl rfl
  · cases hv
  · rename_i r
    split at hv
    · rename_i hd
      exact Or.inr ⟨r, rfl, hd⟩
    · split at hv
      · cases hv
      · cases hv

theorem turnCore_panic {g : GoRes (Nat × Nat × Nat)} {loop : Int} {target : Nat} {cm : GoRes Nat}
    (hv : turnCore g loop target cm = .panic) : g = .panic ∨ loop = 0 ∨ target = 0 ∨ cm = .panic := by
  unfold turnCore at hv
  split at hv
  · exact Or.inl rfl
  · cases hv
  · split at hv
    · rename_i hz
      exact Or.inr (Or.inl (by simpa using hz))
    · split at hv
      · rename_i ht
        exact Or.inr (Or.inr (Or.inl (by simpa using ht)))
      · exact Or.inr (Or.inr (Or.inr hv))

/-! ### the deputy lookup never panics and stays inside the list (C13 arithmetic) -/

theorem correctMiner_cases (n : Nat) (special : Bool) (pr : Option Nat) (T mt : Int) (pts ph : Nat)
    (hn : 0 < n) (hn' : n < 1000000000) (hT : 0 < T) (hms : 10000000000 ≤ mt)
    (hpt : (pts : Int) * 1000 ≤ mt) (hpr : ∀ p, pr = some p → p < n) :
    (∃ r, r < n ∧ correctMiner n special pr pts ph mt T = .ok r) ∨
    (∃ e, correctMiner n special pr pts ph mt T = .err e) := by
  by_cases hs : special = true
  · obtain ⟨r, ⟨hr, hok⟩, _⟩ := LemoProofs.C13.exactly_one n special pr T mt pts ph hn hn' hT hms hpt (Or.inl hs)
    exact Or.inl ⟨r, hr, hok⟩
  · cases hp : pr with
    | some p =>
      obtain ⟨r, ⟨hr, hok⟩, _⟩ := LemoProofs.C13.exactly_one n special (some p) T mt pts ph hn hn' hT hms hpt
        (Or.inr ⟨p, rfl, hpr p hp⟩)
      exact Or.inl ⟨r, hr, hok⟩
    | none =>
      right
      have hs' : special = false := by simpa using hs
      subst hs'
      unfold correctMiner
      rw [LemoProofs.C13.getCorrectMiner_ok n T mt pts ph 0 hn hT hms hpt]
      obtain ⟨d, hd1, _, hd, _⟩ := LemoProofs.C13.dist_toU n T ((pts : Int) * 1000) mt hn hn' hT hpt
      simp only [hd]
      unfold deputyByDistance
      have hd' : ¬ d < 1 := by omega
      have hn0 : (n == 0) = false := by simp; omega
      simp only [hd', hn0, if_false, Bool.false_eq_true]
      exact ⟨_, rfl⟩

theorem correctMiner_of_gcm_err {n : Nat} {special : Bool} {pr : Option Nat} {pts ph : Nat} {mt T : Int} {e : String}
    (h : GetCorrectMiner (mineTime := mt) (mineTimeout := T) (parent_Time := pts) (nodeCount := (n : Int))
      (parent_Height := ph) (parent_MinerAddress := 0) = .err e) :
    correctMiner n special pr pts ph mt T = .err e := by
  unfold correctMiner
  rw [h]

/-! ### `.saveFailed` is never a verdict of verification -/

theorem verifyTxs_ne_saveFailed (c : Ctx) (b : Block) : verifyTxs c b ≠ .saveFailed := by
  unfold verifyTxs
  split
  · simp
  · split
    · simp
    · simp
    · exact txsLoop_ne_saveFailed _ _

theorem verifyMinerCore_ne_saveFailed (t : GoRes Nat) (ds : List Deputy) (miner : Nat) :
    verifyMinerCore t ds miner ≠ .saveFailed := by
  unfold verifyMinerCore
  split
  · simp
  · simp
  · split
    · simp
    · split <;> simp

theorem verifyMiner_ne_saveFailed (c : Ctx) (h parent : Header) : verifyMiner c h parent ≠ .saveFailed := by
  unfold verifyMiner
  exact verifyMinerCore_ne_saveFailed _ _ _

theorem verifyBefore_ne_saveFailed (c : Ctx) (b : Block) : verifyBefore c b ≠ .saveFailed := by
  intro hvb
  unfold verifyBefore at hvb
  simp only at hvb
  split at hvb
  · cases hvb
  · split at hvb
    · cases hvb
    · split at hvb
      · cases hvb
      · split at hvb
        · cases hvb
        · split at hvb
          · cases hvb
          · split at hvb
            · cases hvb
            · split at hvb
              · exact verifyMiner_ne_saveFailed _ _ _ hvb
              · exact verifyTxs_ne_saveFailed _ _ hvb

theorem verifyAfter_ne_saveFailed (c : Ctx) (b : Block) : verifyAfter c b ≠ .saveFailed := by
  intro hva
  unfold verifyAfter at hva
  simp only at hva
  split at hva
  · cases hva
  · cases hva
  · split at hva
    · cases hva
    · split at hva
      · cases hva
      · split at hva
        · cases hva
        · split at hva
          · cases hva
          · split at hva
            · cases hva
            · cases hva

theorem accept_ne_saveFailed (c : Ctx) (b : Block) : accept c b ≠ .saveFailed := by
  unfold accept
  cases hvb : verifyBefore c b with
  | ok => simpa using verifyAfter_ne_saveFailed c b
  | ignored => simp
  | reject r => simp
  | panic => simp
  | saveFailed => exact absurd hvb (verifyBefore_ne_saveFailed c b)

end LemoProofs.ValidatorLemmas

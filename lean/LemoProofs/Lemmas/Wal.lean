/-
  Helper lemmas for C08 (byte-level write-ahead file model `LemoModel.Wal`).
-/
import LemoModel.Wal
namespace LemoProofs.WalLemmas
open LemoModel LemoModel.Wal LemoGen.Store

/-! ### integers on the wire -/

theorem toNat_ofNat_mod (n : Nat) : (UInt8.ofNat n).toNat = n % 256 := by
  rw [UInt8.toNat_ofNat']

theorem toNat_ofNat_lt {n : Nat} (h : n < 256) : (UInt8.ofNat n).toNat = n := by
  rw [toNat_ofNat_mod]; exact Nat.mod_eq_of_lt h

@[simp] theorem leBytes_length (k n : Nat) : (leBytes k n).length = k := by
  induction k generalizing n with
  | zero => rfl
  | succ k ih => simp [leBytes, ih]

theorem leVal_leBytes (k n : Nat) : leVal (leBytes k n) = n % 256 ^ k := by
  induction k generalizing n with
  | zero => simp [leBytes, leVal, Nat.mod_one]
  | succ k ih =>
    simp only [leBytes, leVal, ih, toNat_ofNat_mod]
    rw [Nat.pow_succ', Nat.mod_mul, Nat.mod_mod]

@[simp] theorem beFixed_length (k n : Nat) : (beFixed k n).length = k := by
  induction k with
  | zero => rfl
  | succ k ih => simp [beFixed, ih]

theorem foldl_beFixed (k n a : Nat) :
    (beFixed k n).foldl (fun a (b : UInt8) => a * 256 + b.toNat) a = a * 256 ^ k + n % 256 ^ k := by
  induction k generalizing a with
  | zero => simp [beFixed, Nat.mod_one]
  | succ k ih =>
    simp only [beFixed, List.foldl_cons, ih, toNat_ofNat_mod]
    rw [Nat.mod_pow_succ (x := n) (b := 256) (k := k)]
    rw [Nat.pow_succ, Nat.add_mul, Nat.mul_assoc, Nat.mul_comm 256 (256 ^ k)]
    rw [Nat.mod_mod, Nat.mul_comm (n / 256 ^ k % 256) (256 ^ k)]
    omega

theorem beVal_beFixed (k n : Nat) (h : n < 256 ^ k) : beVal (beFixed k n) = n := by
  unfold beVal
  rw [foldl_beFixed, Nat.mod_eq_of_lt h]; simp

theorem intsize_bounds (n : Nat) : 1 ≤ intsize n ∧ intsize n ≤ 8 := by
  unfold intsize
  repeat' split
  all_goals omega

theorem intsize_lt (n : Nat) (h : n < 18446744073709551616) : n < 256 ^ intsize n := by
  unfold intsize
  repeat' split
  all_goals omega

theorem intsize_ge (n : Nat) (h : 2 ≤ intsize n) : 256 ^ (intsize n - 1) ≤ n := by
  unfold intsize at *
  repeat' split
  all_goals (simp_all <;> omega)

/-! ### rlp headers -/

theorem readUint_size (n : Nat) (rest : Bytes) (short : String) (h : n < 18446744073709551616) :
    readUint (intsize n) (beFixed (intsize n) n ++ rest) short = .ok (n, rest) := by
  have hb := intsize_bounds n
  have hlt := intsize_lt n h
  unfold readUint
  by_cases h1 : intsize n = 1
  · rw [h1] at hlt ⊢
    simp only [if_true, beFixed, Nat.pow_zero, Nat.div_one, List.cons_append, List.nil_append]
    have : n % 256 = n := Nat.mod_eq_of_lt (by omega)
    simp [this]
  · have hge := intsize_ge n (by omega)
    obtain ⟨j, hj⟩ : ∃ j, intsize n = j + 1 := ⟨intsize n - 1, by omega⟩
    rw [hj] at hlt hge ⊢
    simp only [Nat.add_sub_cancel] at hge
    have hlen : ¬ ((beFixed (j + 1) n ++ rest).length < j + 1) := by simp
    have hpos : 0 < 256 ^ j := Nat.pow_pos (by omega)
    have hd1 : 1 ≤ n / 256 ^ j := (Nat.le_div_iff_mul_le hpos).2 (by omega)
    have hd2 : n / 256 ^ j < 256 := by
      apply Nat.div_lt_of_lt_mul
      rw [Nat.pow_succ] at hlt; exact hlt
    have hhead : ¬ (((beFixed (j + 1) n ++ rest).headD 0).toNat = 0) := by
      simp only [beFixed, List.cons_append, List.headD_cons, toNat_ofNat_mod]
      rw [Nat.mod_eq_of_lt hd2]; omega
    have hj1 : ¬ (j + 1 = 1) := by omega
    rw [if_neg hj1, if_neg hlen, if_neg hhead]
    rw [List.take_left' (beFixed_length _ _), List.drop_left' (beFixed_length _ _)]
    rw [beVal_beFixed _ _ hlt]

theorem rlpStr_ne_nil (x : Bytes) : rlpStr x ≠ [] := by
  unfold rlpStr
  split
  · rename_i h; intro h0; rw [h0] at h; simp at h
  · split <;> simp

/-- a `[]byte` field decodes back to itself, leaving the rest of the list payload -/
theorem decodeElem_rlpStr (x rest : Bytes) (hx : x.length < 18446744073709551616) :
    decodeElem (rlpStr x ++ rest) = .ok (x, rest) := by
  have hne : rlpStr x ++ rest ≠ [] := by simp [rlpStr_ne_nil]
  unfold decodeElem
  rw [if_neg hne]
  unfold rlpStr
  by_cases h1 : x.length = 1 ∧ (x.headD 0).toNat < 128
  · -- single byte below 0x80: its own encoding
    rw [if_pos h1]
    obtain ⟨b, rfl⟩ : ∃ b, x = [b] := by
      match x, h1.1 with
      | [b], _ => exact ⟨b, rfl⟩
    have hb : b.toNat < 128 := by simpa using h1.2
    simp [readKind, hb]
  · rw [if_neg h1]
    by_cases h2 : x.length < 56
    · rw [if_pos h2]
      have hbyte : (UInt8.ofNat (128 + x.length)).toNat = 128 + x.length := toNat_ofNat_lt (by omega)
      have hc : ¬ (x.length = 1 ∧ ((x ++ rest).headD 0).toNat < 128) := by
        intro ⟨ha, hb⟩
        apply h1
        refine ⟨ha, ?_⟩
        match x, ha with
        | [b], _ => simpa using hb
      simp only [List.cons_append, readKind, hbyte]
      have e1 : ¬ (128 + x.length < 128) := by omega
      have e2 : 128 + x.length < 184 := by omega
      simp only [if_neg e1, if_pos e2, Nat.add_sub_cancel_left]
      have e3 : ¬ ((x ++ rest).length < x.length) := by simp
      rw [if_neg e3]
      simp only [if_neg hc]
      rw [List.take_left' rfl, List.drop_left' rfl]
    · rw [if_neg h2]
      have hi := intsize_bounds x.length
      have hbyte : (UInt8.ofNat (183 + intsize x.length)).toNat = 183 + intsize x.length :=
        toNat_ofNat_lt (by omega)
      simp only [List.cons_append, List.append_assoc, readKind, hbyte]
      have e1 : ¬ (183 + intsize x.length < 128) := by omega
      have e2 : ¬ (183 + intsize x.length < 184) := by omega
      have e3 : 183 + intsize x.length < 192 := by omega
      simp only [if_neg e1, if_neg e2, if_pos e3, Nat.add_sub_cancel_left]
      rw [readUint_size _ _ _ hx]
      simp only [if_neg h2]
      have e4 : ¬ ((x ++ rest).length < x.length) := by simp
      rw [if_neg e4]
      have hc : ¬ (x.length = 1 ∧ ((x ++ rest).headD 0).toNat < 128) := by omega
      simp only [if_neg hc]
      rw [List.take_left' rfl, List.drop_left' rfl]

theorem readKind_listHdr (n : Nat) (rest : Bytes) (short : String) (h : n < 18446744073709551616) :
    readKind (rlpListHdr n ++ rest) short = .ok (.list, n, 0, rest) := by
  unfold rlpListHdr
  by_cases h1 : n < 56
  · rw [if_pos h1]
    have hbyte : (UInt8.ofNat (192 + n)).toNat = 192 + n := toNat_ofNat_lt (by omega)
    simp only [List.cons_append, List.nil_append, readKind, hbyte]
    have e1 : ¬ (192 + n < 128) := by omega
    have e2 : ¬ (192 + n < 184) := by omega
    have e3 : ¬ (192 + n < 192) := by omega
    have e4 : 192 + n < 248 := by omega
    simp only [if_neg e1, if_neg e2, if_neg e3, if_pos e4, Nat.add_sub_cancel_left]
  · rw [if_neg h1]
    have hi := intsize_bounds n
    have hbyte : (UInt8.ofNat (247 + intsize n)).toNat = 247 + intsize n := toNat_ofNat_lt (by omega)
    simp only [List.cons_append, readKind, hbyte]
    have e1 : ¬ (247 + intsize n < 128) := by omega
    have e2 : ¬ (247 + intsize n < 184) := by omega
    have e3 : ¬ (247 + intsize n < 192) := by omega
    have e4 : ¬ (247 + intsize n < 248) := by omega
    simp only [if_neg e1, if_neg e2, if_neg e3, if_neg e4, Nat.add_sub_cancel_left]
    rw [readUint_size _ _ _ h]
    simp only [if_neg h1]

theorem rlpListHdr_ne_nil (n : Nat) : rlpListHdr n ≠ [] := by
  unfold rlpListHdr; split <;> simp

theorem rlpListHdr_length (n : Nat) : 1 ≤ (rlpListHdr n).length ∧ (rlpListHdr n).length ≤ 9 := by
  have := intsize_bounds n
  unfold rlpListHdr; split <;> simp <;> omega

theorem rlpStr_length (x : Bytes) : x.length ≤ (rlpStr x).length ∧ (rlpStr x).length ≤ x.length + 9 := by
  have := intsize_bounds x.length
  unfold rlpStr
  split
  · omega
  · split <;> simp <;> omega

theorem encodeBody_length (k v : Bytes) :
    k.length + v.length + 1 ≤ (encodeBody k v).length ∧ (encodeBody k v).length ≤ k.length + v.length + 27 := by
  have h1 := rlpStr_length k
  have h2 := rlpStr_length v
  have h3 := rlpListHdr_length ((rlpStr k ++ rlpStr v).length)
  simp only [encodeBody, List.length_append] at *
  omega

/-- **decode ∘ encode = id** on record bodies (rlp of `RecordBody{Key,Val}`) -/
theorem decodeBody_encodeBody (k v : Bytes) (h : k.length + v.length < 4294967296) :
    decodeBody (encodeBody k v) = .ok k v := by
  have h1 := rlpStr_length k
  have h2 := rlpStr_length v
  unfold decodeBody encodeBody
  have hne : rlpListHdr (rlpStr k ++ rlpStr v).length ++ (rlpStr k ++ rlpStr v) ≠ [] := by
    simp [rlpListHdr_ne_nil]
  simp only [if_neg hne]
  rw [readKind_listHdr _ _ _ (by simp only [List.length_append]; omega)]
  simp only [Nat.lt_irrefl, if_false, ne_eq, not_true_eq_false, List.take_length]
  rw [decodeElem_rlpStr k _ (by omega)]
  simp only
  have := decodeElem_rlpStr v [] (by omega)
  rw [List.append_nil] at this
  rw [this]
  simp

/-! ### `FileUtilsAlign` (generated from the Go source) -/

theorem align_mod (n : Nat) : FileUtilsAlign n % 256 = 0 := by
  unfold FileUtilsAlign GoSem.uadd GoSem.usub
  by_cases h0 : n % 256 = 0
  · simp [h0]
  · simp only [bne_iff_ne, ne_eq, h0, not_false_eq_true, if_true]
    omega

theorem align_spec (n : Nat) (h : n + 256 ≤ 4294967296) :
    n ≤ FileUtilsAlign n ∧ FileUtilsAlign n < n + 256 := by
  unfold FileUtilsAlign GoSem.uadd GoSem.usub
  by_cases h0 : n % 256 = 0
  · simp [h0]
  · simp only [bne_iff_ne, ne_eq, h0, not_false_eq_true, if_true]
    omega

/-! ### `FileUtilsEncode` -/

/-- the rlp body of a record -/
def bodyOf (r : Record) : Bytes := encodeBody r.key r.val

/-- the record fits the uint32 fields of its head: the flag is a uint32 and
    `18 + len(body)` plus the alignment does not wrap around 2^32 -/
def WF (r : Record) : Prop := r.flg < 4294967296 ∧ (bodyOf r).length + 274 ≤ 4294967296

instance (r : Record) : Decidable (WF r) := by unfold WF; exact inferInstance

/-- aligned length of the encoded record -/
def encLen (r : Record) : Nat := FileUtilsAlign (18 + (bodyOf r).length)

@[simp] theorem encodeHead_length (f l t c : Nat) : (encodeHead f l t c).length = 18 := by
  simp [encodeHead]

@[simp] theorem zeros_length (n : Nat) : (zeros n).length = n := by simp [zeros]

theorem encodeRecord_eq (ts crc : Nat) (r : Record) (h : WF r) :
    encodeRecord ts crc r =
      encodeHead r.flg (bodyOf r).length ts crc ++ bodyOf r ++ zeros (encLen r - (18 + (bodyOf r).length)) := by
  obtain ⟨_, hb⟩ := h
  have hsp := align_spec (18 + (bodyOf r).length) (by omega)
  unfold encodeRecord mergeHB
  simp only [encodeHead_length]
  have hm : (encodeBody r.key r.val).length % 4294967296 = (bodyOf r).length :=
    Nat.mod_eq_of_lt (by unfold bodyOf at hb; omega)
  rw [hm]
  have hu : GoSem.uadd 4294967296 (18 % 4294967296) (bodyOf r).length = 18 + (bodyOf r).length := by
    unfold GoSem.uadd; omega
  rw [hu]
  show List.take (encLen r) ((encodeHead r.flg (bodyOf r).length ts crc ++ bodyOf r) ++ zeros (encLen r)) = _
  unfold encLen at *
  rw [List.take_append, List.take_of_length_le (by simp; omega)]
  congr 1
  simp only [zeros, List.take_replicate, List.length_append, encodeHead_length]
  congr 1
  omega

theorem encodeRecord_length (ts crc : Nat) (r : Record) (h : WF r) :
    (encodeRecord ts crc r).length = encLen r := by
  have hsp := align_spec (18 + (bodyOf r).length) (by unfold WF at h; omega)
  rw [encodeRecord_eq ts crc r h]
  simp only [List.length_append, encodeHead_length, zeros_length]
  unfold encLen at *
  omega

theorem encLen_bounds (r : Record) (h : WF r) :
    18 + (bodyOf r).length ≤ encLen r ∧ encLen r < 18 + (bodyOf r).length + 256 ∧ 256 ≤ encLen r := by
  have hsp := align_spec (18 + (bodyOf r).length) (by unfold WF at h; omega)
  have hm := align_mod (18 + (bodyOf r).length)
  unfold encLen
  omega

/-! ### `FileUtilsRead` / one iteration of `scanFile` -/

theorem bodyOf_ne_nil (r : Record) : bodyOf r ≠ [] := by
  have := encodeBody_length r.key r.val
  intro h; unfold bodyOf at h; rw [h] at this; simp at this

theorem readAt_exact (pre x post : Bytes) (off : Nat) (hoff : pre.length = off) (hx : x ≠ []) :
    readAt (pre ++ (x ++ post)) off x.length = some x := by
  unfold readAt
  have hl : x.length ≠ 0 := by
    intro h; exact hx (List.eq_nil_of_length_eq_zero h)
  rw [if_neg hl, List.drop_left' hoff, List.take_left' rfl]
  simp [hx, zeros]

/-- a complete head + body at offset `off` (whatever follows) is delivered as the record it encodes -/
theorem scanStepLegacy_headbody (pre post : Bytes) (ts crc : Nat) (r : Record) (off : Nat)
    (h : WF r) (hoff : pre.length = off) :
    scanStepLegacy (pre ++ (encodeHead r.flg (bodyOf r).length ts crc ++ (bodyOf r ++ post))) off
      = .deliver r (encLen r) := by
  obtain ⟨hf, hb⟩ := h
  have hbl := encodeBody_length r.key r.val
  unfold scanStepLegacy
  have hhead := readAt_exact pre (encodeHead r.flg (bodyOf r).length ts crc) (bodyOf r ++ post) off hoff
    (by intro h0; have := congrArg List.length h0; simp at this)
  rw [encodeHead_length] at hhead
  rw [hhead]
  have hflg : leVal ((encodeHead r.flg (bodyOf r).length ts crc).take 4) = r.flg := by
    unfold encodeHead
    rw [List.append_assoc, List.append_assoc, List.take_left' (leBytes_length _ _), leVal_leBytes]
    exact Nat.mod_eq_of_lt hf
  have hlen : leVal (((encodeHead r.flg (bodyOf r).length ts crc).drop 4).take 4) = (bodyOf r).length := by
    unfold encodeHead
    rw [List.append_assoc, List.append_assoc, List.drop_left' (leBytes_length _ _),
      List.take_left' (leBytes_length _ _), leVal_leBytes]
    exact Nat.mod_eq_of_lt (by omega)
  simp only [hflg, hlen]
  have hbody : readAt (pre ++ (encodeHead r.flg (bodyOf r).length ts crc ++ (bodyOf r ++ post))) (off + 18)
      (bodyOf r).length = some (bodyOf r) := by
    have := readAt_exact (pre ++ encodeHead r.flg (bodyOf r).length ts crc) (bodyOf r) post (off + 18)
      (by simp [hoff]) (bodyOf_ne_nil r)
    rw [List.append_assoc] at this
    exact this
  rw [hbody]
  have hdec : decodeBody (bodyOf r) = .ok r.key r.val := by
    unfold bodyOf at hb ⊢
    exact decodeBody_encodeBody _ _ (by omega)
  have hu : GoSem.uadd 4294967296 18 (bodyOf r).length = 18 + (bodyOf r).length := by
    unfold GoSem.uadd; omega
  simp only [hdec, hu]
  rfl

/-- fewer than 18+1 bytes left: whatever the (partial, zero-filled) head says, the step ends in EOF -/
theorem scanStepLegacy_short (file : Bytes) (off : Nat) (h : file.length ≤ off + 18) : scanStepLegacy file off = .eof := by
  unfold scanStepLegacy
  cases hh : readAt file off 18 with
  | none => rfl
  | some hb =>
    simp only
    have hd : file.drop (off + 18) = [] := List.drop_eq_nil_of_le h
    unfold readAt
    by_cases hz : leVal ((hb.drop 4).take 4) = 0
    · simp [hz, decodeBody]
    · simp [hz, hd]

theorem scanStepLegacy_enc (pre post : Bytes) (ts crc : Nat) (r : Record) (h : WF r) :
    scanStepLegacy (pre ++ (encodeRecord ts crc r ++ post)) pre.length = .deliver r (encLen r) := by
  rw [encodeRecord_eq ts crc r h]
  simp only [List.append_assoc]
  exact scanStepLegacy_headbody pre _ ts crc r pre.length h rfl

/-! ### the loop (generic in the reader) -/

/-- what the loop lemmas need from a step function -/
structure StepOK (step : Bytes → Nat → Step) : Prop where
  short : ∀ file off, file.length ≤ off + 18 → step file off = .eof
  adv : ∀ file off r adv, step file off = .deliver r adv → adv % 256 = 0

theorem scanLoop_at_end {step : Bytes → Nat → Step} (hs : StepOK step) (fuel : Nat) (file : Bytes) (off : Nat)
    (acc : List Record) (h : file.length ≤ off) :
    scanLoop step fuel file off acc = ⟨.eof, off, acc⟩ := by
  cases fuel with
  | zero => simp [scanLoop, h]
  | succ f => simp [scanLoop, hs.short file off (by omega)]

theorem scanLoop_short {step : Bytes → Nat → Step} (hs : StepOK step) (fuel : Nat) (file : Bytes) (off : Nat)
    (acc : List Record) (h : file.length ≤ off + 18) :
    scanLoop step (fuel + 1) file off acc = ⟨.eof, off, acc⟩ := by
  simp [scanLoop, hs.short file off h]

theorem scanLoop_eof {step : Bytes → Nat → Step} (fuel : Nat) (file : Bytes) (off : Nat)
    (acc : List Record) (h : step file off = .eof) :
    scanLoop step (fuel + 1) file off acc = ⟨.eof, off, acc⟩ := by
  simp [scanLoop, h]

theorem scanLoop_deliver {step : Bytes → Nat → Step} (fuel : Nat) (file : Bytes) (off : Nat) (acc : List Record)
    (r : Record) (adv : Nat) (h : step file off = .deliver r adv) (hadv : adv ≠ 0) :
    scanLoop step (fuel + 1) file off acc = scanLoop step fuel file (off + adv) (acc ++ [r]) := by
  simp [scanLoop, h, hadv]

theorem encodeAll_length_ge (ss : List Stamped) (h : ∀ s ∈ ss, WF s.r) : 256 * ss.length ≤ (encodeAll ss).length := by
  induction ss with
  | nil => simp [encodeAll]
  | cons s ss ih =>
    have h1 := encodeRecord_length s.ts s.crc s.r (h s (by simp))
    have h2 := encLen_bounds s.r (h s (by simp))
    have h3 := ih (fun s' hs' => h s' (by simp [hs']))
    simp only [encodeAll, List.length_append, List.length_cons]
    omega

/-- the loop consumes a run of complete records, delivering exactly them -/
theorem scanLoop_encodeAll {step : Bytes → Nat → Step} (ss : List Stamped) (pre tail : Bytes) (acc : List Record)
    (fuel : Nat) (h : ∀ s ∈ ss, WF s.r)
    (henc : ∀ (pre post : Bytes) (s : Stamped), s ∈ ss →
      step (pre ++ (encodeRecord s.ts s.crc s.r ++ post)) pre.length = .deliver s.r (encLen s.r))
    (hf : ss.length ≤ fuel) :
    scanLoop step fuel (pre ++ (encodeAll ss ++ tail)) pre.length acc
      = scanLoop step (fuel - ss.length) (pre ++ (encodeAll ss ++ tail)) (pre.length + (encodeAll ss).length)
          (acc ++ ss.map (·.r)) := by
  induction ss generalizing pre acc fuel with
  | nil => simp [encodeAll]
  | cons s ss ih =>
    obtain ⟨f, rfl⟩ : ∃ f, fuel = f + 1 := ⟨fuel - 1, by simp at hf; omega⟩
    have hs := h s (by simp)
    have hlen := encodeRecord_length s.ts s.crc s.r hs
    have hb := encLen_bounds s.r hs
    simp only [encodeAll, List.append_assoc]
    rw [scanLoop_deliver f _ _ acc s.r (encLen s.r) (henc pre _ s (by simp)) (by omega)]
    have ih' := ih (pre ++ encodeRecord s.ts s.crc s.r) (acc ++ [s.r]) f (fun s' hs' => h s' (by simp [hs']))
      (fun pre post s' hs' => henc pre post s' (by simp [hs'])) (by simp at hf; omega)
    simp only [List.append_assoc, List.length_append, hlen] at ih'
    rw [ih']
    simp only [List.length_cons, List.map_cons, List.length_append, hlen]
    congr 1
    · omega
    · omega

theorem scanStepLegacy_adv (file : Bytes) (off : Nat) (r : Record) (adv : Nat)
    (h : scanStepLegacy file off = .deliver r adv) : adv % 256 = 0 := by
  unfold scanStepLegacy at h
  split at h
  · contradiction
  · simp only at h
    split at h
    · contradiction
    · split at h
      · contradiction
      · contradiction
      · injection h with _ h2
        rw [← h2]; exact align_mod _

theorem scanLoop_no_fuel {step : Bytes → Nat → Step} (hs : StepOK step) (fuel : Nat) (file : Bytes) (off : Nat)
    (acc : List Record) (h : file.length ≤ off + 256 * fuel) : (scanLoop step fuel file off acc).stop ≠ .fuel := by
  induction fuel generalizing off acc with
  | zero => simp [scanLoop, show file.length ≤ off by omega]
  | succ f ih =>
    unfold scanLoop
    cases hst : step file off with
    | eof => simp
    | err e => simp
    | deliver r adv =>
      simp only
      by_cases h0 : adv = 0
      · simp [h0]
      · rw [if_neg h0]
        have := hs.adv file off r adv hst
        exact ih (off + adv) (acc ++ [r]) (by omega)

theorem stepOK_legacy : StepOK scanStepLegacy := ⟨scanStepLegacy_short, scanStepLegacy_adv⟩

/-! ### abstract store: last writer wins -/

def keyOf (r : Record) : StoreKey := (r.flg, r.key)

theorem replay_cons (s : Store) (r : Record) (rs : List Record) :
    Store.replay s (r :: rs) = Store.replay (Store.apply s r) rs := rfl

theorem replay_append (s : Store) (a b : List Record) :
    Store.replay s (a ++ b) = Store.replay (Store.replay s a) b := by
  simp [Store.replay, List.foldl_append]

/-- a replay only touches keys it writes -/
theorem replay_untouched (s : Store) (l : List Record) (k : StoreKey) :
    Store.replay s l k = s k ∨ ∃ r ∈ l, keyOf r = k := by
  induction l generalizing s with
  | nil => left; rfl
  | cons r l ih =>
    rw [replay_cons]
    rcases ih (Store.apply s r) with h | ⟨r', hr', hk⟩
    · by_cases hk : k = keyOf r
      · right; exact ⟨r, by simp, hk.symm⟩
      · left; rw [h]; simp [Store.apply, keyOf] at hk ⊢; intro h1; exact absurd h1 hk
    · right; exact ⟨r', by simp [hr'], hk⟩

/-- two stores that differ only on keys overwritten by `rs` agree after replaying `rs` -/
theorem replay_congr (s s' : Store) (rs : List Record)
    (h : ∀ k, s k = s' k ∨ ∃ r ∈ rs, keyOf r = k) : Store.replay s rs = Store.replay s' rs := by
  induction rs generalizing s s' with
  | nil =>
    funext k
    rcases h k with h | ⟨r, hr, _⟩
    · exact h
    · simp at hr
  | cons r rs ih =>
    rw [replay_cons, replay_cons]
    apply ih
    intro k
    by_cases hk : k = keyOf r
    · left; simp [Store.apply, keyOf] at hk ⊢; simp [hk]
    · rcases h k with h | ⟨r', hr', hk'⟩
      · left
        have : ¬ (k = (r.flg, r.key)) := hk
        simp [Store.apply, this, h]
      · right
        rcases List.mem_cons.1 hr' with rfl | hin
        · exact absurd hk'.symm hk
        · exact ⟨r', hin, hk'⟩

/-! ### a complete head followed by an arbitrary (possibly short) tail -/

theorem readAt_shift (pre x tail : Bytes) (n : Nat) :
    readAt (pre ++ (x ++ tail)) (pre.length + x.length) n = readAt tail 0 n := by
  unfold readAt
  have : (pre ++ (x ++ tail)).drop (pre.length + x.length) = tail := by
    rw [← List.append_assoc]
    exact List.drop_left' (by simp)
  rw [this, List.drop_zero]

/-- the head is complete: the step is determined by what the body read returns -/
theorem scanStepLegacy_head (pre tail : Bytes) (f l ts crc : Nat) (hf : f < 4294967296) (hl : l < 4294967296) :
    scanStepLegacy (pre ++ (encodeHead f l ts crc ++ tail)) pre.length =
      match readAt tail 0 l with
      | none => .eof
      | some bb =>
        match decodeBody bb with
        | .eof => .eof
        | .err e => .err e
        | .ok k v => .deliver ⟨f, k, v⟩ (FileUtilsAlign (GoSem.uadd 4294967296 18 l)) := by
  unfold scanStepLegacy
  have hhead := readAt_exact pre (encodeHead f l ts crc) tail pre.length rfl
    (by intro h0; have := congrArg List.length h0; simp at this)
  rw [encodeHead_length] at hhead
  rw [hhead]
  have hflg : leVal ((encodeHead f l ts crc).take 4) = f := by
    unfold encodeHead
    rw [List.append_assoc, List.append_assoc, List.take_left' (leBytes_length _ _), leVal_leBytes]
    exact Nat.mod_eq_of_lt hf
  have hlen : leVal (((encodeHead f l ts crc).drop 4).take 4) = l := by
    unfold encodeHead
    rw [List.append_assoc, List.append_assoc, List.drop_left' (leBytes_length _ _),
      List.take_left' (leBytes_length _ _), leVal_leBytes]
    exact Nat.mod_eq_of_lt hl
  simp only [hflg, hlen]
  have := readAt_shift pre (encodeHead f l ts crc) tail l
  rw [encodeHead_length] at this
  rw [this]
  cases readAt tail 0 l with
  | none => rfl
  | some bb =>
    simp only
    cases decodeBody bb <;> rfl

/-- what `FileUtilsRead` hands to the rlp decoder when the record was cut at byte `c > 18`:
    the bytes that made it to the file, then the zero bytes `make` put into the buffer -/
def tornBody (r : Record) (c : Nat) : Bytes :=
  (bodyOf r).take (c - 18) ++ zeros ((bodyOf r).length - (c - 18))

theorem tornBody_ne_nil (r : Record) (c : Nat) (hc : 18 < c) : tornBody r c ≠ [] := by
  have hb := bodyOf_ne_nil r
  unfold tornBody
  intro h
  have h1 := (List.append_eq_nil_iff.1 h).1
  have : ((bodyOf r).take (c - 18)).length = 0 := by rw [h1]; rfl
  rw [List.length_take] at this
  have : (bodyOf r).length = 0 := by omega
  exact hb (List.eq_nil_of_length_eq_zero this)

theorem tornBody_complete (r : Record) (c : Nat) (hc : 18 + (bodyOf r).length ≤ c) : tornBody r c = bodyOf r := by
  unfold tornBody
  rw [List.take_of_length_le (by omega)]
  have : (bodyOf r).length - (c - 18) = 0 := by omega
  rw [this]; simp [zeros]

/-- the body read of a record cut at byte `c > 18` -/
theorem readAt_torn (r : Record) (zs : Bytes) (c : Nat) (hc : 18 < c) :
    readAt (((bodyOf r) ++ zs).take (c - 18)) 0 (bodyOf r).length = some (tornBody r c) := by
  have hb := bodyOf_ne_nil r
  have hbl : (bodyOf r).length ≠ 0 := fun h => hb (List.eq_nil_of_length_eq_zero h)
  unfold readAt
  rw [if_neg hbl, List.drop_zero, List.take_take]
  have e1 : List.take (min (bodyOf r).length (c - 18)) (bodyOf r ++ zs) = (bodyOf r).take (c - 18) := by
    rw [List.take_append_of_le_length (Nat.min_le_left _ _)]
    by_cases h : c - 18 ≤ (bodyOf r).length
    · rw [Nat.min_eq_right h]
    · rw [Nat.min_eq_left (by omega), List.take_of_length_le (Nat.le_refl _), List.take_of_length_le (by omega)]
  rw [e1]
  have hne : (bodyOf r).take (c - 18) ≠ [] := by
    intro h
    have : ((bodyOf r).take (c - 18)).length = 0 := by rw [h]; rfl
    rw [List.length_take] at this
    omega
  simp only [hne, if_false]
  unfold tornBody
  rw [List.length_take]
  have : (bodyOf r).length - min (c - 18) (bodyOf r).length = (bodyOf r).length - (c - 18) := by omega
  rw [this]

/-! ### the checksum -/

theorem zeros_add (a b : Nat) : zeros (a + b) = zeros a ++ zeros b := by
  induction a with
  | zero => simp [zeros]
  | succ a ih =>
    have : a + 1 + b = (a + b) + 1 := by omega
    rw [this]
    simp only [zeros, List.replicate_succ, List.cons_append] at ih ⊢
    rw [ih]

theorem xor_eq_zero {a b : Nat} (h : a ^^^ b = 0) : a = b := by
  have : (a ^^^ b) ^^^ b = 0 ^^^ b := by rw [h]
  rw [Nat.xor_assoc, Nat.xor_self, Nat.xor_zero, Nat.zero_xor] at this
  exact this

theorem crcBit_lt {s : Nat} (h : s < 65536) : crcBit s < 65536 := by
  unfold crcBit
  split
  · exact Nat.xor_lt_two_pow (n := 16) (by omega) (by omega)
  · omega

theorem crcBit_ne_zero {s : Nat} (h : s < 65536) (h0 : s ≠ 0) : crcBit s ≠ 0 := by
  unfold crcBit
  split
  · intro hx
    have := xor_eq_zero hx
    omega
  · omega

theorem crcByte_zero {s : Nat} (h : s < 65536) (h0 : s ≠ 0) : crcByte s 0 < 65536 ∧ crcByte s 0 ≠ 0 := by
  unfold crcByte
  have e : s ^^^ (0 : UInt8).toNat = s := by
    have : (0 : UInt8).toNat = 0 := by decide
    rw [this, Nat.xor_zero]
  rw [e]
  have l1 := crcBit_lt h; have n1 := crcBit_ne_zero h h0
  have l2 := crcBit_lt l1; have n2 := crcBit_ne_zero l1 n1
  have l3 := crcBit_lt l2; have n3 := crcBit_ne_zero l2 n2
  have l4 := crcBit_lt l3; have n4 := crcBit_ne_zero l3 n3
  have l5 := crcBit_lt l4; have n5 := crcBit_ne_zero l4 n4
  have l6 := crcBit_lt l5; have n6 := crcBit_ne_zero l5 n5
  have l7 := crcBit_lt l6; have n7 := crcBit_ne_zero l6 n6
  exact ⟨crcBit_lt l7, crcBit_ne_zero l7 n7⟩

theorem foldl_crc_zeros (n s : Nat) (h : s < 65536) (h0 : s ≠ 0) :
    (zeros n).foldl crcByte s < 65536 ∧ (zeros n).foldl crcByte s ≠ 0 := by
  induction n generalizing s with
  | zero => exact ⟨h, h0⟩
  | succ n ih =>
    have := crcByte_zero h h0
    simp only [zeros, List.replicate_succ, List.foldl_cons]
    exact ih _ this.1 this.2

/-- the CRC-16/MODBUS of a run of zero bytes is never 0 (the register starts at 0xFFFF and the
    update is a bijection fixing 0) -/
theorem crc16_zeros_ne_zero (n : Nat) : crc16 (zeros n) % 65536 ≠ 0 := by
  have := foldl_crc_zeros n 65535 (by omega) (by omega)
  unfold crc16
  omega

/-! ### the current reader (`io.ReadFull` + CRC check) -/

/-- a record as `FileUtilsEncode` writes it: well-formed and carrying the checksum of its body -/
def Sealed (s : Stamped) : Prop := WF s.r ∧ s.crc = crc16 (bodyOf s.r)

instance (s : Stamped) : Decidable (Sealed s) := by unfold Sealed; exact inferInstance

theorem readFull_exact (pre x post : Bytes) (off : Nat) (hoff : pre.length = off) :
    readFull (pre ++ (x ++ post)) off x.length = some x := by
  unfold readFull
  by_cases hl : x.length = 0
  · rw [if_pos hl, List.eq_nil_of_length_eq_zero hl]
  · rw [if_neg hl, List.drop_left' hoff]
    have : ¬ ((x ++ post).length < x.length) := by simp
    rw [if_neg this, List.take_left' rfl]

theorem readFull_shift (pre x tail : Bytes) (n : Nat) :
    readFull (pre ++ (x ++ tail)) (pre.length + x.length) n = readFull tail 0 n := by
  unfold readFull
  have : (pre ++ (x ++ tail)).drop (pre.length + x.length) = tail := by
    rw [← List.append_assoc]
    exact List.drop_left' (by simp)
  rw [this, List.drop_zero]

/-- any 18 bytes in head position: the step is determined by the body read and the CRC comparison -/
theorem scanStep_rawhead (pre hb tail : Bytes) (hlen : hb.length = 18) :
    scanStep (pre ++ (hb ++ tail)) pre.length =
      match readFull tail 0 (leVal ((hb.drop 4).take 4)) with
      | none => .eof
      | some bb =>
        if crc16 bb % 65536 ≠ leVal (hb.drop 16) then .eof
        else
          match decodeBody bb with
          | .eof => .eof
          | .err e => .err e
          | .ok k v => .deliver ⟨leVal (hb.take 4), k, v⟩
              (FileUtilsAlign (GoSem.uadd 4294967296 18 (leVal ((hb.drop 4).take 4)))) := by
  unfold scanStep
  have hhead := readFull_exact pre hb tail pre.length rfl
  rw [hlen] at hhead
  rw [hhead]
  simp only
  have := readFull_shift pre hb tail (leVal ((hb.drop 4).take 4))
  rw [hlen] at this
  rw [this]
  cases readFull tail 0 (leVal ((hb.drop 4).take 4)) with
  | none => rfl
  | some bb =>
    simp only
    split
    · rfl
    · cases decodeBody bb <;> rfl

theorem encodeHead_fields (f l ts crc : Nat) (hf : f < 4294967296) (hl : l < 4294967296) :
    leVal ((encodeHead f l ts crc).take 4) = f ∧
    leVal (((encodeHead f l ts crc).drop 4).take 4) = l ∧
    leVal ((encodeHead f l ts crc).drop 16) = crc % 65536 := by
  refine ⟨?_, ?_, ?_⟩
  · unfold encodeHead
    rw [List.append_assoc, List.append_assoc, List.take_left' (leBytes_length _ _), leVal_leBytes]
    exact Nat.mod_eq_of_lt hf
  · unfold encodeHead
    rw [List.append_assoc, List.append_assoc, List.drop_left' (leBytes_length _ _),
      List.take_left' (leBytes_length _ _), leVal_leBytes]
    exact Nat.mod_eq_of_lt hl
  · unfold encodeHead
    rw [List.drop_left' (by simp), leVal_leBytes]

/-- the head is complete -/
theorem scanStep_head (pre tail : Bytes) (f l ts crc : Nat) (hf : f < 4294967296) (hl : l < 4294967296) :
    scanStep (pre ++ (encodeHead f l ts crc ++ tail)) pre.length =
      match readFull tail 0 l with
      | none => .eof
      | some bb =>
        if crc16 bb % 65536 ≠ crc % 65536 then .eof
        else
          match decodeBody bb with
          | .eof => .eof
          | .err e => .err e
          | .ok k v => .deliver ⟨f, k, v⟩ (FileUtilsAlign (GoSem.uadd 4294967296 18 l)) := by
  obtain ⟨h1, h2, h3⟩ := encodeHead_fields f l ts crc hf hl
  rw [scanStep_rawhead pre _ tail (encodeHead_length _ _ _ _), h1, h2, h3]

/-- a complete, sealed head + body at offset `off` (whatever follows) is delivered as the record it encodes -/
theorem scanStep_headbody (pre post : Bytes) (ts : Nat) (r : Record) (h : WF r) :
    scanStep (pre ++ (encodeHead r.flg (bodyOf r).length ts (crc16 (bodyOf r)) ++ (bodyOf r ++ post))) pre.length
      = .deliver r (encLen r) := by
  obtain ⟨hf, hb⟩ := h
  have hbl := encodeBody_length r.key r.val
  rw [scanStep_head pre _ _ _ _ _ hf (by omega)]
  have := readFull_exact [] (bodyOf r) post 0 rfl
  rw [List.nil_append] at this
  rw [this]
  have hdec : decodeBody (bodyOf r) = .ok r.key r.val := by
    unfold bodyOf at hb ⊢
    exact decodeBody_encodeBody _ _ (by omega)
  have hu : GoSem.uadd 4294967296 18 (bodyOf r).length = 18 + (bodyOf r).length := by
    unfold GoSem.uadd; omega
  simp only [ne_eq, not_true_eq_false, if_false, hdec, hu]
  rfl

theorem scanStep_enc (pre post : Bytes) (s : Stamped) (h : Sealed s) :
    scanStep (pre ++ (encodeRecord s.ts s.crc s.r ++ post)) pre.length = .deliver s.r (encLen s.r) := by
  rw [encodeRecord_eq s.ts s.crc s.r h.1, h.2]
  simp only [List.append_assoc]
  exact scanStep_headbody pre _ s.ts s.r h.1

theorem decodeBody_nil : decodeBody [] = .eof := by simp [decodeBody]

theorem scanStep_short (file : Bytes) (off : Nat) (h : file.length ≤ off + 18) : scanStep file off = .eof := by
  unfold scanStep
  cases hh : readFull file off 18 with
  | none => rfl
  | some hb =>
    simp only
    have hd : file.drop (off + 18) = [] := List.drop_eq_nil_of_le h
    unfold readFull
    by_cases hz : leVal ((hb.drop 4).take 4) = 0
    · simp only [hz, if_true]
      split
      · rfl
      · rw [decodeBody_nil]
    · simp only [hz, if_false, hd, List.length_nil]
      have : 0 < leVal ((hb.drop 4).take 4) := by omega
      simp [this]

theorem scanStep_adv (file : Bytes) (off : Nat) (r : Record) (adv : Nat)
    (h : scanStep file off = .deliver r adv) : adv % 256 = 0 := by
  unfold scanStep at h
  split at h
  · contradiction
  · simp only at h
    split at h
    · contradiction
    · split at h
      · contradiction
      · split at h
        · contradiction
        · contradiction
        · injection h with _ h2
          rw [← h2]; exact align_mod _

theorem stepOK_live : StepOK scanStep := ⟨scanStep_short, scanStep_adv⟩

theorem leVal_zeros (n : Nat) : leVal (zeros n) = 0 := by
  induction n with
  | zero => rfl
  | succ n ih =>
    simp only [zeros, List.replicate_succ, leVal] at ih ⊢
    rw [ih]; decide

/-- a body read inside a run of zero bytes -/
theorem readFull_zeros (n l : Nat) :
    readFull (zeros n) 0 l = if l = 0 then some [] else if n < l then none else some (zeros l) := by
  unfold readFull
  by_cases h0 : l = 0
  · simp [h0]
  · simp only [h0, if_false, List.drop_zero, zeros_length]
    by_cases h1 : n < l
    · simp [h1]
    · simp only [h1, if_false, zeros, List.take_replicate]
      congr 2
      omega

/-- a zero-filled region is the end of the log -/
theorem scanStep_zeros (pre : Bytes) (n : Nat) : scanStep (pre ++ zeros n) pre.length = .eof := by
  by_cases h : n ≤ 18
  · exact scanStep_short _ _ (by simp; omega)
  · have : zeros n = zeros 18 ++ zeros (n - 18) := by rw [← zeros_add]; congr 1; omega
    rw [this, scanStep_rawhead pre (zeros 18) _ (by simp)]
    have hl : leVal ((List.drop 4 (zeros 18)).take 4) = 0 := by decide
    rw [hl, readFull_zeros]
    simp only [if_true]
    split
    · rfl
    · rw [decodeBody_nil]

/-! ### a record cut anywhere, with or without a zero-filled tail (current reader) -/

/-- the explicit assumption about the checksum (CRC-16 is a 16-bit code: it cannot detect everything):
    1. a body that lost its tail to zero bytes — and is not identical to the intact body anyway — does
       not have the CRC of the intact body;
    2. a head cut after its 17th byte shows the length and the low CRC byte of the record: the all-zero
       body of that length does not have that (one-byte) value as its CRC.
    (The remaining zero-tail case, a CRC field that reads 0, needs no assumption: `crc16_zeros_ne_zero`.) -/
def CrcDetects (r : Record) : Prop :=
  (∀ k, k < (bodyOf r).length → (bodyOf r).take k ++ zeros ((bodyOf r).length - k) ≠ bodyOf r →
      crc16 ((bodyOf r).take k ++ zeros ((bodyOf r).length - k)) % 65536 ≠ crc16 (bodyOf r) % 65536) ∧
  crc16 (zeros (bodyOf r).length) % 65536 ≠ crc16 (bodyOf r) % 65536 % 256

instance (r : Record) : Decidable (CrcDetects r) := by unfold CrcDetects; exact inferInstance

/-- after a delivered record only zero bytes (or nothing) follow: the scan ends there -/
theorem scanLoop_after_record (pre : Bytes) (ts crc : Nat) (r : Record) (h : WF r) (w fuel : Nat) (acc : List Record) :
    scanLoop scanStep (fuel + 1) (pre ++ (encodeHead r.flg (bodyOf r).length ts crc ++ (bodyOf r ++ zeros w)))
        (pre.length + encLen r) acc
      = ⟨.eof, pre.length + encLen r, acc⟩ := by
  have hb := encLen_bounds r h
  by_cases hw : 18 + (bodyOf r).length + w ≤ encLen r
  · exact scanLoop_at_end stepOK_live _ _ _ _ (by simp; omega)
  · have hz : zeros w = zeros (encLen r - (18 + (bodyOf r).length)) ++ zeros (w - (encLen r - (18 + (bodyOf r).length))) := by
      rw [← zeros_add]; congr 1; omega
    have hfile : pre ++ (encodeHead r.flg (bodyOf r).length ts crc ++ (bodyOf r ++ zeros w)) =
        (pre ++ (encodeHead r.flg (bodyOf r).length ts crc ++ (bodyOf r ++
          zeros (encLen r - (18 + (bodyOf r).length))))) ++ zeros (w - (encLen r - (18 + (bodyOf r).length))) := by
      rw [hz]; simp only [List.append_assoc]
    have hlen : (pre ++ (encodeHead r.flg (bodyOf r).length ts crc ++ (bodyOf r ++
          zeros (encLen r - (18 + (bodyOf r).length))))).length = pre.length + encLen r := by
      simp; omega
    rw [hfile, ← hlen]
    exact scanLoop_eof _ _ _ _ (scanStep_zeros _ _)

/-- a complete sealed head + body followed by zero bytes only: delivered, then the scan ends -/
theorem scanLoop_sealed_zeros (pre : Bytes) (ts : Nat) (r : Record) (h : WF r) (w fuel : Nat) (acc : List Record) :
    scanLoop scanStep (fuel + 2)
        (pre ++ (encodeHead r.flg (bodyOf r).length ts (crc16 (bodyOf r)) ++ (bodyOf r ++ zeros w))) pre.length acc
      = ⟨.eof, pre.length + encLen r, acc ++ [r]⟩ := by
  have hb := encLen_bounds r h
  rw [scanLoop_deliver (fuel + 1) _ _ acc r (encLen r) (scanStep_headbody pre _ ts r h) (by omega)]
  exact scanLoop_after_record pre ts _ r h w fuel _

theorem take_drop_take_append {α : Type} (hd t : List α) (c i j : Nat) (hc : i + j ≤ c) (hl : c ≤ hd.length) :
    ((hd.take c ++ t).drop i).take j = (hd.drop i).take j := by
  have h1 : i ≤ (hd.take c).length := by rw [List.length_take]; omega
  rw [List.drop_append_of_le_length h1, List.drop_take]
  have h2 : j ≤ (List.take (c - i) (List.drop i hd)).length := by
    rw [List.length_take, List.length_drop]; omega
  rw [List.take_append_of_le_length h2, List.take_take]
  congr 1
  omega

/-- zero bytes in body position: the step ends in EOF as soon as the CRC field disagrees -/
theorem scanStep_rawhead_zeros (pre hb : Bytes) (n : Nat) (hlen : hb.length = 18)
    (hcrc : 0 < leVal ((hb.drop 4).take 4) →
      crc16 (zeros (leVal ((hb.drop 4).take 4))) % 65536 ≠ leVal (hb.drop 16)) :
    scanStep (pre ++ (hb ++ zeros n)) pre.length = .eof := by
  rw [scanStep_rawhead pre hb _ hlen, readFull_zeros]
  by_cases h0 : leVal ((hb.drop 4).take 4) = 0
  · simp only [h0, if_true]
    split
    · rfl
    · rw [decodeBody_nil]
  · simp only [h0, if_false]
    by_cases h1 : n < leVal ((hb.drop 4).take 4)
    · simp [h1]
    · simp only [h1, if_false]
      rw [if_pos (hcrc (by omega))]

/-- the record is cut inside its head (`c < 18`), zero bytes may follow: end of the log -/
theorem scanStep_torn_head (pre : Bytes) (s : Stamped) (hs : Sealed s) (c z : Nat) (hd : 0 < z → CrcDetects s.r)
    (hc : c < 18) :
    scanStep (pre ++ ((encodeRecord s.ts s.crc s.r).take c ++ zeros z)) pre.length = .eof := by
  obtain ⟨hwf, hcrc⟩ := hs
  have hbl := encodeBody_length s.r.key s.r.val
  have hWF := hwf
  obtain ⟨hf, hb⟩ := hwf
  by_cases hshort : c + z ≤ 18
  · apply scanStep_short
    simp only [List.length_append, List.length_take, zeros_length]
    omega
  · have hd := hd (by omega)
    -- the head buffer: the bytes of the real head that reached the file, then zeros
    have hE : (encodeRecord s.ts s.crc s.r).take c = (encodeHead s.r.flg (bodyOf s.r).length s.ts s.crc).take c := by
      rw [encodeRecord_eq s.ts s.crc s.r hWF, List.append_assoc,
        List.take_append_of_le_length (by simp; omega)]
    have hz : zeros z = zeros (18 - c) ++ zeros (z - (18 - c)) := by
      rw [← zeros_add]; congr 1; omega
    rw [hE, hz, ← List.append_assoc ((encodeHead s.r.flg (bodyOf s.r).length s.ts s.crc).take c)]
    apply scanStep_rawhead_zeros
    · simp only [List.length_append, List.length_take, encodeHead_length, zeros_length]; omega
    · intro hpos
      by_cases h16 : c ≤ 16
      · -- the CRC field reads 0
        have : List.drop 16 ((encodeHead s.r.flg (bodyOf s.r).length s.ts s.crc).take c ++ zeros (18 - c)) = zeros 2 := by
          rw [List.drop_append, List.drop_eq_nil_of_le (by simp; omega)]
          simp only [List.nil_append, List.length_take, encodeHead_length, zeros, List.drop_replicate]
          congr 1
          omega
        rw [this, leVal_zeros]
        exact crc16_zeros_ne_zero _
      · -- c = 17: length complete, low CRC byte visible
        have hc17 : c = 17 := by omega
        subst hc17
        have hl : leVal ((List.drop 4 ((encodeHead s.r.flg (bodyOf s.r).length s.ts s.crc).take 17 ++ zeros (18 - 17))).take 4)
            = (bodyOf s.r).length := by
          rw [take_drop_take_append _ _ 17 4 4 (by omega) (by simp)]
          exact (encodeHead_fields _ _ _ _ hf (by omega)).2.1
        have hcr : leVal (List.drop 16 ((encodeHead s.r.flg (bodyOf s.r).length s.ts s.crc).take 17 ++ zeros (18 - 17)))
            = s.crc % 256 := by
          rw [List.drop_append_of_le_length (by simp), List.drop_take]
          have : List.drop 16 (encodeHead s.r.flg (bodyOf s.r).length s.ts s.crc) = leBytes 2 s.crc := by
            unfold encodeHead
            exact List.drop_left' (by simp)
          rw [this]
          simp [leBytes, leVal, zeros]
        rw [hl, hcr, hcrc]
        have := hd.2
        omega

/-- **one torn record, any cut, any zero tail** (current reader): the loop ends with EOF and has
    delivered nothing, or exactly the record that was being written. -/
theorem scanLoop_torn (pre : Bytes) (s : Stamped) (hs : Sealed s) (c z fuel : Nat) (hd : 0 < z → CrcDetects s.r)
    (acc : List Record) :
    (c < 18 + (bodyOf s.r).length ∧
      ∃ o, scanLoop scanStep (fuel + 2) (pre ++ ((encodeRecord s.ts s.crc s.r).take c ++ zeros z)) pre.length acc
        = ⟨.eof, o, acc⟩) ∨
    (18 + (bodyOf s.r).length ≤ c + z ∧
      ∃ o, scanLoop scanStep (fuel + 2) (pre ++ ((encodeRecord s.ts s.crc s.r).take c ++ zeros z)) pre.length acc
        = ⟨.eof, o, acc ++ [s.r]⟩) := by
  have hWF := hs.1
  have hcrc := hs.2
  have hb := encLen_bounds s.r hWF
  obtain ⟨hf, hbl⟩ := hWF
  have hne := bodyOf_ne_nil s.r
  have hblpos : 0 < (bodyOf s.r).length := by
    cases hq : bodyOf s.r with
    | nil => exact absurd hq hne
    | cons a t => simp
  by_cases hc18 : c < 18
  · -- cut inside the head
    left
    exact ⟨by omega, _, scanLoop_eof _ _ _ _ (scanStep_torn_head pre s hs c z hd hc18)⟩
  · by_cases hcb : 18 + (bodyOf s.r).length ≤ c
    · -- cut behind the body: head ++ body ++ zeros
      right
      have hE : (encodeRecord s.ts s.crc s.r).take c =
          encodeHead s.r.flg (bodyOf s.r).length s.ts s.crc ++ (bodyOf s.r ++
            zeros (min (c - 18 - (bodyOf s.r).length) (encLen s.r - (18 + (bodyOf s.r).length)))) := by
        rw [encodeRecord_eq s.ts s.crc s.r hs.1, List.append_assoc, List.take_append,
          List.take_of_length_le (by simp; omega), List.take_append,
          List.take_of_length_le (by simp; omega)]
        simp only [encodeHead_length, zeros, List.take_replicate]
      rw [hE, hcrc]
      simp only [List.append_assoc, ← zeros_add]
      exact ⟨by omega, _, scanLoop_sealed_zeros pre s.ts s.r hs.1 _ fuel acc⟩
    · -- cut inside the body
      have hE : (encodeRecord s.ts s.crc s.r).take c =
          encodeHead s.r.flg (bodyOf s.r).length s.ts s.crc ++ (bodyOf s.r).take (c - 18) := by
        rw [encodeRecord_eq s.ts s.crc s.r hs.1, List.append_assoc, List.take_append,
          List.take_of_length_le (by simp; omega), List.take_append_of_le_length (by simp; omega)]
        simp
      rw [hE]
      by_cases hT : (bodyOf s.r).take (c - 18) ++ zeros ((bodyOf s.r).length - (c - 18)) = bodyOf s.r ∧
          (bodyOf s.r).length - (c - 18) ≤ z
      · -- only zero bytes were lost and the tail supplies them: the record is intact
        right
        have hz : zeros z = zeros ((bodyOf s.r).length - (c - 18)) ++ zeros (z - ((bodyOf s.r).length - (c - 18))) := by
          rw [← zeros_add]; congr 1; omega
        have hfile : pre ++ ((encodeHead s.r.flg (bodyOf s.r).length s.ts s.crc ++ (bodyOf s.r).take (c - 18)) ++ zeros z)
            = pre ++ (encodeHead s.r.flg (bodyOf s.r).length s.ts (crc16 (bodyOf s.r)) ++ (bodyOf s.r ++
                zeros (z - ((bodyOf s.r).length - (c - 18))))) := by
          rw [hz, hcrc]
          simp only [List.append_assoc]
          rw [← List.append_assoc ((bodyOf s.r).take (c - 18)), hT.1]
        rw [hfile]
        exact ⟨by omega, _, scanLoop_sealed_zeros pre s.ts s.r hs.1 _ fuel acc⟩
      · left
        refine ⟨by omega, _, scanLoop_eof _ _ _ _ ?_⟩
        rw [List.append_assoc, scanStep_head pre _ _ _ _ _ hf (by omega)]
        unfold readFull
        have hl0 : ¬ ((bodyOf s.r).length = 0) := by omega
        rw [if_neg hl0, List.drop_zero]
        by_cases hlen : ((bodyOf s.r).take (c - 18) ++ zeros z).length < (bodyOf s.r).length
        · rw [if_pos hlen]
        · rw [if_neg hlen]
          simp only
          have hk : ((bodyOf s.r).take (c - 18)).length = c - 18 := by
            rw [List.length_take]; omega
          have hzl : (bodyOf s.r).length - (c - 18) ≤ z := by
            simp only [List.length_append, hk, zeros_length] at hlen; omega
          have htake : List.take (bodyOf s.r).length ((bodyOf s.r).take (c - 18) ++ zeros z)
              = (bodyOf s.r).take (c - 18) ++ zeros ((bodyOf s.r).length - (c - 18)) := by
            rw [List.take_append, List.take_of_length_le (by omega), hk]
            simp only [zeros, List.take_replicate]
            congr 2
            omega
          rw [htake]
          have hneq : (bodyOf s.r).take (c - 18) ++ zeros ((bodyOf s.r).length - (c - 18)) ≠ bodyOf s.r :=
            fun h => hT ⟨h, hzl⟩
          have := (hd (by omega)).1 (c - 18) (by omega) hneq
          rw [hcrc, if_pos this]

/-! ### the pending index of the queue -/

theorem find_filter_ne (idx : Index) (k k' : Bytes) (h : k ≠ k') :
    (idx.filter (fun e => !(e.key == k'))).find? (fun e => e.key == k) = idx.find? (fun e => e.key == k) := by
  induction idx with
  | nil => rfl
  | cons e idx ih =>
    by_cases h1 : e.key = k'
    · have b1 : (e.key == k') = true := by simp [h1]
      have b2 : (e.key == k) = false := by
        simp only [beq_eq_false_iff_ne, ne_eq]
        intro h3; exact h (h3.symm.trans h1)
      rw [List.filter_cons, List.find?_cons]
      simp only [b1, b2, Bool.not_true, Bool.false_eq_true, if_false]
      exact ih
    · have b1 : (e.key == k') = false := by simp [h1]
      rw [List.filter_cons]
      simp only [b1, Bool.not_false, if_true]
      rw [List.find?_cons, List.find?_cons, ih]

theorem find_filter_self (idx : Index) (k : Bytes) :
    (idx.filter (fun e => !(e.key == k))).find? (fun e => e.key == k) = none := by
  induction idx with
  | nil => rfl
  | cons e idx ih =>
    by_cases h1 : e.key = k
    · have b1 : (e.key == k) = true := by simp [h1]
      rw [List.filter_cons]
      simp only [b1, Bool.not_true, Bool.false_eq_true, if_false]
      exact ih
    · have b1 : (e.key == k) = false := by simp [h1]
      rw [List.filter_cons]
      simp only [b1, Bool.not_false, if_true]
      rw [List.find?_cons]
      simp only [b1]
      exact ih

theorem idxFind_put_self (idx : Index) (e : IdxEntry) : idxFind (idxPut idx e) e.key = some e := by
  simp [idxFind, idxPut]

theorem idxFind_put_other (idx : Index) (e : IdxEntry) (k : Bytes) (h : k ≠ e.key) :
    idxFind (idxPut idx e) k = idxFind idx k := by
  have b : (e.key == k) = false := by
    simp only [beq_eq_false_iff_ne, ne_eq]; exact fun h1 => h h1.symm
  unfold idxFind idxPut idxErase
  rw [List.find?_cons]
  simp only [b]
  exact find_filter_ne idx k e.key h

theorem idxFind_erase_self (idx : Index) (k : Bytes) : idxFind (idxErase idx k) k = none :=
  find_filter_self idx k

theorem idxFind_erase_other (idx : Index) (k k' : Bytes) (h : k ≠ k') :
    idxFind (idxErase idx k') k = idxFind idx k :=
  find_filter_ne idx k k' h

theorem idxFind_some (idx : Index) (k : Bytes) (e : IdxEntry) (h : idxFind idx k = some e) :
    e ∈ idx ∧ e.key = k := by
  unfold idxFind at h
  exact ⟨List.mem_of_find?_eq_some h, by simpa using List.find?_some h⟩

theorem mem_idxErase (idx : Index) (k : Bytes) (e : IdxEntry) (h : e ∈ idxErase idx k) : e ∈ idx :=
  (List.mem_filter.1 h).1

theorem mem_idxPut (idx : Index) (e e' : IdxEntry) (h : e' ∈ idxPut idx e) : e' = e ∨ e' ∈ idx := by
  rcases List.mem_cons.1 h with h | h
  · exact Or.inl h
  · exact Or.inr (mem_idxErase _ _ _ h)

theorem idxCnt_setIndex (idx : Index) (r : Record) (k : Bytes) :
    idxCnt (setIndex false idx r) k = idxCnt idx k + (if r.key = k then 1 else 0) := by
  unfold setIndex
  by_cases hk : r.key = k
  · subst hk
    cases hf : idxFind idx r.key with
    | none => simp [idxCnt, hf, idxFind_put_self idx ⟨r.key, r.flg, 1⟩]
    | some e =>
      have := idxFind_put_self idx ⟨r.key, r.flg, e.cnt + 1⟩
      simp only at this
      simp [idxCnt, hf, this]
  · have hk' : k ≠ r.key := fun h => hk h.symm
    cases hf : idxFind idx r.key with
    | none =>
      have := idxFind_put_other idx ⟨r.key, r.flg, 1⟩ k hk'
      simp [idxCnt, this, hk]
    | some e =>
      have := idxFind_put_other idx ⟨r.key, r.flg, e.cnt + 1⟩ k hk'
      simp [idxCnt, this, hk]

/-- the invariant of the queue (for the code under test, `seeded = false`); `fl` = the flag a key is
    always written with (the index is keyed by key bytes only) -/
structure QInv (fl : Bytes → Nat) (s : QState) : Prop where
  cnt : ∀ k, idxCnt s.index k = s.pending.countP (fun r => r.key == k)
  pos : ∀ e ∈ s.index, 1 ≤ e.cnt
  iflg : ∀ e ∈ s.index, e.flg = fl e.key
  pflg : ∀ r ∈ s.pending, r.flg = fl r.key
  wal : ∃ d0 a, s.done = d0 ++ a ∧ s.wal = a ++ s.pending

theorem qInv_init (fl : Bytes → Nat) : QInv fl QState.init :=
  ⟨fun _ => rfl, fun _ h => by simp [QState.init] at h, fun _ h => by simp [QState.init] at h,
   fun _ h => by simp [QState.init] at h, ⟨[], [], rfl, rfl⟩⟩

/-- **the index is empty only when nothing is pending** -/
theorem qInv_index_empty (fl : Bytes → Nat) (s : QState) (h : QInv fl s) (he : s.index = []) : s.pending = [] := by
  cases hp : s.pending with
  | nil => rfl
  | cons r rest =>
    have := h.cnt r.key
    rw [he, hp] at this
    simp [idxCnt, idxFind] at this

theorem setIndex_mem (idx : Index) (r : Record) (e : IdxEntry) (h : e ∈ setIndex false idx r) :
    (e.key = r.key ∧ e.flg = r.flg ∧ 1 ≤ e.cnt) ∨ e ∈ idx := by
  unfold setIndex at h
  cases hf : idxFind idx r.key with
  | none =>
    rw [hf] at h
    rcases mem_idxPut _ _ _ h with h | h
    · left; rw [h]; exact ⟨rfl, rfl, Nat.le_refl _⟩
    · exact Or.inr h
  | some e0 =>
    rw [hf] at h
    rcases mem_idxPut _ _ _ h with h | h
    · left; rw [h]; exact ⟨rfl, rfl, by simp⟩
    · exact Or.inr h

/-- the part of the invariant that does not mention tmp.data is preserved by `deliver` -/
theorem qDeliver_core (fl : Bytes → Nat) (s : QState) (r : Record) (hr : r.flg = fl r.key)
    (hc : ∀ k, idxCnt s.index k = s.pending.countP (fun r => r.key == k))
    (hp : ∀ e ∈ s.index, 1 ≤ e.cnt) (hi : ∀ e ∈ s.index, e.flg = fl e.key) (hf : ∀ r ∈ s.pending, r.flg = fl r.key) :
    (∀ k, idxCnt (qDeliver false s r).index k = (qDeliver false s r).pending.countP (fun r => r.key == k)) ∧
    (∀ e ∈ (qDeliver false s r).index, 1 ≤ e.cnt) ∧ (∀ e ∈ (qDeliver false s r).index, e.flg = fl e.key) ∧
    (∀ r' ∈ (qDeliver false s r).pending, r'.flg = fl r'.key) := by
  refine ⟨?_, ?_, ?_, ?_⟩
  · intro k
    simp only [qDeliver, idxCnt_setIndex, hc k, List.countP_append, List.countP_cons, List.countP_nil]
    by_cases h : r.key = k <;> simp [h]
  · intro e he
    rcases setIndex_mem _ _ _ he with ⟨_, _, h⟩ | h
    · exact h
    · exact hp e h
  · intro e he
    rcases setIndex_mem _ _ _ he with ⟨h1, h2, _⟩ | h
    · rw [h2, h1]; exact hr
    · exact hi e h
  · intro r' hr'
    simp only [qDeliver, List.mem_append, List.mem_singleton] at hr'
    rcases hr' with h | h
    · exact hf r' h
    · rw [h]; exact hr

theorem qDeliver_fields (s : QState) (r : Record) :
    (qDeliver false s r).pending = s.pending ++ [r] ∧ (qDeliver false s r).wal = s.wal ∧
    (qDeliver false s r).done = s.done := ⟨rfl, rfl, rfl⟩

structure QCore (fl : Bytes → Nat) (s : QState) : Prop where
  cnt : ∀ k, idxCnt s.index k = s.pending.countP (fun r => r.key == k)
  pos : ∀ e ∈ s.index, 1 ≤ e.cnt
  iflg : ∀ e ∈ s.index, e.flg = fl e.key
  pflg : ∀ r ∈ s.pending, r.flg = fl r.key

theorem QInv.core {fl : Bytes → Nat} {s : QState} (h : QInv fl s) : QCore fl s := ⟨h.cnt, h.pos, h.iflg, h.pflg⟩

theorem qDeliver_foldl (fl : Bytes → Nat) (rs : List Record) (s : QState) (hrs : ∀ r ∈ rs, r.flg = fl r.key)
    (hc : QCore fl s) :
    QCore fl (rs.foldl (qDeliver false) s) ∧ (rs.foldl (qDeliver false) s).pending = s.pending ++ rs ∧
    (rs.foldl (qDeliver false) s).wal = s.wal ∧ (rs.foldl (qDeliver false) s).done = s.done := by
  induction rs generalizing s with
  | nil => exact ⟨hc, by simp, rfl, rfl⟩
  | cons r rs ih =>
    obtain ⟨c1, c2, c3, c4⟩ := qDeliver_core fl s r (hrs r (by simp)) hc.cnt hc.pos hc.iflg hc.pflg
    obtain ⟨i1, i2, i3, i4⟩ := ih (qDeliver false s r) (fun r' h => hrs r' (by simp [h])) ⟨c1, c2, c3, c4⟩
    refine ⟨i1, ?_, ?_, ?_⟩
    · rw [List.foldl_cons, i2]; simp [qDeliver]
    · rw [List.foldl_cons, i3]; rfl
    · rw [List.foldl_cons, i4]; rfl

/-- appending records to the queue (Put = one record, PutBatch = several) keeps the invariant -/
theorem qInv_append (fl : Bytes → Nat) (s : QState) (rs : List Record) (h : QInv fl s)
    (hrs : ∀ r ∈ rs, r.flg = fl r.key) :
    QInv fl (rs.foldl (qDeliver false) { qEmptyFile s with wal := (qEmptyFile s).wal ++ rs }) := by
  have hcore : QCore fl { qEmptyFile s with wal := (qEmptyFile s).wal ++ rs } := by
    unfold qEmptyFile
    split <;> exact ⟨h.cnt, h.pos, h.iflg, h.pflg⟩
  obtain ⟨c, hp, hw, hd⟩ := qDeliver_foldl fl rs _ hrs hcore
  refine ⟨c.cnt, c.pos, c.iflg, c.pflg, ?_⟩
  rw [hp, hw, hd]
  obtain ⟨d0, a, h1, h2⟩ := h.wal
  unfold qEmptyFile
  by_cases he : s.index = []
  · have hpe := qInv_index_empty fl s h he
    refine ⟨s.done, [], by simp [he], ?_⟩
    simp [he, hpe]
  · refine ⟨d0, a, by simp [he, h1], ?_⟩
    simp [he, h2]

/-- one operation of the code under test keeps the invariant and never panics -/
theorem qInv_step (fl : Bytes → Nat) (s : QState) (op : QOp) (h : QInv fl s)
    (hop : match op with
      | .put r => r.flg = fl r.key
      | .batch rs => ∀ r ∈ rs, r.flg = fl r.key
      | .done => True) :
    (qStep false s op).2 = false ∧ QInv fl (qStep false s op).1 := by
  cases op with
  | put r =>
    refine ⟨rfl, ?_⟩
    have := qInv_append fl s [r] h (by intro r' hr'; simp at hr'; rw [hr']; exact hop)
    simpa [qStep] using this
  | batch rs =>
    unfold qStep
    by_cases he : rs = []
    · simp [he, h]
    · simp only [he, if_false]
      exact ⟨trivial, qInv_append fl s rs h hop⟩
  | done =>
    unfold qStep
    cases hp : s.pending with
    | nil => exact ⟨rfl, h⟩
    | cons r rest =>
      simp only
      -- the entry of r.key exists, has the right flag and count = number of pending records of that key
      have hcnt := h.cnt r.key
      rw [hp] at hcnt
      simp only [List.countP_cons, beq_self_eq_true, if_true] at hcnt
      cases hf : idxFind s.index r.key with
      | none => simp [idxCnt, hf] at hcnt
      | some e =>
        obtain ⟨hmem, hkey⟩ := idxFind_some _ _ _ hf
        have hflg : e.flg = r.flg := by
          rw [h.iflg e hmem, hkey, h.pflg r (by rw [hp]; simp)]
        have hecnt : e.cnt = rest.countP (fun r' => r'.key == r.key) + 1 := by
          simpa [idxCnt, hf] using hcnt
        obtain ⟨d0, a, hd, hw⟩ := h.wal
        have hwal : ∃ d0' a', s.done ++ [r] = d0' ++ a' ∧ s.wal = a' ++ rest :=
          ⟨d0, a ++ [r], by rw [hd]; simp, by rw [hw, hp]; simp⟩
        unfold delIndex
        rw [hf]
        simp only [hflg, ne_eq, not_true_eq_false, if_false]
        by_cases h1 : e.cnt ≤ 1
        · simp only [h1, if_true]
          refine ⟨trivial, ?_, ?_, ?_, ?_, hwal⟩
          · intro k
            by_cases hk : k = r.key
            · subst hk
              simp only [idxCnt, idxFind_erase_self]
              omega
            · have := h.cnt k
              rw [hp] at this
              have hb : (r.key == k) = false := by
                simp only [beq_eq_false_iff_ne, ne_eq]; exact fun h2 => hk h2.symm
              simp only [List.countP_cons, hb, Bool.false_eq_true, if_false, Nat.add_zero] at this
              simp only [idxCnt, idxFind_erase_other _ _ _ hk]
              exact this
          · exact fun e' he' => h.pos e' (mem_idxErase _ _ _ he')
          · exact fun e' he' => h.iflg e' (mem_idxErase _ _ _ he')
          · exact fun r' hr' => h.pflg r' (by rw [hp]; simp [hr'])
        · simp only [h1, if_false]
          refine ⟨trivial, ?_, ?_, ?_, ?_, hwal⟩
          · intro k
            by_cases hk : k = r.key
            · subst hk
              have := idxFind_put_self s.index ⟨r.key, r.flg, e.cnt - 1⟩
              simp only at this
              simp only [idxCnt, this]
              omega
            · have := h.cnt k
              rw [hp] at this
              have hb : (r.key == k) = false := by
                simp only [beq_eq_false_iff_ne, ne_eq]; exact fun h2 => hk h2.symm
              simp only [List.countP_cons, hb, Bool.false_eq_true, if_false, Nat.add_zero] at this
              have hput := idxFind_put_other s.index ⟨r.key, r.flg, e.cnt - 1⟩ k hk
              simp only [idxCnt, hput]
              exact this
          · intro e' he'
            rcases mem_idxPut _ _ _ he' with h2 | h2
            · rw [h2]; simp only; omega
            · exact h.pos e' h2
          · intro e' he'
            rcases mem_idxPut _ _ _ he' with h2 | h2
            · rw [h2]; exact h.pflg r (by rw [hp]; simp)
            · exact h.iflg e' h2
          · exact fun r' hr' => h.pflg r' (by rw [hp]; simp [hr'])

/-! ### locality of the reader, and start-up (`checkFile`) on an ARBITRARY file -/

theorem readFull_local (f g : Bytes) (off n : Nat) (x : Bytes)
    (hag : g.take (off + n) = f.take (off + n)) (h : readFull f off n = some x) :
    readFull g off n = some x := by
  unfold readFull at h ⊢
  by_cases h0 : n = 0
  · simpa [h0] using h
  · simp only [h0, if_false] at h ⊢
    by_cases hl : (f.drop off).length < n
    · rw [if_pos hl] at h; contradiction
    · simp only [hl, if_false] at h
      have hfl : off + n ≤ f.length := by rw [List.length_drop] at hl; omega
      have hgl : off + n ≤ g.length := by
        have := congrArg List.length hag
        simp only [List.length_take] at this
        omega
      have hl' : ¬ ((g.drop off).length < n) := by rw [List.length_drop]; omega
      simp only [hl', if_false]
      have e1 : (g.drop off).take n = (g.take (off + n)).drop off := by
        rw [List.drop_take]; congr 1; omega
      have e2 : (f.drop off).take n = (f.take (off + n)).drop off := by
        rw [List.drop_take]; congr 1; omega
      rw [e1, hag, ← e2]
      exact h

theorem readFull_bound (f : Bytes) (off n : Nat) (x : Bytes) (h : readFull f off n = some x) :
    n = 0 ∨ off + n ≤ f.length := by
  unfold readFull at h
  by_cases h0 : n = 0
  · exact Or.inl h0
  · right
    simp only [h0, if_false] at h
    by_cases hl : (f.drop off).length < n
    · rw [if_pos hl] at h; contradiction
    · rw [List.length_drop] at hl; omega

theorem take_agree {α : Type} (f g : List α) (m M : Nat) (h : g.take M = f.take M) (hm : m ≤ M) :
    g.take m = f.take m := by
  have : (g.take M).take m = (f.take M).take m := by rw [h]
  rw [List.take_take, List.take_take, Nat.min_eq_left hm] at this
  exact this

/-- a delivering step reads only `18 + len` bytes at `p`, all inside the file, and advances at least that far -/
theorem scanStep_local (f : Bytes) (p : Nat) (r : Record) (adv : Nat) (hf : f.length + 274 ≤ 4294967296)
    (h : scanStep f p = .deliver r adv) :
    ∃ len, p + 18 + len ≤ f.length ∧ 18 + len ≤ adv ∧
      ∀ g : Bytes, g.take (p + 18 + len) = f.take (p + 18 + len) → scanStep g p = .deliver r adv := by
  unfold scanStep at h
  cases hh : readFull f p 18 with
  | none => rw [hh] at h; contradiction
  | some hb =>
    rw [hh] at h
    simp only at h
    cases hbd : readFull f (p + 18) (leVal ((hb.drop 4).take 4)) with
    | none => rw [hbd] at h; contradiction
    | some bb =>
      rw [hbd] at h
      simp only at h
      have h18 : p + 18 ≤ f.length := by
        rcases readFull_bound _ _ _ _ hh with h0 | h0
        · omega
        · exact h0
      have hlen : p + 18 + leVal ((hb.drop 4).take 4) ≤ f.length := by
        rcases readFull_bound _ _ _ _ hbd with h0 | h0
        · omega
        · omega
      refine ⟨leVal ((hb.drop 4).take 4), hlen, ?_, ?_⟩
      · -- the advance
        split at h
        · contradiction
        · split at h
          · contradiction
          · contradiction
          · injection h with _ h2
            have hu : GoSem.uadd 4294967296 18 (leVal ((hb.drop 4).take 4)) = 18 + leVal ((hb.drop 4).take 4) := by
              unfold GoSem.uadd; omega
            rw [hu] at h2
            have := align_spec (18 + leVal ((hb.drop 4).take 4)) (by omega)
            omega
      · intro g hag
        unfold scanStep
        have hg1 := readFull_local f g p 18 hb (take_agree f g _ _ hag (by omega)) hh
        rw [hg1]
        simp only
        have hg2 := readFull_local f g (p + 18) (leVal ((hb.drop 4).take 4)) bb hag hbd
        rw [hg2]
        exact h

theorem scanLoop_off_mono {step : Bytes → Nat → Step} (fuel : Nat) (f : Bytes) (p : Nat) (acc : List Record) :
    p ≤ (scanLoop step fuel f p acc).off := by
  induction fuel generalizing p acc with
  | zero => unfold scanLoop; split <;> exact Nat.le_refl _
  | succ n ih =>
    unfold scanLoop
    cases step f p with
    | eof => exact Nat.le_refl _
    | err e => exact Nat.le_refl _
    | deliver r adv =>
      simp only
      split
      · exact Nat.le_refl _
      · exact Nat.le_trans (Nat.le_add_right _ _) (ih (p + adv) (acc ++ [r]))

theorem scanLoop_fuel_mono {step : Bytes → Nat → Step} (hs : StepOK step) (fuel k : Nat) (f : Bytes) (p : Nat)
    (acc : List Record) (h : (scanLoop step fuel f p acc).stop ≠ .fuel) :
    scanLoop step (fuel + k) f p acc = scanLoop step fuel f p acc := by
  induction fuel generalizing p acc with
  | zero =>
    have hle : f.length ≤ p := by
      unfold scanLoop at h
      by_cases hl : f.length ≤ p
      · exact hl
      · simp [hl] at h
    rw [Nat.zero_add, scanLoop_at_end hs _ _ _ _ hle]
    simp [scanLoop, hle]
  | succ n ih =>
    have e : n + 1 + k = (n + k) + 1 := by omega
    rw [e]
    unfold scanLoop at h ⊢
    cases hst : step f p with
    | eof => rfl
    | err e => rfl
    | deliver r adv =>
      rw [hst] at h
      simp only at h ⊢
      by_cases h0 : adv = 0
      · simp [h0]
      · simp only [h0, if_false] at h ⊢
        exact ih _ _ h

@[simp] theorem truncateTo_length (f : Bytes) (n : Nat) : (truncateTo f n).length = n := by
  simp only [truncateTo, List.length_append, List.length_take, zeros_length]; omega

theorem truncateTo_take (f : Bytes) (off m : Nat) (tail : Bytes) (h1 : m ≤ off) (h2 : m ≤ f.length) :
    (truncateTo f off ++ tail).take m = f.take m := by
  unfold truncateTo
  rw [List.append_assoc, List.take_append_of_le_length (by rw [List.length_take]; omega), List.take_take,
    Nat.min_eq_left h1]

/-- the loop on the truncated file followed by freshly written records reproduces the run on the original
    file and then delivers exactly the new records -/
theorem scanLoop_truncated (f : Bytes) (hf : f.length + 274 ≤ 4294967296) (ss : List Stamped)
    (hss : ∀ s ∈ ss, Sealed s) (off : Nat) (recs : List Record) (fuel : Nat) (p : Nat) (acc : List Record)
    (h : scanLoop scanStep fuel f p acc = ⟨.eof, off, recs⟩) :
    scanLoop scanStep (fuel + (ss.length + 1)) (truncateTo f off ++ encodeAll ss) p acc
      = ⟨.eof, off + (encodeAll ss).length, recs ++ ss.map (·.r)⟩ := by
  have hw : ∀ s ∈ ss, WF s.r := fun s hs => (hss s hs).1
  -- what happens once the run on `f` has reached its end: position `off`, accumulator `recs`
  have hend : ∀ fuel', scanLoop scanStep (fuel' + (ss.length + 1)) (truncateTo f off ++ encodeAll ss) off recs
      = ⟨.eof, off + (encodeAll ss).length, recs ++ ss.map (·.r)⟩ := by
    intro fuel'
    have := scanLoop_encodeAll (step := scanStep) ss (truncateTo f off) [] recs (fuel' + (ss.length + 1)) hw
      (fun pre post x hx => scanStep_enc pre post x (hss x hx)) (by omega)
    simp only [List.append_nil, truncateTo_length] at this
    rw [this, scanLoop_at_end stepOK_live _ _ _ _ (by simp)]
  induction fuel generalizing p acc with
  | zero =>
    unfold scanLoop at h
    by_cases hl : f.length ≤ p
    · simp only [hl, if_true] at h
      injection h with _ h2 h3
      subst h2; subst h3
      exact hend 0
    · simp [hl] at h
  | succ n ih =>
    have e : n + 1 + (ss.length + 1) = (n + (ss.length + 1)) + 1 := by omega
    unfold scanLoop at h
    cases hst : scanStep f p with
    | eof =>
      rw [hst] at h
      simp only at h
      injection h with _ h2 h3
      subst h2; subst h3
      exact hend (n + 1)
    | err e' => rw [hst] at h; simp at h
    | deliver r adv =>
      rw [hst] at h
      simp only at h
      by_cases h0 : adv = 0
      · simp [h0] at h
      · simp only [h0, if_false] at h
        obtain ⟨len, hl1, hl2, hloc⟩ := scanStep_local f p r adv hf hst
        have hmono := scanLoop_off_mono (step := scanStep) n f (p + adv) (acc ++ [r])
        rw [h] at hmono
        simp only at hmono
        have hG : scanStep (truncateTo f off ++ encodeAll ss) p = .deliver r adv :=
          hloc _ (truncateTo_take f off _ _ (by omega) hl1)
        rw [e, scanLoop_deliver _ _ _ _ _ _ hG h0]
        exact ih _ _ h

theorem scan_truncated (f : Bytes) (hf : f.length + 274 ≤ 4294967296) (ss : List Stamped)
    (hss : ∀ s ∈ ss, Sealed s) (off : Nat) (recs : List Record) (h : scan f = ⟨.eof, off, recs⟩) :
    scan (truncateTo f off ++ encodeAll ss) = ⟨.eof, off + (encodeAll ss).length, recs ++ ss.map (·.r)⟩ := by
  have hmain := scanLoop_truncated f hf ss hss off recs (f.length + 1) 0 [] h
  generalize truncateTo f off ++ encodeAll ss = G at hmain ⊢
  show scanLoop scanStep (G.length + 1) G 0 [] = _
  have hnf := scanLoop_no_fuel (step := scanStep) stepOK_live (G.length + 1) G 0 [] (by omega)
  rcases Nat.le_total (G.length + 1) (f.length + 1 + (ss.length + 1)) with hc | hc
  · obtain ⟨k, hk⟩ : ∃ k, f.length + 1 + (ss.length + 1) = G.length + 1 + k := ⟨_, (Nat.add_sub_cancel' hc).symm⟩
    rw [hk, scanLoop_fuel_mono stepOK_live _ _ _ _ _ hnf] at hmain
    exact hmain
  · obtain ⟨k, hk⟩ : ∃ k, G.length + 1 = f.length + 1 + (ss.length + 1) + k := ⟨_, (Nat.add_sub_cancel' hc).symm⟩
    rw [hk, scanLoop_fuel_mono stepOK_live _ _ _ _ _ (by rw [hmain]; simp), hmain]

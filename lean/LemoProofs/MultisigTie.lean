/-
  C06 — tie T1 for the multisig arithmetic: the weight-sum test of `TxProcessor.checkSignersWeight`, the
  total-weight test of `judgeTotalWeight` and the signer-count / weight-range tests of
  `unmarshalAndVerifyData` (chain/transaction) are REGENERATED from the Go source on every run
  (tools/go2lean -> LemoGen/Multisig.lean) and proved here to be the tests the hand model
  LemoModel.Ledger branches on — over the model FUNCTIONS (`checkSigners`, `doSetSigners`), not over the
  literals: a changed comparison (`<` -> `<=`), a changed constant or a swapped operand in the Go source
  changes the generated definition and breaks these proofs.
  What the translator extracts is the CONDITION of each `if`, not its body nor its place in the function:
  that the sum is taken over the distinct recovered signers, and the order of the checks, stay with the
  correspondence (ledger ops) and the gate table.  Go sums `int64(uint8)` weights; the model sums naturals
  (no wrap-around is reachable: at most 100 registered signers of weight <= 100, and a tx carries a bounded
  number of signatures), the embedding is `Int.ofNat`.
-/
import LemoModel.Ledger
import LemoGen.Multisig
namespace LemoProofs.MultisigTie
open LemoModel LemoModel.Ledger

theorem weightShort_iff (n : Nat) : LemoGen.Multisig.weightShortCond (Int.ofNat n) = decide (n < 100) := by
  unfold LemoGen.Multisig.weightShortCond
  by_cases h : n < 100 <;> simp [h] <;> omega

theorem totalShort_iff (n : Nat) : LemoGen.Multisig.totalShortCond (Int.ofNat n) = decide (n < 100) := by
  unfold LemoGen.Multisig.totalShortCond
  by_cases h : n < 100 <;> simp [h] <;> omega

theorem tooMany_iff (n : Nat) : LemoGen.Multisig.tooManySignersCond n = decide (n > 100) := by
  unfold LemoGen.Multisig.tooManySignersCond
  by_cases h : n > 100 <;> simp [h] <;> omega

theorem badWeight_iff (w : Nat) : LemoGen.Multisig.badWeightCond w = decide (w < 1 ∨ w > 100) := by
  unfold LemoGen.Multisig.badWeightCond
  by_cases h1 : w < 1 <;> by_cases h2 : w > 100 <;> simp [h1, h2]

/-- `checkSignersWeight` of a multisig account, restated over the regenerated weight test -/
theorem checkSigners_regenerated (dedup : Bool) (acct : Acct) (sender s0 : Nat) (rest : List Nat)
    (hms : acct.signers.isEmpty = false) :
    checkSigners dedup acct sender (some (s0 :: rest)) =
      (let l := if dedup then distinct (s0 :: rest) else (s0 :: rest)
       if LemoGen.Multisig.weightShortCond (Int.ofNat (sumNat (l.map (weightOf acct.signers))))
       then some .totalWeight else none) := by
  simp only [checkSigners, hms, weightShort_iff]
  simp

/-- `ModifyMultisigTx` validation, restated over the three regenerated tests -/
theorem doSetSigners_regenerated (s : St) (f t : Nat) (l : List (Nat × Nat)) (tempOk : Bool) :
    doSetSigners s f t l tempOk =
      (if LemoGen.Multisig.tooManySignersCond l.length then .error .signerCount
       else if l.any (fun x => LemoGen.Multisig.badWeightCond x.2) then .error .signerWeight
       else if (distinct (l.map (·.1))).length ≠ l.length then .error .signerRepeat
       else if f ≠ t ∧ tempOk = false then .error .tempAddress
       else if f ≠ t ∧ (s.accts t).signers ≠ [] then .error .repeatSetTemp
       else if LemoGen.Multisig.totalShortCond (Int.ofNat (sumNat (l.map (·.2)))) then .error .totalWeight
       else .ok (modAcct s t (fun a => { a with signers := l }))) := by
  simp only [doSetSigners, tooMany_iff, badWeight_iff, totalShort_iff]
  simp

/-- the two constants the texts of C06 quote -/
theorem threshold_is_100 : LemoGen.Multisig.SignerWeightThreshold = 100 ∧ LemoGen.Multisig.MaxSignersNumber = 100 := ⟨rfl, rfl⟩

end LemoProofs.MultisigTie

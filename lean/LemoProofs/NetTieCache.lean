/-
  Tie T1 for the flush limits of the sync caches (C20).  `LemoGen.NetCache` is REGENERATED from
  /repo's working tree on every run: the two conditions are the Go `if len(c.cache) > 10240` of
  `BlockCache.Add` and `ConfirmCache.Push`.  The theorems say that the live model functions
  `Sync.addLive 10240` / `Sync.ccPushLive 10240` (the ones the C20 theorems are about) branch on exactly
  these conditions.  Editing the limit or the comparison in the Go source breaks these proofs.
-/
import LemoModel.Sync
import LemoGen.NetCache

namespace LemoProofs.NetTieCache
open LemoModel

/-- `BlockCache.Add`: the flush test of `Sync.addLive 10240` is the regenerated `if len(c.cache) > 10240` -/
theorem blockCache_flush_regenerated (b : Sync.Blk) (c : Sync.BlockCache) :
    Sync.addLive 10240 b c =
      (if LemoGen.NetCache.blockCacheFlushCond (Sync.addFixed b c).cache.length
        then Sync.clear Sync.maxU32 (Sync.addFixed b c) else Sync.addFixed b c) := by
  simp only [Sync.addLive, LemoGen.NetCache.blockCacheFlushCond]
  by_cases h : (Sync.addFixed b c).cache.length > 10240
  · have : ((Sync.addFixed b c).cache.length : Int) > 10240 := by omega
    simp [h, this]
  · have : ¬ ((Sync.addFixed b c).cache.length : Int) > 10240 := by omega
    simp [h, this]

/-- `ConfirmCache.Push`: same for `Sync.ccPushLive 10240` -/
theorem confirmCache_flush_regenerated (d : Sync.Confirm) (c : Sync.ConfirmCache) :
    Sync.ccPushLive 10240 d c =
      (if LemoGen.NetCache.confirmCacheFlushCond (Sync.ccPush d c).length
        then Sync.ccClear Sync.maxU32 (Sync.ccPush d c) else Sync.ccPush d c) := by
  simp only [Sync.ccPushLive, LemoGen.NetCache.confirmCacheFlushCond]
  by_cases h : (Sync.ccPush d c).length > 10240
  · have : ((Sync.ccPush d c).length : Int) > 10240 := by omega
    simp [h, this]
  · have : ¬ ((Sync.ccPush d c).length : Int) > 10240 := by omega
    simp [h, this]

end LemoProofs.NetTieCache

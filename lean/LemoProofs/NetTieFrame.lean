/-
  Tie T1 for the frame-length bounds of the p2p readers (C15); the sync-cache limits are in NetTieCache (C20).

  `LemoGen.Net` is REGENERATED from /repo's working tree on every run by tools/go2lean: the four
  `if` conditions below are the Go expressions of `Peer.readConn`, `readHandshakeBuf`,
  `ConfirmCache.Push` and `BlockCache.Add`, and `MaxPackageLength` is the Go constant.  The theorems
  say that the hand-written models `LemoModel.Frame` / `LemoModel.Sync` branch on exactly these
  conditions, for every length.  Editing a bound in the Go source (or replacing `>` by `>=`) changes the
  generated definition and these proofs stop checking — independently of whether the correspondence
  generator happens to sample the boundary.
-/
import LemoModel.Frame
import LemoGen.Net

namespace LemoProofs.NetTieFrame
open LemoModel

/-- the model's frame bound IS the Go constant `params.MaxPackageLength` -/
theorem maxLen_regenerated : Frame.realCfg.maxLen = LemoGen.Net.MaxPackageLength := rfl

/-- the 4-byte length field of the frame head -/
theorem packageLength_regenerated : LemoGen.Net.PackageLength = 4 := rfl

/-- `Peer.readConn`: `if length > params.MaxPackageLength` is the `.overflow` branch of `Frame.readConn` -/
theorem frame_guard_regenerated (len : Nat) :
    LemoGen.Net.frameTooLongCond len = decide (len > Frame.realCfg.maxLen) := by
  simp [LemoGen.Net.frameTooLongCond, Frame.realCfg]

/-- `readHandshakeBuf`: `if length == 0 || length > params.MaxPackageLength` is the rejection test of
    `Frame.hsStepWith` at the limit the LIVE reader `hsStepFixed` passes (`cfg.maxLen`) -/
theorem hs_guard_regenerated (len : Nat) :
    LemoGen.Net.hsFrameBadLenCond len = decide (len = 0 ∨ len > Frame.realCfg.maxLen) := by
  simp only [LemoGen.Net.hsFrameBadLenCond, Frame.realCfg]
  by_cases h0 : len = 0 <;> by_cases h1 : len > 26214400 <;> simp [h0, h1]

/-- `Msg.CheckCode`: `if msg.Code > 0x1F` is the `.badCode` test of the frame parser -/
theorem badCode_regenerated (code : Nat) :
    LemoGen.Net.badCodeCond code = decide (code > Frame.maxCode) := by
  simp [LemoGen.Net.badCodeCond, Frame.maxCode]

/-! ### the tie proper: the MODEL FUNCTIONS rewritten over the generated conditions (review round 8, R2: the theorems above
    relate the generated definitions to the model's CONSTANTS only) -/

/-- `Frame.readConn` (the reader `parseFixed_total` / `run_alloc_cumulative` are about): once the 6-byte head is there and the magic
    matches, a non-zero announced length `len` is refused exactly when the regenerated `readConn` guard fires; otherwise the content read follows -/
theorem readConn_regenerated {σ : Type} (R : Frame.Reader σ) (st st1 : σ) (hd : Frame.Bytes) (len : Nat)
    (h6 : R.readFull 6 st = some (hd, st1))
    (hm : ¬ (hd.getD 0 0 ≠ Frame.magic0 ∨ hd.getD 1 0 ≠ Frame.magic1))
    (hlen : Frame.be32 (hd.getD 2 0) (hd.getD 3 0) (hd.getD 4 0) (hd.getD 5 0) = len) (h0 : len ≠ 0) :
    Frame.readConn R Frame.realCfg st =
      (if LemoGen.Net.frameTooLongCond len then .err .overflow 6
       else match R.readFull len st1 with
         | none => .needMore (6 + len)
         | some (content, st2) => .content content st2 (6 + len)) := by
  unfold Frame.readConn
  rw [h6]
  simp only [hm, if_false, hlen, h0, LemoGen.Net.frameTooLongCond, Frame.realCfg]
  by_cases h1 : len > 26214400 <;> simp [h1]
  cases R.readFull len st1 <;> rfl

/-- `Frame.hsStepFixed` (the LIVE pre-handshake reader, bounded by MaxPackageLength since 529e8a0): once prefix and length field are
    there and the magic matches, the announced length `len` is refused exactly when the regenerated `readHandshakeBuf` guard fires -/
theorem hsStepFixed_regenerated {σ : Type} (pointOk macOk : Frame.Bytes → Bool) (R : Frame.Reader σ) (st st1 st2 : σ)
    (p l : Frame.Bytes) (len : Nat) (h2 : R.readFull 2 st = some (p, st1))
    (hm : ¬ (p.getD 0 0 ≠ Frame.magic0 ∨ p.getD 1 0 ≠ Frame.magic1))
    (h4 : R.readFull 4 st1 = some (l, st2))
    (hlen : Frame.be32 (l.getD 0 0) (l.getD 1 0) (l.getD 2 0) (l.getD 3 0) = len) :
    Frame.hsStepFixed pointOk macOk Frame.realCfg R st =
      (if LemoGen.Net.hsFrameBadLenCond len then ⟨.err .unavailable, 6⟩
       else match R.readFull len st2 with
         | none => ⟨.needMore, 6 + len⟩
         | some (c, _) =>
           ⟨(Frame.eciesOpenFixed pointOk macOk c).1, 6 + len + (Frame.eciesOpenFixed pointOk macOk c).2⟩) := by
  unfold Frame.hsStepFixed Frame.hsStepWith
  rw [h2]
  simp only [hm, if_false]
  rw [h4]
  simp only [hlen, LemoGen.Net.hsFrameBadLenCond, Frame.realCfg]
  by_cases h0 : len = 0 <;> by_cases h1 : len > 26214400 <;> simp [h0, h1]
  cases R.readFull len st2 <;> rfl

/-- `Frame.handleWith`: the `.badCode` answer is given exactly when the regenerated `Msg.CheckCode` test fires -/
theorem handleWith_regenerated (unpack : Frame.Bytes → Frame.Unpacked) (content payload : Frame.Bytes) (code : Nat)
    (hu : unpack content = .ok code payload) :
    Frame.handleWith unpack content =
      (if LemoGen.Net.badCodeCond code then .err .badCode
       else if code = Frame.heartbeatCode then .heartbeat else .deliver code payload) := by
  simp only [Frame.handleWith, hu, LemoGen.Net.badCodeCond, Frame.maxCode]
  by_cases h : code > 31 <;> simp [h]

end LemoProofs.NetTieFrame

/-
  Tie T1 for the frame-length bounds of the p2p readers (C15); the sync-cache limits are in NetTieCache (C20).

  `LemoGen.Net` is REGENERATED from /repo's working tree on every run by tools/go2lean: the four
  `if` conditions below are the Go expressions of `Peer.readConn`, `readHandshakeBuf`,
  `ConfirmCache.Push` and `BlockCache.Add`, and `MaxPackageLength` is the Go constant.  The theorems
  say that the hand-written models `LemoModel.Frame` / `LemoModel.Sync` branch on exactly these
  conditions, for every length.  Editing a bound in the Go source (or replacing `>` by `>=`) changes the
  generated definition and these proofs stop checking — independently of whether the correspondence
  generator happens to sample the boundary.
-/
import LemoModel.Frame
import LemoGen.Net

namespace LemoProofs.NetTieFrame
open LemoModel

/-- the model's frame bound IS the Go constant `params.MaxPackageLength` -/
theorem maxLen_regenerated : Frame.realCfg.maxLen = LemoGen.Net.MaxPackageLength := rfl

/-- the 4-byte length field of the frame head -/
theorem packageLength_regenerated : LemoGen.Net.PackageLength = 4 := rfl

/-- `Peer.readConn`: `if length > params.MaxPackageLength` is the `.overflow` branch of `Frame.readConn` -/
theorem frame_guard_regenerated (len : Nat) :
    LemoGen.Net.frameTooLongCond len = decide (len > Frame.realCfg.maxLen) := by
  simp [LemoGen.Net.frameTooLongCond, Frame.realCfg]

/-- `readHandshakeBuf`: `if length == 0 || length > params.MaxPackageLength` is the rejection test of
    `Frame.hsStepWith` at the limit the LIVE reader `hsStepFixed` passes (`cfg.maxLen`) -/
theorem hs_guard_regenerated (len : Nat) :
    LemoGen.Net.hsFrameBadLenCond len = decide (len = 0 ∨ len > Frame.realCfg.maxLen) := by
  simp only [LemoGen.Net.hsFrameBadLenCond, Frame.realCfg]
  by_cases h0 : len = 0 <;> by_cases h1 : len > 26214400 <;> simp [h0, h1]

/-- `Msg.CheckCode`: `if msg.Code > 0x1F` is the `.badCode` test of the frame parser -/
theorem badCode_regenerated (code : Nat) :
    LemoGen.Net.badCodeCond code = decide (code > Frame.maxCode) := by
  simp [LemoGen.Net.badCodeCond, Frame.maxCode]

end LemoProofs.NetTieFrame

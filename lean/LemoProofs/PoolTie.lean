/-
  Tie T1 for the capacity bookkeeping of the tx pool (C18).  `LemoGen.Pool` is REGENERATED from /repo's
  working tree on every run: `growCond` is the `if pool.cap-txCount < 1` of `TxPool.addTx`, `gcEmptyCond` the
  `if len(pool.hashIndexMap) <= 0` and `gcShrinkCond` the `if pool.cap > defaultPoolCap` of `TxPool.gc`,
  `defaultPoolCap` the Go constant.  The theorems say that `LemoModel.Pool.addTx` / `gc` (the functions the
  C18 theorems are about) branch on exactly these tests.
-/
import LemoModel.Pool
import LemoGen.Pool

namespace LemoProofs.PoolTie
open LemoModel LemoModel.Pool

theorem defaultPoolCap_regenerated : (Pool.defaultPoolCap : Int) = LemoGen.Pool.defaultPoolCap := rfl

/-- `addTx`: the capacity doubles exactly when the regenerated growth test fires (Go computes it on `int`, the
    model on `Nat` with truncated subtraction: the two agree for all values) -/
theorem addTx_grow_regenerated (p : Pool.Pool) (t : Pool.Tx) (h : Pool.isTxExist p t = false) :
    (Pool.addTx p (some t)).1.cap =
      (if LemoGen.Pool.growCond (p.cap : Int) (p.txs.length : Int) then p.cap * 2 else p.cap) := by
  simp only [Pool.addTx, h, LemoGen.Pool.growCond]
  by_cases hc : p.cap - p.txs.length < 1
  · have : ((p.cap : Int) - (p.txs.length : Int)) < 1 := by omega
    simp [hc, this]
  · have : ¬ ((p.cap : Int) - (p.txs.length : Int)) < 1 := by omega
    simp [hc, this]

/-- `gc`: reset exactly when the index is empty; shrink by one exactly when above the default -/
theorem gc_regenerated (p : Pool.Pool) :
    Pool.gc p =
      (if LemoGen.Pool.gcEmptyCond p.idx.length then
         { txs := [], idx := [],
           cap := if LemoGen.Pool.gcShrinkCond (p.cap : Int) LemoGen.Pool.defaultPoolCap then p.cap - 1 else p.cap }
       else p) := by
  simp only [Pool.gc, LemoGen.Pool.gcEmptyCond, LemoGen.Pool.gcShrinkCond, LemoGen.Pool.defaultPoolCap,
    Pool.defaultPoolCap]
  have he : p.idx.isEmpty = decide ((Int.ofNat p.idx.length) ≤ 0) := by
    cases hl : p.idx with
    | nil => simp
    | cons a l => simp
  rw [he]
  by_cases hc : p.cap > 128
  · have : (p.cap : Int) > 128 := by omega
    simp [hc, this]
  · have : ¬ (p.cap : Int) > 128 := by omega
    simp [hc, this]

end LemoProofs.PoolTie

/-
  C10 — tie T1 for the ranking comparator: the two swap tests of the selection sort `VoteTop.ranking`
  (store/vote.go) are REGENERATED from the Go source on every run (tools/go2lean -> LemoGen/Rank.lean):
      val := candidates[i].Total.Cmp(candidates[j].Total)
      if val < 0 { swap } else { if (val == 0) && (bytes.Compare(addr_i, addr_j) > 0) { swap } }
  and proved here to be the test `swapNeeded` that the hand model LemoModel.Ranking (`pass`, `selSort`,
  `ranking`) branches on.  `big.Int.Cmp` and `bytes.Compare` are library calls: their results enter as the
  opaque signed values `val` / `bytesCompare`, and `cmp3` states the assumed behaviour (-1 / 0 / +1 in the
  numeric order of the votes resp. the big-endian order of two 20-byte addresses, which is the numeric order
  of the model's address numbers).  A changed comparison (`<` -> `<=`, `> 0` -> `>= 0`, `==` -> `!=`), or a
  dropped conjunct changes the generated definitions and breaks `swapNeeded_regenerated`.
  NOT covered by this tie (the translator extracts the CONDITION of an `if`, not which operands are compared
  nor what the branch does): that `val` compares candidates[i] with candidates[j] (seed C10k compared the
  slot's original occupant in the tie test: same conditions, other operands) — that stays with the
  correspondence of the `rank` / block ops and the engine oracles.
-/
import LemoModel.Ranking
import LemoGen.Rank
namespace LemoProofs.RankTie
open LemoModel LemoModel.Ranking

/-- assumed behaviour of `big.Int.Cmp` on non-negative values and of `bytes.Compare` on equal-length
    big-endian byte strings, over the numbers they denote -/
def cmp3 (a b : Nat) : Int := if a < b then -1 else if a = b then 0 else 1

/-- the Go branch structure `if val < 0 {swap} else {if tie {swap}}` swaps iff one of the two
    regenerated tests holds; that is the model's `swapNeeded` -/
theorem swapNeeded_regenerated (ci cj : Cand) :
    swapNeeded ci cj =
      (LemoGen.Rank.swapOnVotesCond (cmp3 ci.votes cj.votes) ||
       LemoGen.Rank.swapOnTieCond (cmp3 ci.addr cj.addr) (cmp3 ci.votes cj.votes)) := by
  unfold swapNeeded LemoGen.Rank.swapOnVotesCond LemoGen.Rank.swapOnTieCond cmp3
  by_cases h1 : ci.votes < cj.votes
  · simp [h1]
  · by_cases h2 : ci.votes = cj.votes
    · by_cases h3 : ci.addr < cj.addr
      · have : ¬ ci.addr > cj.addr := by omega
        simp [h2, h3, this]
      · by_cases h4 : ci.addr = cj.addr
        · simp [h2, h4]
        · have : ci.addr > cj.addr := by omega
          simp [h2, h3, h4, this]
    · simp [h1, h2]

/-- the two tests are exclusive (the `else` of the Go code loses nothing) -/
theorem tests_exclusive (v c : Int) :
    ¬ (LemoGen.Rank.swapOnVotesCond v = true ∧ LemoGen.Rank.swapOnTieCond c v = true) := by
  unfold LemoGen.Rank.swapOnVotesCond LemoGen.Rank.swapOnTieCond
  intro ⟨h1, h2⟩
  simp at h1 h2
  omega

/-- non-vacuity: a tie on votes is decided by the address -/
example : swapNeeded ⟨5, 20⟩ ⟨3, 20⟩ = true ∧ swapNeeded ⟨3, 20⟩ ⟨5, 20⟩ = false := by decide

end LemoProofs.RankTie

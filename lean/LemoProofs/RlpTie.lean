/-
  Tie T1 for the short/long boundary of RLP headers (C14: "no non-minimal length prefixes").

  `LemoGen.RlpBounds` is REGENERATED from /repo's working tree on every run by tools/go2lean: the seven
  conditions are the Go `if` tests of `Stream.readKind` (string branch, list branch), raw.go `readSize`,
  `headsize`, `puthead`, `encbuf.encodeStringHeader` and `encbuf.listEnd` in common/rlp.  The theorems say that
  the hand-written codec model `LemoModel.Rlp` (about which decode∘encode = id and canonicity are proved)
  decides between the one-byte and the long header form by exactly these tests, at every site.  A slip of
  one of the seven comparisons in the Go source (`< 56` → `<= 56`, `< 55`, a named constant with another
  value, one branch only) changes a generated definition and the matching proof stops checking — whether or
  not the byte generator of the correspondence run produces a payload of exactly 55 or 56 bytes at that site.
-/
import LemoModel.Rlp
import LemoGen.RlpBounds

namespace LemoProofs.RlpTie
open LemoModel LemoModel.Rlp LemoGen.RlpBounds

/-- `Stream.readKind`, string branch (0xB8..0xBF): after a successful `readUint` the size test is the model's -/
theorem stream_string_canon_regenerated (size : Nat) :
    streamStringCanonCond true size = decide (size < 56) := by
  simp [streamStringCanonCond]

/-- `Stream.readKind`, list branch (0xF8..0xFF) -/
theorem stream_list_canon_regenerated (size : Nat) :
    streamListCanonCond true size = decide (size < 56) := by
  simp [streamListCanonCond]

/-- when `readUint` failed the canonical-size test is skipped (the read error is returned) -/
theorem stream_canon_skipped_on_read_error (size : Nat) :
    streamStringCanonCond false size = false ∧ streamListCanonCond false size = false := by
  simp [streamStringCanonCond, streamListCanonCond]

/-- the model's `readSize` (one function for both long-form branches, as `readUint` + test in Go) written with
    the two regenerated tests: they agree with each other and with the model at every size -/
theorem readSize_regenerated (top : Bool) (n : Nat) (inp : List UInt8) :
    readSize top n inp =
      (if inp.length < n then .error (tooLarge top)
       else if (inp.take n).head? = some 0 then .error .canonSize
       else if streamStringCanonCond true (fromBE (inp.take n)) then .error .canonSize
       else .ok (fromBE (inp.take n), inp.drop n)) ∧
    readSize top n inp =
      (if inp.length < n then .error (tooLarge top)
       else if (inp.take n).head? = some 0 then .error .canonSize
       else if streamListCanonCond true (fromBE (inp.take n)) then .error .canonSize
       else .ok (fromBE (inp.take n), inp.drop n)) := by
  simp [readSize, streamStringCanonCond, streamListCanonCond]

/-- raw.go `readSize`: first operand of `s < 56 || b[0] == 0` -/
theorem rawReadSize_regenerated (b : List UInt8) (slen : Nat) :
    rawReadSize b slen =
      (if b.length < slen then .error .unexpectedEOF
       else if rawSizeCanonCond (fromBE (b.take slen)) = true ∨ (b.take slen).head? = some 0 then .error .canonSize
       else .ok (fromBE (b.take slen))) := by
  simp [rawReadSize, rawSizeCanonCond]

/-- `puthead`: the encoder's header writer -/
theorem encLen_regenerated (off n : Nat) :
    encLen off n =
      (if putheadShortCond n then [UInt8.ofNat (off + n)]
       else UInt8.ofNat (off + 55 + (toBE n).length) :: toBE n) := by
  simp [encLen, putheadShortCond]

/-- `headsize`, `encodeStringHeader`, `listEnd`: the three other encoder sites use the same boundary -/
theorem encoder_sites_regenerated (n : Nat) :
    headsizeShortCond n = decide (n < 56) ∧
    stringHeaderShortCond (n : Int) = decide (n < 56) ∧
    listEndShortCond (n : Int) = decide (n < 56) := by
  refine ⟨by simp [headsizeShortCond], ?_, ?_⟩
  · simp only [stringHeaderShortCond]
    by_cases h : n < 56
    · have : (n : Int) < 56 := by omega
      simp [h, this]
    · have : ¬ (n : Int) < 56 := by omega
      simp [h, this]
  · simp only [listEndShortCond]
    by_cases h : n < 56
    · have : (n : Int) < 56 := by omega
      simp [h, this]
    · have : ¬ (n : Int) < 56 := by omega
      simp [h, this]

end LemoProofs.RlpTie

#!/bin/bash
# Offline build of the framework from files on disk (MANIFEST.setup_cmd).
set -e
cd "$(dirname "$0")"
export GOFLAGS=-mod=mod GOPROXY=off GOSUMDB=off GOTOOLCHAIN=local CGO_ENABLED=1
mkdir -p bin work evidence replays
(cd tools && go build -o ../bin/go2lean ./go2lean)
./bin/go2lean -repo /repo -out lean/LemoGen
cp /repo/go.sum harness/go.sum
(cd harness && go build -tags verif -o ../bin/hx ./hx)
if ./bin/hx facts -out work/facts.tmp -repo /repo >/dev/null 2>&1; then
  cp work/facts.tmp/*.lean lean/LemoGen/ 2>/dev/null || true
fi
(cd lean && lake build 2>&1 | grep -v 'WARNING conda' | tail -5)
echo setup done

#!/bin/bash
# Offline build of the framework from files on disk (MANIFEST.setup_cmd).
set -e
cd "$(dirname "$0")"
export GOFLAGS=-mod=mod GOPROXY=off GOSUMDB=off GOTOOLCHAIN=local CGO_ENABLED=1
mkdir -p bin work evidence replays
(cd tools && go build -o ../bin/go2lean ./go2lean)
./bin/go2lean -repo /repo -out lean/LemoGen
cp /repo/go.sum harness/go.sum
# warms the Go build cache; every check builds its own binary from the common files + its sub-commands' files,
# so a source change that breaks ONE property's harness does not take the others down
(cd harness && go build -tags verif -o ../bin/hx ./hx) || echo "note: the full harness does not build against /repo; per-check builds decide"
(cd lean && lake build 2>&1 | grep -v 'WARNING conda' | tail -5)
echo setup done

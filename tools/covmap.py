#!/usr/bin/env python3
"""covmap.py [ids...] — which /repo code do the checks' harness runs EXECUTE?

For each property: builds the check's harness exactly as ./check does (same file selection) but with
`go build -cover -coverpkg=<module>/...`, runs its sub-commands (quick tier sizes, seed 1) with GOCOVERDIR set,
and reports, per file anchored by the property (properties.jsonl anchors.files), the functions with 0 %
statement coverage and the overall percentage. Output: work/covmap/<id>.txt and a summary on stdout.
A gap-hunting aid (a mutation in code no check executes cannot be detected), not part of any check.
"""
import json, os, re, shutil, subprocess, sys

ROOT = os.path.dirname(os.path.dirname(os.path.abspath(__file__)))
REPO = os.environ.get("VERIF_REPO", "/repo")
MOD = "github.com/LemoFoundationLtd/lemochain-core"
GOENV = dict(os.environ, GOFLAGS="-mod=mod", GOPROXY="off", GOSUMDB="off", GOTOOLCHAIN="local", CGO_ENABLED="1")
OUT = "/scratch/covmap"


def prefixes(cfg):
    subs = [cfg["hx"]] + [x["hx"] for x in cfg.get("extra_hx", [])]
    pre = set()
    for s in subs:
        pre.add(s[:3])
        if s[:3] in ("c01", "c06", "c11"):
            pre.add("c05")
    return sorted(pre)


def main():
    ids = sys.argv[1:] or ["C%02d" % i for i in range(1, 21)]
    props = {json.loads(l)["id"]: json.loads(l) for l in open(os.path.join(ROOT, "properties.jsonl"))}
    os.makedirs(os.path.join(ROOT, "work", "covmap"), exist_ok=True)
    for pid in ids:
        cfg = json.load(open(os.path.join(ROOT, "props", pid + ".json")))
        d = os.path.join(OUT, pid)
        shutil.rmtree(d, ignore_errors=True)
        os.makedirs(os.path.join(d, "src", "hx"))
        h = os.path.join(ROOT, "harness")
        shutil.copyfile(os.path.join(REPO, "go.sum"), os.path.join(d, "src", "go.sum"))
        shutil.copyfile(os.path.join(h, "go.mod"), os.path.join(d, "src", "go.mod"))
        pres = prefixes(cfg)
        for f in sorted(os.listdir(os.path.join(h, "hx"))):
            if f.endswith(".go") and (f in ("main.go", "util.go", "node.go", "txgen.go") or
                                      any(re.match(r"%s([._].*)?\.go$|%s[._]" % (p, p), f) for p in pres)):
                shutil.copyfile(os.path.join(h, "hx", f), os.path.join(d, "src", "hx", f))
        binp = os.path.join(d, "hxcov")
        r = subprocess.run(["go", "build", "-cover", "-coverpkg=" + MOD + "/...,verifharness/hx", "-tags", "verif", "-o", binp, "./hx"],
                           cwd=os.path.join(d, "src"), env=GOENV, capture_output=True, text=True)
        if r.returncode != 0:
            print(pid, "BUILD FAILED", r.stderr[-400:])
            continue
        cov = os.path.join(d, "cov")
        os.makedirs(cov)
        runs = [(cfg["hx"], cfg["n"]["quick"])] + [(x["hx"], x["n"]["quick"]) for x in cfg.get("extra_hx", [])]
        for i, (sub, n) in enumerate(runs):
            wd = os.path.join(d, "run%d" % i)
            os.makedirs(wd)
            env = dict(GOENV, GOCOVERDIR=cov, GOMEMLIMIT="6GiB")
            try:
                subprocess.run([binp, sub, "-seed", "1", "-n", str(n), "-tier", "quick", "-out", wd], cwd=wd, env=env,
                               capture_output=True, text=True, timeout=3000)
            except subprocess.TimeoutExpired:
                print(pid, sub, "timeout")
        r = subprocess.run(["go", "tool", "covdata", "func", "-i=" + cov], env=GOENV, capture_output=True, text=True)
        funcs = {}
        for line in r.stdout.splitlines():
            m = re.match(r"(\S+?):(\d+):\s+(\S+)\s+([\d.]+)%", line)
            if m and m.group(1).startswith(MOD + "/"):
                funcs.setdefault(m.group(1)[len(MOD) + 1:], []).append((int(m.group(2)), m.group(3), float(m.group(4))))
        anchors = props[pid]["anchors"].get("files", [])
        lines = []
        tot0 = 0
        for a in anchors:
            fs = funcs.get(a)
            if fs is None:
                lines.append("%s: NOT IN COVERAGE DATA (no statement executed or not a Go file)" % a)
                continue
            zero = [f for f in fs if f[2] == 0.0]
            low = [f for f in fs if 0.0 < f[2] < 60.0]
            tot0 += len(zero)
            lines.append("%s: %d functions, %d never executed, %d below 60%%" % (a, len(fs), len(zero), len(low)))
            for ln, name, pc in zero:
                lines.append("    0%%   %s:%d" % (name, ln))
            for ln, name, pc in low:
                lines.append("    %4.1f%% %s:%d" % (pc, name, ln))
        open(os.path.join(ROOT, "work", "covmap", pid + ".txt"), "w").write("\n".join(lines) + "\n")
        print(pid, "anchored files:", len(anchors), "never-executed functions in them:", tot0)
        shutil.rmtree(os.path.join(d, "src"), ignore_errors=True)
        for i in range(len(runs)):
            shutil.rmtree(os.path.join(d, "run%d" % i), ignore_errors=True)


if __name__ == "__main__":
    main()

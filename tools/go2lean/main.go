// go2lean: a deliberately tiny Go -> Lean 4 translator for straight-line integer
// code (tie T1 of DESIGN.md).  It type-checks the packages of /repo's *working
// tree* with go/packages and emits, for a whitelist of functions and named
// expressions, Lean definitions over Int / Nat with Go's semantics made
// explicit:
//
//	signed ints    -> Int, + - * unbounded (int64 overflow is NOT modelled: the
//	                  theorems carry range hypotheses), / and % are Go's
//	                  truncated division  (Int.tdiv / Int.tmod)
//	unsigned ints  -> Nat, + - * wrap modulo 2^w (GoSem.uadd/usub/umul), / % as Nat
//	conversions    -> explicit (GoSem.toU w, Int.ofNat)
//	panic(...)     -> GoRes.panic ; `return x, ErrFoo` -> GoRes.err "ErrFoo"
//	calls listed as external  -> a fresh parameter of the generated def
//	package-level *variables* and selector chains rooted at parameters -> parameters
//	constants (go/types constant values) -> literals
//
// Everything it cannot translate is a hard error (exit 2): the tie is then
// broken and ./check turns that into the failing-input search.
package main

import (
	"bytes"
	"flag"
	"fmt"
	"go/ast"
	"go/constant"
	"go/printer"
	"go/token"
	"go/types"
	"os"
	"path/filepath"
	"sort"
	"strings"

	"golang.org/x/tools/go/packages"
)

type FuncSpec struct {
	Pkg    string            // package path relative to module root
	Recv   string            // receiver type name or ""
	Name   string            // function name
	Lean   string            // Lean def name
	Ext    map[string]string // external call (callee name) -> parameter name
	StopAt string            // callee name: `x, err := callee(args)` ends the function with .ok (args)
	Skip   map[string]bool   // callee names whose call statements are ignored (logging, metrics)
}

type ExprSpec struct {
	Pkg, Recv, Func string
	Kind            string // "assign" (LHS name, nth occurrence) or "return" (nth return stmt, k-th result)
	LHS             string
	Nth             int
	K               int
	Lean            string
}

type ConstSpec struct {
	Pkg, Name, Lean string
}

type Module struct {
	File   string
	NS     string
	Funcs  []FuncSpec
	Exprs  []ExprSpec
	Consts []ConstSpec
}

var logSkip = map[string]bool{"Debug": true, "Debugf": true, "Error": true, "Errorf": true, "Warn": true, "Warnf": true, "Info": true, "Infof": true, "Mark": true}

const modPath = "github.com/LemoFoundationLtd/lemochain-core/"

var modules = []Module{
	{
		File: "Schedule.lean", NS: "LemoGen.Schedule",
		Funcs: []FuncSpec{
			{Pkg: "chain/deputynode", Name: "IsSnapshotBlock", Lean: "IsSnapshotBlock"},
			{Pkg: "chain/deputynode", Name: "IsRewardBlock", Lean: "IsRewardBlock"},
			{Pkg: "chain/deputynode", Name: "GetSignerTermIndexByHeight", Lean: "GetSignerTermIndexByHeight"},
			{Pkg: "chain/deputynode", Name: "GetDeputyTermIndexByHeight", Lean: "GetDeputyTermIndexByHeight"},
			{Pkg: "chain/deputynode", Name: "GetLastSnapshotHeight", Lean: "GetLastSnapshotHeight"},
			{Pkg: "chain/consensus", Name: "GetNextMineWindow", Lean: "GetNextMineWindow",
				Ext: map[string]string{"GetDeputiesCount": "nodeCount"}},
			{Pkg: "chain/consensus", Name: "GetCorrectMiner", Lean: "GetCorrectMiner",
				Ext: map[string]string{"GetDeputiesCount": "nodeCount"}, StopAt: "GetDeputyByDistance"},
			{Pkg: "chain/miner", Recv: "Miner", Name: "getSleepTime", Lean: "getSleepTime"},
		},
		Exprs: []ExprSpec{
			{Pkg: "chain/deputynode", Recv: "Manager", Func: "GetDeputyByDistance", Kind: "assign", LHS: "targetIndex", Nth: 0, Lean: "byDistanceRewardIndex"},
			{Pkg: "chain/deputynode", Recv: "Manager", Func: "GetDeputyByDistance", Kind: "assign", LHS: "targetIndex", Nth: 1, Lean: "byDistanceIndex"},
			{Pkg: "chain/deputynode", Recv: "Manager", Func: "GetMinerDistance", Kind: "return", Nth: 1, K: 0, Lean: "minerDistanceReward"},
			{Pkg: "chain/deputynode", Recv: "Manager", Func: "GetMinerDistance", Kind: "return", Nth: 4, K: 0, Lean: "minerDistanceRanks"},
		},
		Consts: []ConstSpec{
			{Pkg: "chain/params", Name: "TermDuration", Lean: "TermDuration_init"},
			{Pkg: "chain/params", Name: "InterimDuration", Lean: "InterimDuration_init"},
		},
	},
	{
		File: "TxWindow.lean", NS: "LemoGen.TxWindow",
		Funcs: []FuncSpec{
			{Pkg: "chain/txpool", Recv: "TimeBuckets", Name: "getBucketIndex", Lean: "getBucketIndex"},
		},
		Exprs: []ExprSpec{
			{Pkg: "chain/types", Recv: "Transaction", Func: "VerifyTxBody", Kind: "ifcond", LHS: "Expiration()", Nth: 0, Lean: "txExpiredCond"},
			{Pkg: "chain/types", Recv: "Transaction", Func: "VerifyTxBody", Kind: "ifcond", LHS: "Expiration()", Nth: 1, Lean: "txTooFarCond"},
		},
		Consts: []ConstSpec{
			{Pkg: "chain/params", Name: "MaxTxLifeTime", Lean: "MaxTxLifeTime"},
			{Pkg: "chain/txpool", Name: "BucketDuration", Lean: "BucketDuration"},
		},
	},
	{
		File: "Store.lean", NS: "LemoGen.Store",
		Funcs: []FuncSpec{
			{Pkg: "store", Name: "FileUtilsAlign", Lean: "FileUtilsAlign"},
		},
	},
	{
		File: "Gas.lean", NS: "LemoGen.Gas",
		Funcs: []FuncSpec{
			{Pkg: "chain/transaction", Name: "getTxBaseSpendGas", Lean: "getTxBaseSpendGas"},
			{Pkg: "chain/consensus", Name: "calcGasLimit", Lean: "calcGasLimit"},
		},
		Consts: []ConstSpec{
			{Pkg: "chain/params", Name: "TxMessageGas", Lean: "TxMessageGas"},
			{Pkg: "chain/params", Name: "TxDataZeroGas", Lean: "TxDataZeroGas"},
			{Pkg: "chain/params", Name: "TxDataNonZeroGas", Lean: "TxDataNonZeroGas"},
			{Pkg: "chain/params", Name: "OrdinaryTxGas", Lean: "OrdinaryTxGas"},
			{Pkg: "chain/params", Name: "BoxTxGas", Lean: "BoxTxGas"},
			{Pkg: "chain/params", Name: "CallCreateDepth", Lean: "CallCreateDepth"},
			{Pkg: "chain/params", Name: "MaxCodeSize", Lean: "MaxCodeSize"},
		},
	},
	{
		// network-facing bounds: the frame-length guards of the p2p readers (C15); the flush limits of the sync caches are NetCache (C20)
		File: "Net.lean", NS: "LemoGen.Net",
		Exprs: []ExprSpec{
			{Pkg: "network/p2p", Recv: "Peer", Func: "readConn", Kind: "ifcond", LHS: "MaxPackageLength", Nth: 0, Lean: "frameTooLongCond"},
			{Pkg: "network/p2p", Func: "readHandshakeBuf", Kind: "ifcond", LHS: "MaxPackageLength", Nth: 0, Lean: "hsFrameBadLenCond"},
			{Pkg: "network/p2p", Recv: "Msg", Func: "CheckCode", Kind: "ifcond", LHS: "msg.Code", Nth: 0, Lean: "badCodeCond"},
		},
		Consts: []ConstSpec{
			{Pkg: "chain/params", Name: "MaxPackageLength", Lean: "MaxPackageLength"},
			{Pkg: "network/p2p", Name: "PackageLength", Lean: "PackageLength"},
		},
	},
	{
		// the short/long form boundary of RLP headers: every site that decides between the one-byte and the long form (C14 canonicity)
		File: "RlpBounds.lean", NS: "LemoGen.RlpBounds",
		Exprs: []ExprSpec{
			{Pkg: "common/rlp", Recv: "Stream", Func: "readKind", Kind: "ifcond", LHS: "size <", Nth: 0, Lean: "streamStringCanonCond"},
			{Pkg: "common/rlp", Recv: "Stream", Func: "readKind", Kind: "ifcond", LHS: "size <", Nth: 1, Lean: "streamListCanonCond"},
			{Pkg: "common/rlp", Func: "readSize", Kind: "ifcond", LHS: "s <", Nth: 0, K: 1, Lean: "rawSizeCanonCond"},
			{Pkg: "common/rlp", Func: "headsize", Kind: "ifcond", LHS: "size <", Nth: 0, Lean: "headsizeShortCond"},
			{Pkg: "common/rlp", Func: "puthead", Kind: "ifcond", LHS: "size <", Nth: 0, Lean: "putheadShortCond"},
			{Pkg: "common/rlp", Recv: "encbuf", Func: "encodeStringHeader", Kind: "ifcond", LHS: "size <", Nth: 0, Lean: "stringHeaderShortCond"},
			{Pkg: "common/rlp", Recv: "encbuf", Func: "listEnd", Kind: "ifcond", LHS: "size <", Nth: 0, Lean: "listEndShortCond"},
		},
	},
	{
		// tx pool capacity bookkeeping (C18): growth test of AddTx, reset / shrink tests of gc
		File: "Pool.lean", NS: "LemoGen.Pool",
		Exprs: []ExprSpec{
			{Pkg: "chain/txpool", Recv: "TxPool", Func: "addTx", Kind: "ifcond", LHS: "pool.cap-txCount", Nth: 0, Lean: "growCond"},
			{Pkg: "chain/txpool", Recv: "TxPool", Func: "gc", Kind: "ifcond", LHS: "len(pool.hashIndexMap)", Nth: 0, Lean: "gcEmptyCond"},
			{Pkg: "chain/txpool", Recv: "TxPool", Func: "gc", Kind: "ifcond", LHS: "pool.cap >", Nth: 0, Lean: "gcShrinkCond"},
		},
		Consts: []ConstSpec{
			{Pkg: "chain/txpool", Name: "defaultPoolCap", Lean: "defaultPoolCap"},
		},
	},
	{
		// the three header checks of VerifyBeforeTxProcess that are plain arithmetic (C02)
		File: "Header.lean", NS: "LemoGen.Header",
		Exprs: []ExprSpec{
			{Pkg: "chain/consensus", Func: "verifyHeight", Kind: "ifcond", LHS: "Height()", Nth: 0, Lean: "badHeightCond"},
			{Pkg: "chain/consensus", Func: "verifyTime", Kind: "ifcond", LHS: "timeNow", Nth: 0, Lean: "futureCond"},
			{Pkg: "chain/consensus", Func: "verifyExtraData", Kind: "ifcond", LHS: "MaxExtraDataLen", Nth: 0, Lean: "extraTooLongCond"},
		},
		Consts: []ConstSpec{
			{Pkg: "chain/params", Name: "MaxExtraDataLen", Lean: "MaxExtraDataLen"},
		},
	},
	{
		// multisig authorisation and ModifySigners validation (C06): the weight-sum, weight-range and signer-count tests
		File: "Multisig.lean", NS: "LemoGen.Multisig",
		Exprs: []ExprSpec{
			{Pkg: "chain/transaction", Recv: "TxProcessor", Func: "checkSignersWeight", Kind: "ifcond", LHS: "totalWeight <", Nth: 0, Lean: "weightShortCond"},
			{Pkg: "chain/transaction", Func: "judgeTotalWeight", Kind: "ifcond", LHS: "totalWeight <", Nth: 0, Lean: "totalShortCond"},
			{Pkg: "chain/transaction", Func: "unmarshalAndVerifyData", Kind: "ifcond", LHS: "len(newSigners.Signers)", Nth: 0, Lean: "tooManySignersCond"},
			{Pkg: "chain/transaction", Func: "unmarshalAndVerifyData", Kind: "ifcond", LHS: "v.Weight <", Nth: 0, Lean: "badWeightCond"},
		},
		Consts: []ConstSpec{
			{Pkg: "chain/transaction", Name: "SignerWeightThreshold", Lean: "SignerWeightThreshold"},
			{Pkg: "chain/transaction", Name: "MaxSignersNumber", Lean: "MaxSignersNumber"},
		},
	},
	{
		// the two swap tests of the selection sort that ranks candidates (C10)
		File: "Rank.lean", NS: "LemoGen.Rank",
		Exprs: []ExprSpec{
			{Pkg: "store", Recv: "VoteTop", Func: "ranking", Kind: "ifcond", LHS: "val <", Nth: 0, Lean: "swapOnVotesCond"},
			{Pkg: "store", Recv: "VoteTop", Func: "ranking", Kind: "ifcond", LHS: "(val ==", Nth: 0, Lean: "swapOnTieCond"},
		},
	},
	{
		File: "NetCache.lean", NS: "LemoGen.NetCache",
		Exprs: []ExprSpec{
			{Pkg: "network", Recv: "ConfirmCache", Func: "Push", Kind: "ifcond", LHS: "len(c.cache)", Nth: 0, Lean: "confirmCacheFlushCond"},
			{Pkg: "network", Recv: "BlockCache", Func: "Add", Kind: "ifcond", LHS: "len(c.cache)", Nth: 0, Lean: "blockCacheFlushCond"},
		},
	},
}

// ---------------------------------------------------------------------------

type kind int

const (
	kInt kind = iota // signed
	kNat             // unsigned with width
	kBool
	kOpaque // compared by equality only, modelled as Nat id
	kErr
)

type lty struct {
	k kind
	w int
}

func (t lty) lean() string {
	switch t.k {
	case kInt:
		return "Int"
	case kNat, kOpaque:
		return "Nat"
	case kBool:
		return "Bool"
	}
	return "String"
}

func classify(t types.Type) lty {
	if t == nil {
		return lty{k: kOpaque}
	}
	if n, ok := t.(*types.Named); ok && n.Obj().Name() == "error" && n.Obj().Pkg() == nil {
		return lty{k: kErr}
	}
	switch u := t.Underlying().(type) {
	case *types.Basic:
		switch u.Kind() {
		case types.Int, types.Int64, types.UntypedInt, types.UntypedFloat, types.UntypedRune:
			return lty{k: kInt, w: 64}
		case types.Int32:
			return lty{k: kInt, w: 32}
		case types.Int16:
			return lty{k: kInt, w: 16}
		case types.Int8:
			return lty{k: kInt, w: 8}
		case types.Uint, types.Uint64, types.Uintptr:
			return lty{k: kNat, w: 64}
		case types.Uint32:
			return lty{k: kNat, w: 32}
		case types.Uint16:
			return lty{k: kNat, w: 16}
		case types.Uint8:
			return lty{k: kNat, w: 8}
		case types.Bool, types.UntypedBool:
			return lty{k: kBool}
		}
	case *types.Interface:
		if types.Identical(t, types.Universe.Lookup("error").Type()) {
			return lty{k: kErr}
		}
	}
	return lty{k: kOpaque}
}

type param struct {
	name string
	ty   lty
}

type tr struct {
	pkg    *packages.Package
	info   *types.Info
	spec   *FuncSpec
	params []param
	seen   map[string]bool
	locals map[types.Object]string
	fnObj  map[string]*genFn // translated functions by "pkgpath.Name"
	hasRes bool              // result uses GoRes
	nres   int
	resErr bool
	// Go source text of every NON-CONSTANT divisor of a `/` or `%` in the function. Go panics when one is zero;
	// the Lean rendering (Int.tdiv / Int.tmod / Nat `/` `%`) is total. The list is generated as `<fn>_divisors`
	// so that the hand models which restore the panic (and their theorems) notice a new one.
	divisors []string
}

func (g *genFn) hasParam(n string) bool {
	for _, p := range g.params {
		if p.name == n {
			return true
		}
	}
	return false
}

type genFn struct {
	lean   string
	params []param
	formal []string // names of formal (Go) params in order (subset of params)
	useRes bool
}

// translateError aborts the translation of ONE module (recovered in main): the module's file is then written as a
// deliberately non-compiling stub, so that exactly the properties whose models import it lose their tie.
type translateError struct{ msg string }

func fail(format string, a ...interface{}) {
	panic(translateError{fmt.Sprintf(format, a...)})
}

func sanitize(s string) string {
	r := strings.NewReplacer(".", "_", "(", "", ")", "", "*", "", " ", "", "[", "_", "]", "", ",", "_")
	s = r.Replace(s)
	switch s {
	case "from", "to", "at", "end", "then", "else", "fun", "let", "in", "do", "have", "show", "open", "def", "theorem", "where", "with", "match", "if", "by", "type", "instance":
		return s + "'"
	}
	return s
}

func (t *tr) addParam(name string, ty lty) string {
	name = sanitize(name)
	if !t.seen[name] {
		t.seen[name] = true
		t.params = append(t.params, param{name, ty})
	}
	return name
}

func exprText(fset *token.FileSet, e ast.Expr) string {
	switch x := e.(type) {
	case *ast.Ident:
		return x.Name
	case *ast.SelectorExpr:
		return exprText(fset, x.X) + "_" + x.Sel.Name
	case *ast.CallExpr:
		return exprText(fset, x.Fun)
	case *ast.StarExpr:
		return exprText(fset, x.X)
	case *ast.ParenExpr:
		return exprText(fset, x.X)
	case *ast.IndexExpr:
		return exprText(fset, x.X) + "_at_" + exprText(fset, x.Index)
	case *ast.BasicLit:
		return x.Value
	}
	return fmt.Sprintf("e%d", e.Pos())
}

func pow2(w int) string {
	switch w {
	case 8:
		return "256"
	case 16:
		return "65536"
	case 32:
		return "4294967296"
	}
	return "18446744073709551616"
}

func (t *tr) constLit(tv types.TypeAndValue, ty lty) (string, bool) {
	if tv.Value == nil {
		return "", false
	}
	switch tv.Value.Kind() {
	case constant.Int, constant.Float:
		v := constant.ToInt(tv.Value)
		if v.Kind() != constant.Int {
			return "", false
		}
		s := v.ExactString()
		if ty.k == kInt {
			if strings.HasPrefix(s, "-") {
				return "(" + s + " : Int)", true
			}
			return "(" + s + " : Int)", true
		}
		return "(" + s + " : Nat)", true
	case constant.Bool:
		if constant.BoolVal(tv.Value) {
			return "true", true
		}
		return "false", true
	}
	return "", false
}

// expr translates e and returns Lean text + its type.
func (t *tr) expr(e ast.Expr) (string, lty) {
	tv := t.info.Types[e]
	ty := classify(tv.Type)
	if s, ok := t.constLit(tv, ty); ok {
		return s, ty
	}
	switch x := e.(type) {
	case *ast.ParenExpr:
		return t.expr(x.X)
	case *ast.Ident:
		obj := t.info.Uses[x]
		if obj == nil {
			obj = t.info.Defs[x]
		}
		if n, ok := t.locals[obj]; ok {
			return n, ty
		}
		if x.Name == "nil" {
			return "nil", lty{k: kErr}
		}
		if v, ok := obj.(*types.Var); ok && v.Pkg() != nil && v.Parent() == v.Pkg().Scope() {
			// package-level variable of this package: a parameter
			return t.addParam(v.Pkg().Name()+"_"+x.Name, ty), ty
		}
		fail("%s: unknown identifier %s", t.spec.Name, x.Name)
	case *ast.SelectorExpr:
		// package var, or field chain rooted at a parameter: becomes a parameter
		name := exprText(t.pkg.Fset, x)
		return t.addParam(name, ty), ty
	case *ast.UnaryExpr:
		s, st := t.expr(x.X)
		switch x.Op {
		case token.SUB:
			if st.k == kInt {
				return "(- " + s + ")", st
			}
			return fmt.Sprintf("(GoSem.usub %s 0 %s)", pow2(st.w), s), st
		case token.NOT:
			return "(!" + s + ")", st
		case token.ADD:
			return s, st
		}
	case *ast.BinaryExpr:
		// `v == nil` / `v != nil` for an error or otherwise opaque variable: a Boolean parameter `v_isNil` of the generated definition
		if x.Op == token.EQL || x.Op == token.NEQ {
			for _, pair := range [][2]ast.Expr{{x.X, x.Y}, {x.Y, x.X}} {
				id, ok1 := pair[0].(*ast.Ident)
				nl, ok2 := pair[1].(*ast.Ident)
				if ok1 && ok2 && nl.Name == "nil" && t.info.Uses[nl] == types.Universe.Lookup("nil") {
					if v, ok := t.info.Uses[id].(*types.Var); ok {
						if k := classify(v.Type()).k; k == kErr || k == kOpaque {
							name := sanitize(id.Name) + "_isNil"
							t.addParam(name, lty{k: kBool})
							if x.Op == token.EQL {
								return name, lty{k: kBool}
							}
							return "(!" + name + ")", lty{k: kBool}
						}
					}
				}
			}
		}
		a, at := t.expr(x.X)
		b, bt := t.expr(x.Y)
		opt := at
		if at.k == kErr || bt.k == kErr {
			opt = lty{k: kErr}
		}
		if x.Op == token.QUO || x.Op == token.REM {
			if tv, ok := t.info.Types[x.Y]; !ok || tv.Value == nil {
				d := types.ExprString(x.Y)
				dup := false
				for _, e := range t.divisors {
					dup = dup || e == d
				}
				if !dup {
					t.divisors = append(t.divisors, d)
				}
			}
		}
		switch x.Op {
		case token.ADD, token.SUB, token.MUL, token.QUO, token.REM:
			if opt.k == kInt {
				op := map[token.Token]string{token.ADD: "+", token.SUB: "-", token.MUL: "*"}[x.Op]
				if x.Op == token.QUO {
					return fmt.Sprintf("(Int.tdiv %s %s)", a, b), ty
				}
				if x.Op == token.REM {
					return fmt.Sprintf("(Int.tmod %s %s)", a, b), ty
				}
				return fmt.Sprintf("(%s %s %s)", a, op, b), ty
			}
			if opt.k == kNat {
				switch x.Op {
				case token.ADD:
					return fmt.Sprintf("(GoSem.uadd %s %s %s)", pow2(opt.w), a, b), ty
				case token.SUB:
					return fmt.Sprintf("(GoSem.usub %s %s %s)", pow2(opt.w), a, b), ty
				case token.MUL:
					return fmt.Sprintf("(GoSem.umul %s %s %s)", pow2(opt.w), a, b), ty
				case token.QUO:
					return fmt.Sprintf("(%s / %s)", a, b), ty
				case token.REM:
					return fmt.Sprintf("(%s %% %s)", a, b), ty
				}
			}
		case token.EQL, token.NEQ, token.LSS, token.LEQ, token.GTR, token.GEQ:
			if opt.k == kErr {
				fail("%s: error comparison outside supported pattern", t.spec.Name)
			}
			op := map[token.Token]string{token.EQL: "==", token.NEQ: "!=", token.LSS: "<", token.LEQ: "≤", token.GTR: ">", token.GEQ: "≥"}[x.Op]
			if x.Op == token.EQL || x.Op == token.NEQ {
				return fmt.Sprintf("(%s %s %s)", a, op, b), lty{k: kBool}
			}
			if opt.k == kOpaque {
				fail("%s: ordering on opaque type", t.spec.Name)
			}
			return fmt.Sprintf("(decide (%s %s %s))", a, op, b), lty{k: kBool}
		case token.LAND:
			return fmt.Sprintf("(%s && %s)", a, b), lty{k: kBool}
		case token.LOR:
			return fmt.Sprintf("(%s || %s)", a, b), lty{k: kBool}
		}
	case *ast.CallExpr:
		// conversion?
		if ftv, ok := t.info.Types[x.Fun]; ok && ftv.IsType() {
			s, st := t.expr(x.Args[0])
			dt := classify(ftv.Type)
			return t.convert(s, st, dt), dt
		}
		callee := calleeName(x.Fun)
		if callee == "len" {
			return "(Int.ofNat " + t.addParam("len_"+exprText(t.pkg.Fset, x.Args[0]), lty{k: kNat, w: 64}) + ")", lty{k: kInt, w: 64}
		}
		if callee == "Compare" && len(x.Args) == 2 { // bytes.Compare(a, b): an opaque signed result (-1, 0, +1)
			return t.addParam("bytesCompare", lty{k: kInt, w: 64}), lty{k: kInt, w: 64}
		}
		if p, ok := t.spec.Ext[callee]; ok {
			return t.addParam(p, ty), ty
		}
		if obj := t.calleeObj(x.Fun); obj != nil {
			if g, ok := t.fnObj[obj.Pkg().Path()+"."+obj.Name()]; ok {
				if g.useRes {
					fail("%s: call to GoRes function %s in expression", t.spec.Name, obj.Name())
				}
				var args []string
				for i, a := range x.Args {
					if !g.hasParam(g.formal[i]) {
						continue // pointer/struct formal of the callee: only its field chains are parameters
					}
					s, _ := t.expr(a)
					args = append(args, fmt.Sprintf("(%s := %s)", g.formal[i], s))
				}
				for _, p := range g.params {
					isFormal := false
					for _, f := range g.formal {
						if f == p.name {
							isFormal = true
						}
					}
					if !isFormal {
						t.addParam(p.name, p.ty)
						args = append(args, fmt.Sprintf("(%s := %s)", p.name, p.name))
					}
				}
				return "(" + g.lean + " " + strings.Join(args, " ") + ")", ty
			}
		}
		// zero-arg method on a parameter chain, e.g. tx.Expiration(): an atom
		if len(x.Args) == 0 {
			if _, ok := x.Fun.(*ast.SelectorExpr); ok {
				return t.addParam(exprText(t.pkg.Fset, x.Fun), ty), ty
			}
		}
		fail("%s: unsupported call %s", t.spec.Name, callee)
	}
	fail("%s: unsupported expression %T at %v", t.spec.Name, e, t.pkg.Fset.Position(e.Pos()))
	return "", lty{}
}

// len() is `int` in Go; we keep the atom as Nat and lift it.
func (l lty) asLen() lty { return lty{k: kInt, w: 64} }

func (t *tr) convert(s string, from, to lty) string {
	switch {
	case from.k == kInt && to.k == kInt:
		if to.w >= from.w {
			return s
		}
		// a NARROWING signed conversion (int64 -> int32, …) wraps: it is never the identity
		return fmt.Sprintf("(GoSem.toS %s %s)", pow2(to.w), s)
	case from.k == kNat && to.k == kInt:
		if to.w > from.w {
			return "(Int.ofNat " + s + ")"
		}
		// same or smaller width (uint64 -> int64, uint32 -> int32, …): values from 2^(w-1) up turn negative
		return fmt.Sprintf("(GoSem.toS %s (Int.ofNat %s))", pow2(to.w), s)
	case from.k == kInt && to.k == kNat:
		return fmt.Sprintf("(GoSem.toU %s %s)", pow2(to.w), s)
	case from.k == kNat && to.k == kNat:
		if to.w >= from.w {
			return s
		}
		return fmt.Sprintf("(%s %% %s)", s, pow2(to.w))
	}
	fail("%s: unsupported conversion", t.spec.Name)
	return ""
}

func calleeName(f ast.Expr) string {
	switch x := f.(type) {
	case *ast.Ident:
		return x.Name
	case *ast.SelectorExpr:
		return x.Sel.Name
	}
	return ""
}

func (t *tr) calleeObj(f ast.Expr) types.Object {
	switch x := f.(type) {
	case *ast.Ident:
		return t.info.Uses[x]
	case *ast.SelectorExpr:
		return t.info.Uses[x.Sel]
	}
	return nil
}

// len atoms are Nat params but used as Int: wrap at use site.
// (handled in expr by returning the param name; patch here)

func (t *tr) retExpr(results []ast.Expr) string {
	if t.resErr {
		last := results[len(results)-1]
		if id, ok := last.(*ast.Ident); ok && id.Name == "nil" {
			return ".ok " + t.tuple(results[:len(results)-1])
		}
		return ".err \"" + exprText(t.pkg.Fset, last) + "\""
	}
	if t.hasRes {
		return ".ok " + t.tuple(results)
	}
	return t.tuple(results)
}

func (t *tr) tuple(rs []ast.Expr) string {
	if len(rs) == 0 {
		return "()"
	}
	var ss []string
	for _, r := range rs {
		s, _ := t.expr(r)
		ss = append(ss, s)
	}
	if len(ss) == 1 {
		return ss[0]
	}
	return "(" + strings.Join(ss, ", ") + ")"
}

func alwaysReturns(stmts []ast.Stmt) bool {
	if len(stmts) == 0 {
		return false
	}
	switch s := stmts[len(stmts)-1].(type) {
	case *ast.ReturnStmt:
		return true
	case *ast.ExprStmt:
		if c, ok := s.X.(*ast.CallExpr); ok && calleeName(c.Fun) == "panic" {
			return true
		}
	case *ast.IfStmt:
		if s.Else == nil {
			return false
		}
		if eb, ok := s.Else.(*ast.BlockStmt); ok {
			return alwaysReturns(s.Body.List) && alwaysReturns(eb.List)
		}
		if ei, ok := s.Else.(*ast.IfStmt); ok {
			return alwaysReturns(s.Body.List) && alwaysReturns([]ast.Stmt{ei})
		}
	case *ast.SwitchStmt:
		hasDefault := false
		for _, c := range s.Body.List {
			cc := c.(*ast.CaseClause)
			if cc.List == nil {
				hasDefault = true
			}
			if !alwaysReturns(cc.Body) {
				return false
			}
		}
		return hasDefault
	}
	return false
}

func (t *tr) assignedVars(stmts []ast.Stmt, out map[string]bool) {
	for _, s := range stmts {
		switch x := s.(type) {
		case *ast.AssignStmt:
			if x.Tok != token.DEFINE {
				for _, l := range x.Lhs {
					if id, ok := l.(*ast.Ident); ok {
						out[id.Name] = true
					}
				}
			}
		case *ast.IncDecStmt:
			if id, ok := x.X.(*ast.Ident); ok {
				out[id.Name] = true
			}
		case *ast.IfStmt:
			t.assignedVars(x.Body.List, out)
			if eb, ok := x.Else.(*ast.BlockStmt); ok {
				t.assignedVars(eb.List, out)
			}
		case *ast.SwitchStmt:
			for _, c := range x.Body.List {
				t.assignedVars(c.(*ast.CaseClause).Body, out)
			}
		}
	}
}

// block translates stmts; `k` is the Lean text to continue with when the block
// falls through ("" at function level: falling off is an error).
func (t *tr) block(stmts []ast.Stmt, k string, ind string) string {
	if len(stmts) == 0 {
		if k == "" {
			fail("%s: control falls off the end", t.spec.Name)
		}
		return k
	}
	s := stmts[0]
	rest := func() string { return t.block(stmts[1:], k, ind) }
	switch x := s.(type) {
	case *ast.ReturnStmt:
		return t.retExpr(x.Results)
	case *ast.ExprStmt:
		if c, ok := x.X.(*ast.CallExpr); ok {
			n := calleeName(c.Fun)
			if n == "panic" {
				return ".panic"
			}
			if logSkip[n] || t.spec.Skip[n] {
				return rest()
			}
		}
		fail("%s: unsupported expression statement at %v", t.spec.Name, t.pkg.Fset.Position(s.Pos()))
	case *ast.DeferStmt:
		// only metric-marking defers are tolerated
		return rest()
	case *ast.DeclStmt:
		gd := x.Decl.(*ast.GenDecl)
		out := ""
		for _, sp := range gd.Specs {
			vs := sp.(*ast.ValueSpec)
			for i, n := range vs.Names {
				obj := t.info.Defs[n]
				ty := classify(obj.Type())
				val := "0"
				if len(vs.Values) > i {
					val, _ = t.expr(vs.Values[i])
				} else if ty.k == kBool {
					val = "false"
				}
				t.locals[obj] = sanitize(n.Name)
				out += fmt.Sprintf("let %s : %s := %s\n%s", sanitize(n.Name), ty.lean(), val, ind)
			}
		}
		return out + rest()
	case *ast.IncDecStmt:
		id := x.X.(*ast.Ident)
		one := &ast.BasicLit{Kind: token.INT, Value: "1"}
		_ = one
		cur, ty := t.expr(id)
		var e string
		if ty.k == kInt {
			e = fmt.Sprintf("(%s %s 1)", cur, map[token.Token]string{token.INC: "+", token.DEC: "-"}[x.Tok])
		} else if x.Tok == token.INC {
			e = fmt.Sprintf("(GoSem.uadd %s %s 1)", pow2(ty.w), cur)
		} else {
			e = fmt.Sprintf("(GoSem.usub %s %s 1)", pow2(ty.w), cur)
		}
		return fmt.Sprintf("let %s := %s\n%s", cur, e, ind) + rest()
	case *ast.AssignStmt:
		// stop-at call?
		if len(x.Rhs) == 1 {
			if c, ok := x.Rhs[0].(*ast.CallExpr); ok && t.spec.StopAt != "" && calleeName(c.Fun) == t.spec.StopAt {
				return ".ok " + t.tuple(c.Args)
			}
			// v, err := translatedFn(...) ; followed by `if err != nil { return ..., err }`
			if c, ok := x.Rhs[0].(*ast.CallExpr); ok && len(x.Lhs) == 2 {
				if obj := t.calleeObj(c.Fun); obj != nil && obj.Pkg() != nil {
					if g, ok := t.fnObj[obj.Pkg().Path()+"."+obj.Name()]; ok && g.useRes {
						var args []string
						for i, a := range c.Args {
							s, _ := t.expr(a)
							args = append(args, fmt.Sprintf("(%s := %s)", g.formal[i], s))
						}
						v := x.Lhs[0].(*ast.Ident)
						t.locals[t.info.Defs[v]] = sanitize(v.Name)
						if len(stmts) < 2 {
							fail("%s: GoRes call not followed by error check", t.spec.Name)
						}
						if _, ok := stmts[1].(*ast.IfStmt); !ok {
							fail("%s: GoRes call not followed by error check", t.spec.Name)
						}
						k2 := t.block(stmts[2:], k, ind+"  ")
						return fmt.Sprintf("match (%s %s) with\n%s| .panic => .panic\n%s| .err e => .err e\n%s| .ok %s =>\n%s  %s", g.lean, strings.Join(args, " "), ind, ind, ind, sanitize(v.Name), ind, k2)
					}
				}
			}
		}
		if len(x.Rhs) == 1 && len(x.Lhs) > 1 {
			if c, ok := x.Rhs[0].(*ast.CallExpr); ok {
				if obj := t.calleeObj(c.Fun); obj != nil && obj.Pkg() != nil {
					if g, ok := t.fnObj[obj.Pkg().Path()+"."+obj.Name()]; ok && !g.useRes {
						call, _ := t.expr(c)
						var names []string
						for _, l := range x.Lhs {
							id := l.(*ast.Ident)
							if o := t.info.Defs[id]; o != nil {
								t.locals[o] = sanitize(id.Name)
							}
							names = append(names, sanitize(id.Name))
						}
						return fmt.Sprintf("let (%s) := %s\n%s", strings.Join(names, ", "), call, ind) + rest()
					}
				}
			}
		}
		if len(x.Lhs) != len(x.Rhs) {
			fail("%s: unsupported multi-assign at %v", t.spec.Name, t.pkg.Fset.Position(s.Pos()))
		}
		out := ""
		for i := range x.Lhs {
			id, ok := x.Lhs[i].(*ast.Ident)
			if !ok {
				fail("%s: unsupported assignment target at %v", t.spec.Name, t.pkg.Fset.Position(s.Pos()))
			}
			var rhs string
			var ty lty
			switch x.Tok {
			case token.DEFINE, token.ASSIGN:
				rhs, ty = t.expr(x.Rhs[i])
			default:
				op := map[token.Token]token.Token{token.ADD_ASSIGN: token.ADD, token.SUB_ASSIGN: token.SUB, token.MUL_ASSIGN: token.MUL, token.QUO_ASSIGN: token.QUO, token.REM_ASSIGN: token.REM}[x.Tok]
				be := &ast.BinaryExpr{X: id, Op: op, Y: x.Rhs[i]}
				// type info for the synthetic node: reuse LHS type
				t.info.Types[be] = types.TypeAndValue{Type: t.info.TypeOf(id)}
				rhs, ty = t.expr(be)
			}
			if x.Tok == token.DEFINE {
				if obj := t.info.Defs[id]; obj != nil {
					t.locals[obj] = sanitize(id.Name)
					ty = classify(obj.Type())
				}
			}
			out += fmt.Sprintf("let %s : %s := %s\n%s", sanitize(id.Name), ty.lean(), rhs, ind)
		}
		return out + rest()
	case *ast.IfStmt:
		if x.Init != nil {
			fail("%s: if-with-init unsupported", t.spec.Name)
		}
		cond, _ := t.expr(x.Cond)
		var elseStmts []ast.Stmt
		hasElse := false
		switch e := x.Else.(type) {
		case *ast.BlockStmt:
			elseStmts, hasElse = e.List, true
		case *ast.IfStmt:
			elseStmts, hasElse = []ast.Stmt{e}, true
		}
		thenRet := alwaysReturns(x.Body.List)
		elseRet := hasElse && alwaysReturns(elseStmts)
		if thenRet && (elseRet || !hasElse) {
			var el string
			if hasElse {
				el = t.block(elseStmts, "", ind+"  ")
			} else {
				el = t.block(stmts[1:], k, ind+"  ")
			}
			th := t.block(x.Body.List, "", ind+"  ")
			return fmt.Sprintf("if %s then\n%s  %s\n%selse\n%s  %s", cond, ind, th, ind, ind, el)
		}
		if thenRet || elseRet {
			// one side returns, the other falls through to rest
			r := t.block(stmts[1:], k, ind+"  ")
			if thenRet {
				th := t.block(x.Body.List, "", ind+"  ")
				el := t.block(elseStmts, r, ind+"  ")
				return fmt.Sprintf("if %s then\n%s  %s\n%selse\n%s  %s", cond, ind, th, ind, ind, el)
			}
			th := t.block(x.Body.List, r, ind+"  ")
			el := t.block(elseStmts, "", ind+"  ")
			return fmt.Sprintf("if %s then\n%s  %s\n%selse\n%s  %s", cond, ind, th, ind, ind, el)
		}
		// neither side returns: join on assigned variables
		vs := map[string]bool{}
		t.assignedVars(x.Body.List, vs)
		t.assignedVars(elseStmts, vs)
		var names []string
		for v := range vs {
			names = append(names, sanitize(v))
		}
		sort.Strings(names)
		if len(names) == 0 {
			return rest()
		}
		tup := names[0]
		if len(names) > 1 {
			tup = "(" + strings.Join(names, ", ") + ")"
		}
		th := t.block(x.Body.List, tup, ind+"  ")
		el := t.block(elseStmts, tup, ind+"  ")
		return fmt.Sprintf("let %s := (if %s then\n%s  %s\n%selse\n%s  %s)\n%s", tup, cond, ind, th, ind, ind, el, ind) + rest()
	case *ast.SwitchStmt:
		if x.Init != nil || x.Tag == nil {
			fail("%s: unsupported switch", t.spec.Name)
		}
		tag, _ := t.expr(x.Tag)
		// build nested ifs; only the all-return or all-assign shapes
		var clauses []*ast.CaseClause
		var def *ast.CaseClause
		for _, c := range x.Body.List {
			cc := c.(*ast.CaseClause)
			if cc.List == nil {
				def = cc
			} else {
				clauses = append(clauses, cc)
			}
		}
		vs := map[string]bool{}
		for _, c := range x.Body.List {
			t.assignedVars(c.(*ast.CaseClause).Body, vs)
		}
		var names []string
		for v := range vs {
			names = append(names, sanitize(v))
		}
		sort.Strings(names)
		tup := ""
		if len(names) == 1 {
			tup = names[0]
		} else if len(names) > 1 {
			tup = "(" + strings.Join(names, ", ") + ")"
		}
		r := t.block(stmts[1:], k, ind+"  ")
		// Each clause either returns or falls to the join. To keep the output small we
		// inline `rest` into every falling clause (straight-line code only).
		var build func(i int) string
		build = func(i int) string {
			if i == len(clauses) {
				if def == nil {
					return r
				}
				if alwaysReturns(def.Body) {
					return t.block(def.Body, "", ind+"  ")
				}
				return t.block(def.Body, r, ind+"  ")
			}
			cc := clauses[i]
			var cs []string
			for _, v := range cc.List {
				s, _ := t.expr(v)
				cs = append(cs, fmt.Sprintf("(%s == %s)", tag, s))
			}
			body := ""
			if alwaysReturns(cc.Body) {
				body = t.block(cc.Body, "", ind+"  ")
			} else {
				body = t.block(cc.Body, r, ind+"  ")
			}
			return fmt.Sprintf("if %s then\n%s  %s\n%selse\n%s  %s", strings.Join(cs, " || "), ind, body, ind, ind, build(i+1))
		}
		_ = tup
		return build(0)
	}
	fail("%s: unsupported statement %T at %v", t.spec.Name, s, t.pkg.Fset.Position(s.Pos()))
	return ""
}

func hasPanic(n ast.Node) bool {
	found := false
	ast.Inspect(n, func(n ast.Node) bool {
		if c, ok := n.(*ast.CallExpr); ok && calleeName(c.Fun) == "panic" {
			found = true
		}
		return true
	})
	return found
}

func findFunc(p *packages.Package, recv, name string) *ast.FuncDecl {
	for _, f := range p.Syntax {
		for _, d := range f.Decls {
			fd, ok := d.(*ast.FuncDecl)
			if !ok || fd.Name.Name != name {
				continue
			}
			r := ""
			if fd.Recv != nil && len(fd.Recv.List) > 0 {
				r = exprText(p.Fset, fd.Recv.List[0].Type)
			}
			if r == recv {
				return fd
			}
		}
	}
	return nil
}

func (t *tr) bindFormals(fd *ast.FuncDecl) []string {
	var formal []string
	add := func(fl *ast.FieldList, asParam bool) {
		if fl == nil {
			return
		}
		for _, f := range fl.List {
			for _, n := range f.Names {
				obj := t.info.Defs[n]
				ty := classify(obj.Type())
				nm := sanitize(n.Name)
				t.locals[obj] = nm
				if asParam && (ty.k == kInt || ty.k == kNat || ty.k == kBool) {
					t.addParam(nm, ty)
					formal = append(formal, nm)
				} else if asParam {
					// pointer/struct parameter: its field chains become params on use;
					// a bare use (equality) is an opaque Nat
					delete(t.locals, obj)
					t.localsOpaque(obj, nm, ty)
					formal = append(formal, nm)
				}
			}
		}
	}
	add(fd.Recv, true)
	add(fd.Type.Params, true)
	return formal
}

var opaqueObjs = map[types.Object]string{}

func (t *tr) localsOpaque(obj types.Object, nm string, ty lty) {
	// comparing whole opaque params (addresses) is allowed: they are Nat ids
	if _, isPtr := obj.Type().(*types.Pointer); isPtr {
		return
	}
	if _, isStruct := obj.Type().Underlying().(*types.Struct); isStruct {
		return
	}
	t.locals[obj] = nm
	t.addParam(nm, lty{k: kOpaque})
}

func nodeText(fset *token.FileSet, n ast.Node) string {
	var b bytes.Buffer
	printer.Fprint(&b, fset, n)
	return b.String()
}

func header(ns string) string {
	return "-- GENERATED by /verif/tools/go2lean from /repo's working tree. DO NOT EDIT.\nimport LemoModel.GoSem\nset_option linter.unusedVariables false\nnamespace " + ns + "\nopen LemoModel\n\n"
}

func paramList(ps []param) string {
	var ss []string
	for _, p := range ps {
		ss = append(ss, fmt.Sprintf("(%s : %s)", p.name, p.ty.lean()))
	}
	return strings.Join(ss, " ")
}

func main() {
	repo := flag.String("repo", "/repo", "repository root")
	out := flag.String("out", "/verif/lean/LemoGen", "output dir")
	flag.Parse()

	pkgSet := map[string]bool{}
	for _, m := range modules {
		for _, f := range m.Funcs {
			pkgSet["./"+f.Pkg] = true
		}
		for _, f := range m.Exprs {
			pkgSet["./"+f.Pkg] = true
		}
		for _, f := range m.Consts {
			pkgSet["./"+f.Pkg] = true
		}
	}
	var pats []string
	for p := range pkgSet {
		pats = append(pats, p)
	}
	sort.Strings(pats)
	cfg := &packages.Config{Mode: packages.NeedName | packages.NeedSyntax | packages.NeedTypes | packages.NeedTypesInfo | packages.NeedFiles | packages.NeedImports | packages.NeedDeps, Dir: *repo}
	pkgs, err := packages.Load(cfg, pats...)
	if err != nil {
		fmt.Fprintf(os.Stderr, "go2lean: load: %v\n", err)
		os.Exit(2)
	}
	byPath := map[string]*packages.Package{}
	for _, p := range pkgs {
		if len(p.Errors) > 0 {
			// the modules that need this package fail one by one ("package … not loaded")
			fmt.Fprintf(os.Stderr, "go2lean: package %s has errors: %v\n", p.PkgPath, p.Errors)
			continue
		}
		byPath[strings.TrimPrefix(p.PkgPath, modPath)] = p
	}
	fnObj := map[string]*genFn{}
	summary := []string{}
	failed := 0
	for _, m := range modules {
		m := m
		func() {
			defer func() {
				if r := recover(); r != nil {
					te, ok := r.(translateError)
					if !ok {
						panic(r)
					}
					failed++
					msg := strings.ReplaceAll(te.msg, "\n", " ")
					fmt.Fprintf(os.Stderr, "go2lean: FAILED module %s: %s\n", m.NS, msg)
					stub := fmt.Sprintf("-- GENERATION FAILED: %s\n-- tools/go2lean could not translate the current source of this module; the stub below does not compile on purpose,\n-- so every model that imports it (and only those) loses its tie to the code.\nnamespace %s\ntheorem translation_failed : False := translation_of_the_current_source_failed\nend %s\n", msg, m.NS, m.NS)
					if err := os.WriteFile(filepath.Join(*out, m.File), []byte(stub), 0644); err != nil {
						fmt.Fprintf(os.Stderr, "go2lean: %v\n", err)
						os.Exit(2)
					}
				}
			}()
			var sb strings.Builder
			sb.WriteString(header(m.NS))
			for _, c := range m.Consts {
				p := byPath[c.Pkg]
				if p == nil {
					fail("package %s not loaded", c.Pkg)
				}
				obj := p.Types.Scope().Lookup(c.Name)
				if obj == nil {
					fail("const %s.%s not found", c.Pkg, c.Name)
				}
				switch o := obj.(type) {
				case *types.Const:
					v := constant.ToInt(o.Val())
					if v.Kind() != constant.Int {
						fail("const %s not integral", c.Name)
					}
					ty := classify(o.Type())
					sb.WriteString(fmt.Sprintf("def %s : %s := %s\n\n", c.Lean, ty.lean(), v.ExactString()))
				case *types.Var:
					// find initializer
					done := false
					for _, f := range p.Syntax {
						ast.Inspect(f, func(n ast.Node) bool {
							vs, ok := n.(*ast.ValueSpec)
							if !ok {
								return true
							}
							for i, nm := range vs.Names {
								if p.TypesInfo.Defs[nm] == obj && len(vs.Values) > i {
									tv := p.TypesInfo.Types[vs.Values[i]]
									if tv.Value != nil {
										v := constant.ToInt(tv.Value)
										ty := classify(o.Type())
										sb.WriteString(fmt.Sprintf("def %s : %s := %s\n\n", c.Lean, ty.lean(), v.ExactString()))
										done = true
									}
								}
							}
							return true
						})
					}
					if !done {
						fail("var %s.%s has no constant initializer", c.Pkg, c.Name)
					}
				default:
					fail("%s.%s is not a const/var", c.Pkg, c.Name)
				}
			}
			for i := range m.Funcs {
				fs := &m.Funcs[i]
				p := byPath[fs.Pkg]
				if p == nil {
					fail("package %s not loaded", fs.Pkg)
				}
				fd := findFunc(p, fs.Recv, fs.Name)
				if fd == nil {
					fail("function %s.%s not found", fs.Pkg, fs.Name)
				}
				t := &tr{pkg: p, info: p.TypesInfo, spec: fs, seen: map[string]bool{}, locals: map[types.Object]string{}, fnObj: fnObj}
				formal := t.bindFormals(fd)
				res := fd.Type.Results
				var resTys []string
				if res != nil {
					for _, f := range res.List {
						n := len(f.Names)
						if n == 0 {
							n = 1
						}
						for j := 0; j < n; j++ {
							ty := classify(t.info.TypeOf(f.Type))
							if ty.k == kErr {
								t.resErr = true
							} else {
								resTys = append(resTys, ty.lean())
							}
						}
					}
				}
				t.hasRes = t.resErr || hasPanic(fd.Body) || fs.StopAt != ""
				body := t.block(fd.Body.List, "", "  ")
				rty := strings.Join(resTys, " × ")
				if len(resTys) == 0 {
					rty = "Unit"
				}
				if fs.StopAt != "" {
					rty = "_"
				}
				if t.hasRes {
					rty = "GoRes (" + rty + ")"
				}
				if fs.StopAt != "" {
					sb.WriteString(fmt.Sprintf("def %s %s :=\n  (show GoRes _ from\n  %s)\n\n", fs.Lean, paramList(t.params), body))
				} else {
					sb.WriteString(fmt.Sprintf("def %s %s : %s :=\n  %s\n\n", fs.Lean, paramList(t.params), rty, body))
				}
				if len(t.divisors) > 0 {
					var qs []string
					for _, d := range t.divisors {
						qs = append(qs, fmt.Sprintf("%q", d))
					}
					sb.WriteString(fmt.Sprintf("/-- non-constant divisors of `%s` (Go panics with \"integer divide by zero\" when one is 0; the rendering above is total) -/\ndef %s_divisors : List String := [%s]\n\n", fs.Name, fs.Lean, strings.Join(qs, ", ")))
				}
				fnObj[p.PkgPath+"."+fs.Name] = &genFn{lean: m.NS + "." + fs.Lean, params: t.params, formal: formal, useRes: t.hasRes}
				summary = append(summary, fmt.Sprintf("func %s.%s -> %s.%s", fs.Pkg, fs.Name, m.NS, fs.Lean))
			}
			for i := range m.Exprs {
				es := &m.Exprs[i]
				p := byPath[es.Pkg]
				fd := findFunc(p, es.Recv, es.Func)
				if fd == nil {
					fail("function %s.%s not found", es.Pkg, es.Func)
				}
				spec := &FuncSpec{Name: es.Func + "/" + es.Lean}
				t := &tr{pkg: p, info: p.TypesInfo, spec: spec, seen: map[string]bool{}, locals: map[types.Object]string{}, fnObj: fnObj}
				// every identifier becomes a parameter
				var target ast.Expr
				cnt := 0
				ast.Inspect(fd.Body, func(n ast.Node) bool {
					switch x := n.(type) {
					case *ast.AssignStmt:
						if es.Kind == "assign" && len(x.Lhs) == 1 {
							if id, ok := x.Lhs[0].(*ast.Ident); ok && id.Name == es.LHS {
								if cnt == es.Nth {
									target = x.Rhs[0]
								}
								cnt++
							}
						}
					case *ast.ReturnStmt:
						if es.Kind == "return" {
							if cnt == es.Nth && len(x.Results) > es.K {
								target = x.Results[es.K]
							}
							cnt++
						}
					case *ast.IfStmt:
						if es.Kind == "ifcond" && strings.Contains(nodeText(p.Fset, x.Cond), es.LHS) {
							if cnt == es.Nth {
								target = x.Cond
								// K > 0 selects the K-th operand (1-based) of a top-level `||` / `&&` chain of the condition
								if es.K > 0 {
									var ops []ast.Expr
									var flat func(e ast.Expr, op token.Token)
									flat = func(e ast.Expr, op token.Token) {
										if be, ok := e.(*ast.BinaryExpr); ok && be.Op == op {
											flat(be.X, op)
											flat(be.Y, op)
										} else {
											ops = append(ops, e)
										}
									}
									if be, ok := x.Cond.(*ast.BinaryExpr); ok && (be.Op == token.LOR || be.Op == token.LAND) {
										flat(x.Cond, be.Op)
									}
									if es.K <= len(ops) {
										target = ops[es.K-1]
									} else {
										target = nil
									}
								}
							}
							cnt++
						}
					}
					return true
				})
				if target == nil {
					fail("expression %s in %s not found", es.Lean, es.Func)
				}
				// bind all identifiers used in target as params
				ast.Inspect(target, func(n ast.Node) bool {
					if sel, ok := n.(*ast.SelectorExpr); ok {
						_ = sel
						return false
					}
					if id, ok := n.(*ast.Ident); ok {
						if obj := t.info.Uses[id]; obj != nil {
							if v, ok := obj.(*types.Var); ok && v.Parent() != v.Pkg().Scope() {
								ty := classify(v.Type())
								if ty.k == kInt || ty.k == kNat || ty.k == kBool || ty.k == kOpaque {
									t.locals[obj] = sanitize(id.Name)
									t.addParam(id.Name, ty)
								}
							}
						}
					}
					return true
				})
				body, ty := t.expr(target)
				sort.SliceStable(t.params, func(a, b int) bool { return t.params[a].name < t.params[b].name })
				sb.WriteString(fmt.Sprintf("def %s %s : %s :=\n  %s\n\n", es.Lean, paramList(t.params), ty.lean(), body))
				if len(t.divisors) > 0 {
					var qs []string
					for _, d := range t.divisors {
						qs = append(qs, fmt.Sprintf("%q", d))
					}
					sb.WriteString(fmt.Sprintf("/-- non-constant divisors of this expression of `%s` (Go panics when one is 0) -/\ndef %s_divisors : List String := [%s]\n\n", es.Func, es.Lean, strings.Join(qs, ", ")))
				}
				summary = append(summary, fmt.Sprintf("expr %s.%s#%s -> %s.%s", es.Pkg, es.Func, es.Lean, m.NS, es.Lean))
			}
			sb.WriteString("end " + m.NS + "\n")
			if err := os.WriteFile(filepath.Join(*out, m.File), []byte(sb.String()), 0644); err != nil {
				fail("write: %v", err)
			}
		}()
	}
	for _, s := range summary {
		fmt.Println(s)
	}
	if failed > 0 {
		fmt.Printf("%d module(s) could not be translated (stubs written)\n", failed)
	}
}

#!/bin/bash
# Build the harness with only main.go, util.go and the files of ONE sub-command (cXX*.go),
# so that another builder's half-written file cannot break your build.
#   tools/hxbuild.sh c07   ->  /verif/bin/hx-c07
set -e
sub="$1"; [ -n "$sub" ] || { echo "usage: $0 cXX"; exit 2; }
export GOFLAGS=-mod=mod GOPROXY=off GOSUMDB=off GOTOOLCHAIN=local CGO_ENABLED=1
d=/verif/work/hxb-$sub
rm -rf "$d"; mkdir -p "$d/hx"
cp /verif/harness/go.mod "$d/"; cp /repo/go.sum "$d/"
cp /verif/harness/hx/main.go /verif/harness/hx/util.go /verif/harness/hx/node.go /verif/harness/hx/txgen.go "$d/hx/"
cp /verif/harness/hx/${sub}*.go "$d/hx/"
(cd "$d" && go build -tags verif -o /verif/bin/hx-$sub ./hx)
echo built /verif/bin/hx-$sub

#!/usr/bin/env python3
"""keepseed.py <name> <property> <seed-out-dir> <caught-by> <needs...>  — archive a confirmed seeded change under /verif/seeded/<name>/"""
import sys, os, shutil, json, glob
name, prop, out, caught = sys.argv[1:5]
needs = " ".join(sys.argv[5:])
d = "/verif/seeded/" + name
os.makedirs(d, exist_ok=True)
shutil.copy(os.path.join(out, "patch.diff"), d)
for f in glob.glob(os.path.join(out, "*_test.go")) + glob.glob(os.path.join(out, "*.go")) + glob.glob(os.path.join(out, "demo.txt")) + glob.glob(os.path.join(out, "notes.md")):
    # keep demo files out of the Go harness module: rename *.go -> *.go.txt
    base = os.path.basename(f)
    shutil.copy(f, os.path.join(d, base + (".txt" if base.endswith(".go") else "")))
json.dump({"breaks_property": prop, "needs_to_manifest": needs,
           "confirmed": "tools/tryseed.sh: demo passes on the clean worktree, fails with patch.diff applied; go build ./... ok; the touched package's own tests pass with the patch",
           "ran": "VERIF_REPO=<scratch worktree with the patch> ./check " + prop + " (quick tier)",
           "result": caught}, open(os.path.join(d, "meta.json"), "w"), indent=1)
print("kept", d, os.listdir(d))

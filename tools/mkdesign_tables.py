#!/usr/bin/env python3
"""Regenerates the generated parts of DESIGN.md (between <!-- GEN:x --> / <!-- /GEN:x --> markers) from
known_findings.json, seeded/*/meta.json and props/*.json."""
import json, glob, os, re, subprocess
R = "/verif"
kf = json.load(open(R + "/known_findings.json"))

def sec13():
    out = []
    out.append("### 13.1 Repaired (`fix:` commits in /repo, one per defect)\n")
    out.append("| property | commit | what failed before the repair |\n|---|---|---|")
    for s in kf["fixed"]:
        m = re.match(r"fixed: property=(C\d\d) ([0-9a-f]{7,}) (.*)", s)
        if m:
            out.append("| %s | `%s` | %s |" % (m.group(1), m.group(2), m.group(3).replace("|", "\\|")))
    out.append("\n### 13.2 Known findings (open; the check prints `KNOWN-FINDING` and exits 0)\n")
    out.append("| property | signature (prefix match) | what fails | where |\n|---|---|---|---|")
    for f in sorted(kf["findings"], key=lambda f: (f["property"], f["sig"])):
        out.append("| %s | `%s` | %s | %s |" % (f["property"], f["sig"], f["what"].replace("|", "\\|"), f.get("where", "").replace("|", "\\|")))
    return "\n".join(out)

def sec15():
    out = ["| seeded change (dir under /verif/seeded) | breaks | needs to manifest | result of `./check` on the patched tree | re-run against the final checks (`tools/reseed.sh`) |\n|---|---|---|---|---|"]
    for d in sorted(glob.glob(R + "/seeded/*/meta.json")):
        m = json.load(open(d))
        rc = os.path.join(os.path.dirname(d), "recheck.json")
        rr = ""
        if os.path.exists(rc):
            r = json.load(open(rc))
            rr = "%s at %s" % (r.get("result", ""), r.get("repo_head", ""))
            if r.get("result") == "PATCH-NO-LONGER-APPLIES":
                rr = "patch no longer applies at %s (the patched lines were changed by a later `fix:` commit); the original run stands" % r.get("repo_head", "")
            elif r.get("result") == "NO LONGER A VIOLATION":
                rr = "no longer a violation at %s: %s" % (r.get("repo_head", ""), r.get("first", ""))
            elif r.get("first"):
                rr += ": `%s`" % r["first"].strip().replace("first failing input: ", "").replace("|", "\\|")[:110]
        out.append("| `%s` | %s | %s | %s | %s |" % (os.path.basename(os.path.dirname(d)), m["breaks_property"], m["needs_to_manifest"].replace("|", "\\|"), m["result"].replace("|", "\\|"), rr))
    return "\n".join(out)

def sec12b():
    out = ["| id | theorems registered (all audited by `#print axioms`) | refutations / partial |\n|---|---|---|"]
    for p in sorted(glob.glob(R + "/props/C*.json")):
        c = json.load(open(p))
        th = ", ".join("`%s`" % t.split(".")[-1] for t in c["theorems"])
        rp = "; ".join([r.split(":")[0].split(" (")[0] for r in c.get("refutations", [])] + ["partial: " + x.split(":")[0] for x in c.get("partial", [])])
        out.append("| %s | %d: %s | %s |" % (c["id"], len(c["theorems"]), th, rp.replace("|", "\\|")))
    return "\n".join(out)


def sec12a():
    """per-property status table + the props' own explanation / partial texts (always current)"""
    seeds = {}
    for d in glob.glob(R + "/seeded/*/meta.json"):
        m = json.load(open(d)); seeds[m["breaks_property"]] = seeds.get(m["breaks_property"], 0) + 1
    out = ["| id | level | registered theorems | harness sub-commands (real code) | repairs in /repo | open findings | seeded changes kept |\n|---|---|---|---|---|---|---|"]
    for p in sorted(glob.glob(R + "/props/C*.json")):
        c = json.load(open(p)); i = c["id"]
        nfix = sum(1 for x in kf["fixed"] if ("property=%s " % i) in x)
        nopen = sum(1 for f in kf["findings"] if f["property"] == i)
        subs = [c["hx"]] + [e["hx"] for e in c.get("extra_hx", [])]
        out.append("| %s | %s | %d | %s | %d | %d | %d |" % (i, c.get("level", ""), len(c["theorems"]), ", ".join("`hx %s`" % x for x in subs), nfix, nopen, seeds.get(i, 0)))
    out.append("")
    for p in sorted(glob.glob(R + "/props/C*.json")):
        c = json.load(open(p))
        out.append("**%s.** %s" % (c["id"], c.get("explanation", "").strip()))
        if c.get("partial"):
            out.append("")
            out.append("*Covered only under a guard, only by the correspondence / an oracle, or not at all:*")
            for x in c["partial"]:
                out.append("- " + x.strip().replace("\n", " "))
        out.append("")
    return "\n".join(out)

gens = {"13": sec13, "15": sec15, "12b": sec12b, "12a": sec12a}
s = open(R + "/DESIGN.md").read()
for k, f in gens.items():
    a, b = "<!-- GEN:%s -->" % k, "<!-- /GEN:%s -->" % k
    if a in s:
        i, j = s.index(a) + len(a), s.index(b)
        s = s[:i] + "\n" + f() + "\n" + s[j:]
open(R + "/DESIGN.md", "w").write(s)
print("DESIGN.md tables regenerated")

#!/usr/bin/env python3
"""Regenerate /verif/MANIFEST.json from props/*.json (keeps the manifest valid at all times)."""
import json, glob, os
ROOT = os.path.dirname(os.path.dirname(os.path.abspath(__file__)))
props = [json.loads(l) for l in open(os.path.join(ROOT, "properties.jsonl"))]
checks, na = [], []
meta = json.load(open(os.path.join(ROOT, "props", "_meta.json")))
for p in props:
    pid = p["id"]
    f = os.path.join(ROOT, "props", pid + ".json")
    if not os.path.exists(f) or json.load(open(f)).get("disabled"):
        reason = meta["not_applicable"].get(pid, "not yet covered by a model and theorems in this framework (work in progress; see DESIGN.md)")
        na.append({"property_id": pid, "reason": reason})
        continue
    c = json.load(open(f))
    checks.append({
        "property_id": pid,
        "quick_cmd": "./check %s --tier quick" % pid,
        "thorough_cmd": "./check %s --tier thorough" % pid,
        "evidence_file": "/verif/evidence/%s.json" % pid,
        "replay_cmd_template": "./check %s --replay {path}" % pid,
        "engine": "lean4-proof+correspondence",
        "level_claimed": {"category": c.get("level", "proof"),
                          "text": c.get("level_text", c.get("explanation", "")) + ((" NOT FULLY COVERED (guarded / correspondence- or oracle-only / uncovered clauses): " + " | ".join(c["partial"])) if c.get("partial") else ""),
                          "design_ref": "DESIGN.md §12.1 %s (what was built), §5 %s (the plan)" % (pid, pid)},
        "level_note": "; ".join(c.get("trusted_base", []) + c.get("assumptions", [])),
        "technique": c.get("technique", "Lean 4 machine-checked proof over an executable model; tie to the code: definitions regenerated from the Go source (go2lean) where the code is straight-line arithmetic, fact tables re-extracted from the source on every run, and a differential correspondence check (real code vs model on the same op lines) for the hand-written parts"),
    })
import subprocess
try:
    hooks = subprocess.run(["git", "-C", "/repo", "log", "--format=%h %s", "--grep=^verif hook"], capture_output=True, text=True).stdout.strip().splitlines()
    meta["hooks"]["source_commits"] = [h.split()[0] for h in hooks]
except Exception:
    pass
m = {
    "version": 1,
    "setup_cmd": "./setup.sh",
    "hooks": meta["hooks"],
    "engines": [{"name": "lean4-proof+correspondence", "path": "/verif/check", "serves_properties": [c["property_id"] for c in checks],
                 "kind_free_text": "Lean 4 theorems over executable models (lean/), Go->Lean translator (tools/go2lean), fact extractor and differential harness (harness/hx) driving the real code in-process"}],
    "checks": checks,
    "notes": meta.get("notes", ""),
    "not_applicable": na,
}
json.dump(m, open(os.path.join(ROOT, "MANIFEST.json"), "w"), indent=1)
print("checks:", [c["property_id"] for c in checks], "n/a:", [n["property_id"] for n in na])

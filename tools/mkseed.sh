#!/bin/bash
# mkseed.sh <ID> [<tag>] [<avoid text>] — prepare /tmp/seed-<ID><tag>/{wt,out,prompt.txt,property.txt} for an independent seeding agent
set -eu
ID="$1"; TAG="${2:-}"; AVOID="${3:-}"
D=/tmp/seed-$ID$TAG
git -C /repo worktree remove --force $D/wt 2>/dev/null || true
rm -rf $D; mkdir -p $D/out
git -C /repo worktree add -q $D/wt HEAD
sed "s/@ID@/$ID$TAG/g" /verif/tools/seeder_prompt.txt > $D/prompt.txt
if [ -n "$AVOID" ]; then
  printf '\nAn earlier round already used this idea — pick a DIFFERENT mechanism, in a different function if possible: %s\n' "$AVOID" >> $D/prompt.txt
fi
python3 - "$ID" "$D" <<'P'
import json,sys
pid,d=sys.argv[1:3]
props={json.loads(l)['id']:json.loads(l) for l in open('/verif/properties.jsonl')}
p=props[pid]
open(d+'/property.txt','w').write("PROPERTY %s: %s\n\nSTATEMENT: %s\n\nQUANTIFIER: %s\n\nANCHORS (where the code lives): %s\n"%(pid,p['title'],p['statement'],p['quantifier']['text'],json.dumps(p['anchors'].get('files'))+"\nmechanism: "+json.dumps(p['anchors'].get('mechanism'))))
P
echo $D

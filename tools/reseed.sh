#!/bin/bash
# reseed.sh [names...] : re-run every kept seeded change (seeded/<name>/patch.diff) against the CURRENT checks.
# For each: scratch worktree of /repo HEAD, git apply (3-way fallback), VERIF_REPO=<wt> ./check <property>; prints one line.
# Writes seeded/<name>/recheck.json. Nothing is changed in /repo; worktrees and work/alt-* are removed.
cd /verif
names="$@"; [ -n "$names" ] || names=$(ls seeded)
for n in $names; do
  d=seeded/$n; [ -f $d/patch.diff ] || continue
  prop=$(python3 -c "import json;print(json.load(open('$d/meta.json'))['breaks_property'])")
  wt=/scratch/reseed-$n
  git -C /repo worktree remove --force $wt 2>/dev/null; rm -rf $wt
  git -C /repo worktree add -q $wt HEAD || { echo "$n worktree-failed"; continue; }
  if (cd $wt && (git apply $OLDPWD/$d/patch.diff 2>/dev/null || git apply -3 $OLDPWD/$d/patch.diff 2>/dev/null)); then
    if (cd $wt && GOFLAGS=-mod=mod GOPROXY=off GOSUMDB=off GOTOOLCHAIN=local go build ./... >/dev/null 2>&1); then
      out=$(VERIF_REPO=$wt ./check $prop 2>&1 | grep -v "^KNOWN-FINDING" | tail -3)
      if echo "$out" | grep -q "^VIOLATION"; then res="CAUGHT"; else res="MISSED"; fi
      first=$(echo "$out" | grep -m1 "first failing input\|no longer checks" | cut -c1-260)
    else res="PATCHED-TREE-DOES-NOT-BUILD"; first=""; fi
  else res="PATCH-NO-LONGER-APPLIES"; first=""; fi
  echo "$n $prop $res $first"
  python3 - "$d" "$res" "$first" <<'P'
import json,sys,subprocess
d,res,first=sys.argv[1:4]
head=subprocess.check_output(['git','-C','/repo','log','--format=%h','-1']).decode().strip()
json.dump({"repo_head":head,"result":res,"first":first},open(d+"/recheck.json","w"),indent=1)
P
  git -C /repo worktree remove --force $wt 2>/dev/null; rm -rf $wt /verif/work/alt-$(printf %s "$wt" | sha1sum | cut -c1-8)
done

#!/bin/bash
# sweep.sh "<seeds>" <ids...> : run the quick tier of the given checks for several VERIF_SEED values on the unchanged tree
# and print every run that is not OK (false-alarm hunting). Meant for `vp run` (does its own setup in the snapshot).
seeds="$1"; shift
[ -x bin/hx ] || ./setup.sh > work/setup.log 2>&1 || { mkdir -p work; ./setup.sh > work/setup.log 2>&1; }
for s in $seeds; do
  for id in "$@"; do
    out=$(VERIF_SEED=$s ./check $id 2>&1 | tail -3)
    if echo "$out" | grep -q "^OK property"; then echo "seed=$s $id OK $(echo "$out" | grep '^OK' | sed 's/.*ops=/ops=/')"; else echo "seed=$s $id NOT-OK"; echo "$out" | cut -c1-600; fi
  done
done

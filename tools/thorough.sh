#!/bin/bash
# thorough.sh <ids...> : run the thorough tier of the given checks on the unchanged tree (for `vp run`).
mkdir -p work; [ -x bin/hx ] || ./setup.sh > work/setup.log 2>&1
for id in "$@"; do
  s=$(date +%s); out=$(./check $id --tier thorough 2>&1 | tail -3); e=$(date +%s)
  if echo "$out" | grep -q "^OK property"; then echo "$id OK $((e-s))s $(echo "$out" | grep '^OK' | sed 's/.*theorems=/theorems=/')"; else echo "$id NOT-OK $((e-s))s"; echo "$out" | cut -c1-600; fi
done

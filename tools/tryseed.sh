#!/bin/bash
# tryseed.sh <ID> <seed-out-dir> <check ids...>
# Confirms a seeded change in a scratch worktree (demo passes clean / fails patched) and runs the named checks against it.
set -u
ID="$1"; OUT="$2"; shift 2
export GOFLAGS=-mod=mod GOPROXY=off GOSUMDB=off GOTOOLCHAIN=local
WT=/scratch/seedwt-$ID
git -C /repo worktree remove --force $WT 2>/dev/null; rm -rf $WT
git -C /repo worktree add -q $WT HEAD || exit 2
PKG=$(grep -m1 -oE '\./[a-zA-Z0-9_/]+' "$OUT/demo.txt" | head -1)
DEMOS=$(ls "$OUT"/*_test.go 2>/dev/null)
echo "== package: $PKG ; demos: $DEMOS"
for f in $DEMOS; do cp "$f" "$WT/$PKG/"; done
echo "== demo on the clean tree"
(cd $WT && go test -vet=off -count=1 -run 'ZZSeed|Seed' $PKG 2>&1 | tail -3)
echo "== apply patch"
(cd $WT && git apply "$OUT/patch.diff" && go build ./... 2>&1 | tail -3)
echo "== demo on the patched tree"
(cd $WT && go test -vet=off -count=1 -run 'ZZSeed|Seed' $PKG 2>&1 | tail -5)
echo "== package tests on the patched tree (without the demo)"
for f in $DEMOS; do rm -f "$WT/$PKG/$(basename $f)"; done
(cd $WT && go test -vet=off -count=1 $PKG 2>&1 | tail -3)
for c in "$@"; do
  echo "== ./check $c against the patched tree"
  (cd /verif && VERIF_REPO=$WT ./check $c 2>&1 | tail -4 | cut -c1-700)
done
git -C /repo worktree remove --force $WT; rm -rf /verif/work/alt-$(printf %s "$WT" | sha1sum | cut -c1-8)
